"""C01 (proofs side): proof stage for lean/MpVerif/C01 + per-gadget correspondence.

run_gadgets(ck) is called from checks/c01.py (and from checks/c01g.py for standalone runs).

Gadget correspondence, differential on the real code:
  for each generated single-expression NL model (gen/nlgen.py) and each functional-constraint type T in it
    run A: recsolver with T (and everything else) natively accepted  -> the stored constraint of type T
           (result variable, context, arguments, parameters) and the bounds/types of all variables
    run B: the same model with acc:<T>=0                              -> what T was rewritten into
    Lean : drv_c01 <gadget T> on the data of run A                   -> model's auxiliary variables + constraints
    expected delivered model of run B  =  (run A minus the T constraints) + Lean output
  compared as multisets of canonical strings with exact numbers; auxiliary variables are numbered
  in creation order on both sides, so no renaming is needed beyond that.
A disagreement is a broken correspondence; the independent oracle for it is brute force over a small
grid (does the step preserve the projected feasible set?), which decides defect vs. model drift.
"""
import os, sys, json, time, itertools, subprocess
from fractions import Fraction as F
from common import *
import recsolver

sys.path.insert(0, os.path.join(VERIF, 'gen'))
import nlgen
from nlgen import Model, Rng

PROP_MIN_THEOREMS = 53
COMPOSE_MIN_THEOREMS = 11
EXTRA_MODULES = [('MpVerif.C01.PropsCompose', 'MpVerif/C01/PropsCompose.lean', COMPOSE_MIN_THEOREMS),
                 ('MpVerif.C01.PropsCtxGen', 'MpVerif/C01/PropsCtxGen.lean', 11),
                 ('MpVerif.C01.PropsObjective', 'MpVerif/C01/PropsObjective.lean', 9),
                 ('MpVerif.C01.PropsGenTie', 'MpVerif/C01/PropsGenTie.lean', 32),
                 # round 5: the reference converter is correct (C01_convert_equiv / _objective)
                 ('MpVerif.C01.PropsConvert', 'MpVerif/C01/PropsConvert.lean', 9),
                 # round 7: created bounds/types of convert's result variables = the generated PreprocessConstraint overloads
                 ('MpVerif.C01.PropsPreproTie', 'MpVerif/C01/PropsPreproTie.lean', 9),
                 # statement audit (round 4): non-vacuity instances only, no C01_ theorems of its own
                 ('MpVerif.C01.PropsAudit', 'MpVerif/C01/PropsAudit.lean', 0)]

# every type except cones / unary-encoding marker: natively accepted in run A
BASE_ACCEPT = ['LinConRange', 'LinConLE', 'LinConEQ', 'LinConGE',
               'QuadConRange', 'QuadConLE', 'QuadConEQ', 'QuadConGE',
               'LinearFunctionalConstraint', 'QuadraticFunctionalConstraint',
               'MaxConstraint', 'MinConstraint', 'AbsConstraint', 'AndConstraint', 'OrConstraint',
               'CondLinConEQ', 'CondLinConLE', 'CondLinConLT', 'CondLinConGE', 'CondLinConGT',
               'CondQuadConEQ', 'CondQuadConLE', 'CondQuadConLT', 'CondQuadConGE', 'CondQuadConGT',
               'NotConstraint', 'DivConstraint', 'IfThenConstraint', 'ImplicationConstraint', 'AllDiffConstraint',
               'NumberofConstConstraint', 'NumberofVarConstraint', 'CountConstraint', 'PowConstraint',
               'IndicatorLinConLE', 'IndicatorLinConEQ', 'IndicatorLinConGE',
               'IndicatorQuadConLE', 'IndicatorQuadConEQ', 'IndicatorQuadConGE',
               'PLConstraint', 'SOS1Constraint', 'SOS2Constraint', 'ComplementarityLinear', 'ComplementarityQuadratic']

# type under test -> (acc option, driver gadget name)
GADGETS = {
    'AbsConstraint': ('acc:abs', 'abs'),
    'MaxConstraint': ('acc:max', 'max'),
    'MinConstraint': ('acc:min', 'min'),
    'AndConstraint': ('acc:and', 'and'),
    'OrConstraint': ('acc:or', 'or'),
    'NotConstraint': ('acc:not', 'not'),
    'IfThenConstraint': ('acc:ifthen', 'ifthen'),
    'ImplicationConstraint': ('acc:impl', 'impl'),
    'CondLinConEQ': ('acc:condlineq', 'condlin'),
    'CondLinConLE': ('acc:condlinle', 'condlin'),
    'CondLinConLT': ('acc:condlinlt', 'condlin'),
    'CondLinConGE': ('acc:condlinge', 'condlin'),
    'CondLinConGT': ('acc:condlingt', 'condlin'),
    'IndicatorLinConLE': ('acc:indle', 'indle'),
    'IndicatorLinConEQ': ('acc:indeq', 'indeq'),
    'IndicatorLinConGE': ('acc:indge', 'indge'),
    'CountConstraint': ('acc:count', 'count'),
    'NumberofConstConstraint': ('acc:numberofconst', 'numberofconst'),
    'NumberofVarConstraint': ('acc:numberofvar', 'numberofvar'),
    'LinConRange': ('acc:linrange', 'rangelin'),
    'QuadConRange': ('acc:quadrange', 'rangequad'),
    'LinearFunctionalConstraint': ('acc:linfunccon', 'lfc'),
    'QuadraticFunctionalConstraint': ('acc:quadfunccon', 'qfc'),
    'DivConstraint': ('acc:div', 'divconst'),
}


# ----------------------------------------------------------------------------- canonical strings
def rs(q):
    """rational -> the driver's text"""
    q = F(q)
    return str(q.numerator) if q.denominator == 1 else '%d/%d' % (q.numerator, q.denominator)


def bs(x, lower):
    if x is None or x == float('inf') or x == float('-inf'):
        return '-inf' if lower else 'inf'
    return rs(x)


def nb(s):
    """log number -> Fraction or None(infinite)"""
    v = recsolver.num(s)
    if v is None:
        raise ValueError('nan in log')
    if isinstance(v, float):
        return None
    return v


def lin_s(d):
    return ','.join('%s*%d' % (rs(nb(c)), v) for c, v in zip(d['c'], d['v']))


def quad_s(d):
    return ','.join('%s*%d*%d' % (rs(nb(c)), v, w) for c, v, w in zip(d['c'], d['v1'], d['v2']))


def alg_s(tn, d):
    """canonical string of an algebraic constraint event data"""
    body = d['body']
    lb, ub = nb(d['lb']), nb(d['ub'])
    kind = tn[-2:] if tn[-5:] != 'Range' else 'Range'
    isq = 'quad' in body
    head = ('QuadCon' if isq else 'LinCon') + kind
    terms = (lin_s(body['lin']) + ' ' + quad_s(body['quad'])) if isq else lin_s(body)
    if kind == 'Range':
        return '%s %s %s %s' % (head, terms, bs(lb, True), bs(ub, False))
    rhs = ub if kind == 'LE' else lb
    return '%s %s %s' % (head, terms, rs(rhs))


FUNNAMES = {'AbsConstraint': 'Abs', 'MinConstraint': 'Min', 'MaxConstraint': 'Max', 'AndConstraint': 'And',
            'OrConstraint': 'Or', 'NotConstraint': 'Not', 'ImplicationConstraint': 'Impl', 'IfThenConstraint': 'IfThen',
            'CountConstraint': 'Count', 'AllDiffConstraint': 'AllDiff', 'DivConstraint': 'Div'}


def con_s(ev):
    """canonical string of a delivered constraint (same format as Driver.lean's conStr)"""
    tn, d = ev['type'], ev['data']
    if tn.startswith('LinCon') or tn.startswith('QuadCon'):
        return alg_s(tn, d)
    if tn.startswith('IndicatorLinCon'):
        c = d['con']
        kind = tn[-2:]
        lb, ub = nb(c['lb']), nb(c['ub'])
        rhs = ub if kind == 'LE' else lb
        return 'IndicatorLinCon%s %d %d %s %s' % (kind, d['b'], d['bv'], lin_s(c['body']), rs(rhs))
    if tn == 'LinearFunctionalConstraint':
        e = d['expr']
        return 'F %d %s Affine %s %s' % (d['res'], d['ctx'], lin_s(e['lin']), rs(nb(e['const'])))
    if tn == 'QuadraticFunctionalConstraint':
        e = d['expr']
        return 'F %d %s Quadratic %s %s %s' % (d['res'], d['ctx'], lin_s(e['lin']), quad_s(e['quad']), rs(nb(e['const'])))
    if tn.startswith('CondLinCon'):
        c = d['con']
        kind = tn[-2:]
        lb, ub = nb(c['lb']), nb(c['ub'])
        rhs = ub if kind in ('LE', 'LT') else lb
        return 'F %d %s CondLin%s %s %s' % (d['res'], d['ctx'], kind, lin_s(c['body']), rs(rhs))
    if tn in FUNNAMES:
        return 'F %d %s %s %s' % (d['res'], d['ctx'], FUNNAMES[tn], ','.join(str(a) for a in d['args']))
    if tn == 'NumberofConstConstraint':
        return 'F %d %s NumberofConst %s %s' % (d['res'], d['ctx'], rs(nb(d['params'][0])), ','.join(str(a) for a in d['args']))
    if tn == 'NumberofVarConstraint':
        return 'F %d %s NumberofVar %d %s' % (d['res'], d['ctx'], d['args'][0], ','.join(str(a) for a in d['args'][1:]))
    if tn == 'PowConstraint':
        return 'F %d %s Pow %d %s' % (d['res'], d['ctx'], d['args'][0], rs(nb(d['params'][0])))
    return 'OTHER %s %s' % (tn, json.dumps(d, sort_keys=True))


def vars_of(log):
    """[(lb, ub, isint)] from the vars events"""
    out = []
    for e in log:
        if e.get('ev') == 'vars':
            for l, u, t in zip(e['lb'], e['ub'], e['int']):
                out.append((nb(l), nb(u), int(t)))
    return out


def vi_s(v):
    return '%s:%s:%d' % (bs(v[0], True), bs(v[1], False), v[2])


def bnds_arg(vs):
    return 'B=' + ';'.join('%d:%s' % (i, vi_s(v)) for i, v in enumerate(vs))


def op_line(tn, ev, vs, opts):
    """driver op for the stored constraint `ev` of type tn"""
    g = GADGETS[tn][1]
    d = ev['data']
    parts = [g, 'n=%d' % len(vs)]
    if tn in ('LinConRange', 'QuadConRange'):
        body = d['body']
        if tn == 'LinConRange':
            parts.append('lin=' + lin_s(body))
        else:
            parts += ['lin=' + lin_s(body['lin']), 'quad=' + quad_s(body['quad'])]
        parts += ['lb=' + bs(nb(d['lb']), True), 'ub=' + bs(nb(d['ub']), False)]
    elif tn.startswith('IndicatorLinCon'):
        c = d['con']
        kind = tn[-2:]
        lb, ub = nb(c['lb']), nb(c['ub'])
        rhs = ub if kind == 'LE' else lb
        parts += ['b=%d' % d['b'], 'val=%d' % d['bv'], 'lin=' + lin_s(c['body']), 'rhs=' + rs(rhs)]
    elif tn == 'LinearFunctionalConstraint':
        e = d['expr']
        parts += ['res=%d' % d['res'], 'ctx=' + d['ctx'], 'lin=' + lin_s(e['lin']), 'c=' + rs(nb(e['const']))]
    elif tn == 'QuadraticFunctionalConstraint':
        e = d['expr']
        parts += ['res=%d' % d['res'], 'ctx=' + d['ctx'], 'lin=' + lin_s(e['lin']), 'quad=' + quad_s(e['quad']),
                  'c=' + rs(nb(e['const']))]
    elif tn.startswith('CondLinCon'):
        c = d['con']
        kind = tn[-2:]
        lb, ub = nb(c['lb']), nb(c['ub'])
        rhs = ub if kind in ('LE', 'LT') else lb
        parts += ['res=%d' % d['res'], 'ctx=' + d['ctx'], 'kind=' + kind, 'lin=' + lin_s(c['body']), 'rhs=' + rs(rhs)]
    else:
        parts += ['res=%d' % d['res'], 'ctx=' + d['ctx'], 'args=' + ','.join(str(a) for a in d['args'])]
        if tn == 'NumberofConstConstraint':
            parts.append('k=' + rs(nb(d['params'][0])))
    if 'eps' in opts:
        parts.append('eps=' + rs(opts['eps']))
    if 'bigM' in opts:
        parts.append('bigM=' + rs(opts['bigM']))
    parts.append(bnds_arg(vs))
    return ' '.join(parts)


def parse_model_out(line):
    """driver line -> dict(kind, vars[str], cons[str], narrow[(v, str)])"""
    if line.startswith('refusal '):
        return {'kind': 'refusal', 'what': line.split(' ', 1)[1]}
    if line == 'unmodelled':
        return {'kind': 'unmodelled'}
    if not line.startswith('ok |V|') or '|C|' not in line or '|N|' not in line:
        return {'kind': 'bad', 'line': line}
    rest = line[len('ok |V|'):]
    vpart, rest = rest.split('|C|', 1)
    cpart, npart = rest.split('|N|', 1)
    vs = [v for v in vpart.strip().split(';') if v]
    cs = [c.strip() for c in cpart.split(' ; ') if c.strip()]
    ns = []
    for t in npart.strip().split(';'):
        if t:
            v, r = t.split(':', 1)
            ns.append((int(v), r))
    return {'kind': 'ok', 'vars': vs, 'cons': cs, 'narrow': ns}


class Driver:
    """persistent drv_c01 process"""

    def __init__(self, exe):
        self.p = subprocess.Popen([exe], stdin=subprocess.PIPE, stdout=subprocess.PIPE, text=True, bufsize=1)

    def ask(self, line):
        self.p.stdin.write(line + '\n')
        self.p.stdin.flush()
        return self.p.stdout.readline().rstrip('\n')

    def close(self):
        try:
            self.p.stdin.close()
            self.p.wait(timeout=10)
        except Exception:
            self.p.kill()


# ----------------------------------------------------------------------------- generator
def rand_bounds(rng, kind):
    """kind: 'bin' | 'int' | 'cont' | 'any'"""
    if kind == 'any':
        kind = rng.choice(['bin', 'int', 'int', 'cont', 'cont'])
    if kind == 'bin':
        return (0, 1, True)
    if kind == 'int':
        lo = rng.rint(-4, 3)
        hi = lo + rng.rint(1, 6)
        return (lo, hi, True)
    lo = F(rng.rint(-16, 12), rng.choice([1, 1, 2, 4]))
    hi = lo + F(rng.rint(1, 24), rng.choice([1, 1, 2, 4]))
    return (lo, hi, False)


def lin_expr(rng, vs):
    """random linear expression over variable indices vs as nl expression tree, 1..3 terms"""
    k = rng.rint(1, min(3, len(vs)))
    idx = list(vs)
    terms = []
    for _ in range(k):
        j = idx.pop(rng.below(len(idx)))
        c = F(rng.choice([1, 1, -1, 2, -2, 4, 1, -4, 8]), rng.choice([1, 1, 1, 2]))   # powers of two: rhs/coef stays exact in doubles
        terms.append(('*', ('n', c), ('v', j)) if c != 1 else ('v', j))
    e = terms[0]
    for t in terms[1:]:
        e = ('+', e, t)
    return e


def embed_numeric(rng, m, E, y):
    """put numeric expression E into a constraint/objective so that it gets pos/neg/mix context"""
    c = F(rng.rint(-6, 10), rng.choice([1, 1, 2]))
    how = rng.below(7)
    sgn = rng.choice([1, 1, -1])
    nl = E if sgn == 1 else ('neg', E)
    if how == 0:
        m.con(None, c, lin={y: 1}, nl=nl)
    elif how == 1:
        m.con(c, None, lin={y: 1}, nl=nl)
    elif how == 2:
        m.con(c, c + rng.rint(1, 5), lin={y: 1}, nl=nl)
    elif how == 3:
        m.con(c, c, lin={y: 1}, nl=nl)
    elif how == 4:
        m.obj(rng.choice(['min', 'max']), lin={y: 1}, nl=nl)
        m.con(None, c, lin={y: 1})
    elif how == 5:
        m.lcon((rng.choice(['le', 'ge', 'lt', 'gt', 'eq']), ('+', ('v', y), nl), ('n', c)))
    else:
        m.con(None, c, nl=('if', (rng.choice(['le', 'ge']), nl, ('n', c)), ('v', y), ('n', 1)))
    return how


def embed_logical(rng, m, L, b):
    """put logical expression L at the root / under not / in an implication / iff / if-condition"""
    how = rng.below(9)
    if how == 0:
        m.lcon(L)
    elif how == 1:
        m.lcon(('not', L))
    elif how == 2:
        m.lcon(('or', L, ('eq', ('v', b), ('n', 1))))
    elif how == 3:
        m.lcon(('implies', ('eq', ('v', b), ('n', 1)), L, ('T',)))
    elif how == 4:
        m.lcon(('implies', L, ('eq', ('v', b), ('n', 1)), ('T',)))
    elif how == 5:
        m.lcon(('iff', L, ('eq', ('v', b), ('n', 1))))
    elif how == 6:
        m.con(None, 1, lin={b: 1}, nl=('if', L, ('n', 1), ('n', 0)))
    elif how == 7:
        m.con(1, None, lin={b: 1}, nl=('if', L, ('n', 1), ('n', 0)))
    else:
        m.con(1, 1, lin={b: 1}, nl=('if', L, ('n', 1), ('n', 0)))
    return how


def gen_case(rng, family):
    """a single-expression model of the given family; returns (Model, options dict)"""
    m = Model()
    opts = {}
    if family == 'abs':
        bx = rand_bounds(rng, 'any')
        if rng.chance(4, 5):          # zero-crossing argument: otherwise abs is preprocessed away and no gadget arm is exercised
            w = rng.rint(1, 5)
            isint = rng.chance(1, 2)
            bx = (-rng.rint(1, 4), w, isint)
        x = m.var(*bx)
        y = m.var(*rand_bounds(rng, 'cont'))
        embed_numeric(rng, m, ('abs', ('v', x)), y)
    elif family in ('min', 'max'):
        k = rng.rint(2, 4)
        xs = [m.var(*rand_bounds(rng, 'any')) for _ in range(k)]
        y = m.var(*rand_bounds(rng, 'cont'))
        embed_numeric(rng, m, (family, [('v', x) for x in xs]), y)
    elif family in ('and', 'or'):
        k = rng.rint(2, 4)
        bsv = [m.var(0, 1, True) for _ in range(k)]
        b = m.var(0, 1, True)
        L = ('forall' if family == 'and' else 'exists', [('eq', ('v', x), ('n', 1)) for x in bsv])
        if rng.chance(1, 3) and k == 2:
            L = (family, ('eq', ('v', bsv[0]), ('n', 1)), ('eq', ('v', bsv[1]), ('n', 1)))
        embed_logical(rng, m, L, b)
    elif family == 'not':
        a = m.var(0, 1, True)
        a2 = m.var(0, 1, True)
        b = m.var(0, 1, True)
        L = ('not', ('and', ('eq', ('v', a), ('n', 1)), ('eq', ('v', a2), ('n', 1))))
        embed_logical(rng, m, L, b)
    elif family == 'ifthen':
        c = m.var(0, 1, True)
        y = m.var(*rand_bounds(rng, 'cont'))
        if rng.chance(1, 3):
            t, e = ('n', F(rng.rint(-5, 5))), ('n', F(rng.rint(-5, 5), 2))
        else:
            t = ('v', m.var(*rand_bounds(rng, 'any')))
            e = ('v', m.var(*rand_bounds(rng, 'any'))) if rng.chance(2, 3) else ('n', F(rng.rint(-3, 3)))
        embed_numeric(rng, m, ('if', ('eq', ('v', c), ('n', 1)), t, e), y)
    elif family == 'impl':
        c, t, e, b = [m.var(0, 1, True) for _ in range(4)]
        L = ('implies', ('eq', ('v', c), ('n', 1)), ('eq', ('v', t), ('n', 1)),
             ('eq', ('v', e), ('n', 1)) if rng.chance(7, 8) else ('T',))
        embed_logical(rng, m, L, b)
    elif family == 'cond':
        k = rng.rint(1, 3)
        allint = rng.chance(1, 2)
        xs = [m.var(*rand_bounds(rng, 'int' if allint else 'any')) for _ in range(k)]
        b = m.var(0, 1, True)
        rel = rng.choice(['lt', 'le', 'eq', 'ge', 'gt', 'ne'])
        rhs = F(rng.rint(-6, 8), rng.choice([1, 1, 1, 2]))
        L = (rel, lin_expr(rng, xs), ('n', rhs))
        embed_logical(rng, m, L, b)
        if rng.chance(1, 4):
            opts['eps'] = F(1, rng.choice([2, 8, 1024]))
    elif family == 'ind':
        # implication b ==> linear comparison gives an indicator; bounds decide the big-M
        k = rng.rint(1, 3)
        xs = [m.var(*rand_bounds(rng, 'any')) for _ in range(k)]
        if rng.chance(1, 4):
            j = rng.below(k)
            m.vars[xs[j]]['ub' if rng.chance(1, 2) else 'lb'] = None
            if rng.chance(1, 2):
                opts['bigM'] = F(rng.choice([100, 1000, 64]))
        b = m.var(0, 1, True)
        rel = rng.choice(['le', 'eq', 'ge'])
        rhs = F(rng.rint(-6, 8), rng.choice([1, 1, 2]))
        cond = ('eq', ('v', b), ('n', rng.choice([0, 1, 1])))
        m.lcon(('implies', cond, (rel, lin_expr(rng, xs), ('n', rhs)), ('T',)))
        # conditional comparisons are rewritten in both runs, so that indicator constraints arise
        opts['base'] = ['acc:condlineq=0', 'acc:condlinle=0', 'acc:condlinge=0', 'acc:condlinlt=0', 'acc:condlingt=0']
    elif family == 'count':
        k = rng.rint(2, 4)
        xs = [m.var(*rand_bounds(rng, rng.choice(['bin', 'bin', 'int']))) for _ in range(k)]
        y = m.var(*rand_bounds(rng, 'cont'))
        embed_numeric(rng, m, ('count', [('ne', ('v', x), ('n', 0)) if not (m.vars[x]['lb'] == 0 and m.vars[x]['ub'] == 1)
                                         else ('eq', ('v', x), ('n', 1)) for x in xs]), y)
    elif family == 'numberof':
        k = rng.rint(2, 4)
        if rng.chance(1, 2):
            xs = [m.var(*rand_bounds(rng, 'int')) for _ in range(k)]
            ref = ('n', F(rng.rint(-2, 4)))
        else:
            # variable reference value: overlapping domains, so that `a_i == ref` is undecided and gets a fresh reified comparison
            lo = rng.rint(-3, 2)
            xs = [m.var(lo - rng.rint(0, 1), lo + rng.rint(1, 4), True) for _ in range(k)]
            ref = ('v', m.var(lo - 1, lo + rng.rint(2, 4), True))
        y = m.var(*rand_bounds(rng, 'cont'))
        embed_numeric(rng, m, ('numberof', ref, [('v', x) for x in xs]), y)
    elif family == 'range':
        k = rng.rint(1, 3)
        xs = [m.var(*rand_bounds(rng, 'any')) for _ in range(k)]
        lo = F(rng.rint(-6, 6), rng.choice([1, 2]))
        pat = rng.below(5)
        lb, ub = [(lo, lo + rng.rint(1, 6)), (lo, None), (None, lo), (lo, lo), (lo, lo + 1)][pat]
        lin = {x: F(rng.choice([1, -1, 2, 3, -2, 5]), rng.choice([1, 1, 2])) for x in xs}
        if rng.chance(1, 3) and k >= 2:
            m.con(lb, ub, lin=lin, nl=('*', ('v', xs[0]), ('v', xs[1])))
        else:
            m.con(lb, ub, lin=lin)
    elif family == 'lfc':
        # a linear expression as argument of abs/max forces a LinearFunctionalConstraint
        k = rng.rint(2, 3)
        xs = [m.var(*rand_bounds(rng, 'any')) for _ in range(k)]
        y = m.var(*rand_bounds(rng, 'cont'))
        E = ('max', [('+', lin_expr(rng, xs), ('n', F(rng.rint(-3, 3), rng.choice([1, 2])))), ('v', y)])
        embed_numeric(rng, m, E, y)
    elif family == 'qfc':
        xs = [m.var(*rand_bounds(rng, 'any')) for _ in range(2)]
        y = m.var(*rand_bounds(rng, 'cont'))
        E = ('max', [('+', ('*', ('v', xs[0]), ('v', xs[1])), lin_expr(rng, xs)), ('v', y)])
        embed_numeric(rng, m, E, y)
    elif family == 'div':
        x = m.var(*rand_bounds(rng, 'any'))
        y = m.var(*rand_bounds(rng, 'cont'))
        d = F(rng.choice([2, 4, -2, 8, -4, 16]))
        # a division by a constant is folded by the flattener; keep the DivConstraint by a fixed variable
        z = m.var(d, d, False)
        embed_numeric(rng, m, ('/', ('v', x), ('v', z)), y)
    else:
        raise ValueError(family)
    if 'eps' not in opts:     # the default 1e-4 is not a dyadic rational: always give an exact one
        opts['eps'] = F(1, 8192)
    return m, opts


FAMILIES = ['abs', 'min', 'max', 'and', 'or', 'not', 'ifthen', 'impl', 'cond', 'cond', 'ind', 'ind', 'count',
            'numberof', 'range', 'lfc', 'qfc', 'div', 'abs', 'numberof']


def cvt_options(opts):
    o = list(opts.get('base', []))
    if 'eps' in opts:
        o.append('cvt:cmp:eps=%r' % float(opts['eps']))
    if 'bigM' in opts:
        o.append('cvt:bigM=%r' % float(opts['bigM']))
    return o


def refusal_seen(r):
    """map a failed run to a refusal class"""
    t = (r['err'] or '') + (r['out'] or '') + (r.get('sol') or '')   # with -AMPL the diagnostic is the .sol message (code 500)
    if 'cvt:bigM' in t or 'IndicatorInfBound' in t or 'Set bounds on variables' in t:
        return 'IndicatorInfBound'
    if 'context not implemented' in t or 'context\nnot implemented' in t:
        return 'CtxNotImplemented'
    if 'unbounded variables not implemented' in t:
        return 'Unbounded'
    if 'Asked to complement variable' in t:
        return 'ComplementBounds'
    if 'non-integer variables not implemented' in t:
        return 'NonInteger'
    return None


def is_map_phase(ev, vs):
    """CondLinConEQ `var == const` on an integer variable with a small finite domain: converted by
    MIPFlatConverter::ConvertMaps whatever the acceptance (IfMightUseEqualityEncodingForVar)"""
    if ev['type'] != 'CondLinConEQ':
        return False
    body = ev['data']['con']['body']
    if len(body['v']) != 1:
        return False
    lb, ub, ty = vs[body['v'][0]]
    return bool(ty) and lb is not None and ub is not None and ub - lb <= 10000000


def shift_con(s, p, m):
    """rename variable ids >= p to id + m in a canonical constraint string"""
    if m == 0:
        return s
    import re

    def sh(i):
        i = int(i)
        return str(i + m if i >= p else i)
    toks = s.split(' ')
    out = []
    head = toks[0]
    for k, t in enumerate(toks):
        if '*' in t:       # term lists c*v or c*v*w
            parts = []
            for term in t.split(','):
                f = term.split('*')
                parts.append('*'.join([f[0]] + [sh(v) for v in f[1:]]))
            out.append(','.join(parts))
        elif head == 'F' and k == 1:
            out.append(sh(t))
        elif head.startswith('IndicatorLinCon') and k == 1:
            out.append(sh(t))
        elif head == 'F' and k == 4 and toks[3] in ('Abs', 'Min', 'Max', 'And', 'Or', 'Not', 'Impl', 'IfThen', 'Count', 'AllDiff', 'Div'):
            out.append(','.join(sh(v) for v in t.split(',')))
        elif head == 'F' and toks[3] == 'NumberofConst' and k == 5:
            out.append(','.join(sh(v) for v in t.split(',')))
        elif head == 'F' and toks[3] == 'NumberofVar' and k in (4, 5):
            out.append(','.join(sh(v) for v in t.split(',')))
        elif head == 'F' and toks[3] == 'Pow' and k == 4:
            out.append(sh(t))
        else:
            out.append(t)
    return ' '.join(out)


MODEL_ARMS = {}


def apply_model(drv, tn, mine, vs_before, p, opts):
    """apply the Lean gadget to each stored constraint in `mine`, new variables numbered from p.
    returns (status, vars_added[list of tuples], cons[list str], ops, narrow)"""
    vs_model = list(vs_before[:p])
    added = []
    cons = []
    ops = []
    narrow = []
    for e in mine:
        line = op_line(tn, e, vs_model, opts)
        # the bounds of *all* variables of run A are visible to the step (ids >= p are never referenced by it)
        ops.append(line)
        mo = parse_model_out(drv.ask(line))
        # which arm of the Lean gadget function answered (model-branch coverage of the correspondence stream)
        t0 = line.split(' ')
        gname = t0[0] + (':' + [x for x in t0 if x.startswith('kind=')][0][5:] if t0[0] == 'condlin' else '')
        cx = [x for x in t0 if x.startswith('ctx=')]
        shape = mo['kind'] if mo['kind'] != 'ok' else 'aux%d/rows%d%s' % (len(mo['vars']), len(mo['cons']), '/narrow' if mo['narrow'] else '')
        if mo['kind'] == 'refusal':
            shape = 'refusal:' + mo['what']
        akey = '%s %s %s' % (gname, cx[0][4:] if cx else '-', shape)
        MODEL_ARMS[akey] = MODEL_ARMS.get(akey, 0) + 1
        if mo['kind'] == 'unmodelled':
            return 'unmodelled', added, cons, ops, narrow
        if mo['kind'] == 'refusal':
            return 'refusal:' + mo['what'], added, cons, ops, narrow
        if mo['kind'] != 'ok':
            return 'bad-op', added, cons, ops, narrow
        for v in mo['vars']:
            l, u, t = v.split(':')
            tup = (None if l == '-inf' else F(l), None if u == 'inf' else F(u), int(t))
            vs_model.append(tup)
            added.append(tup)
        narrow += mo['narrow']
        cons += mo['cons']
    return 'ok', added, cons, ops, narrow


def narrowed(vs, narrow):
    vs = list(vs)
    for v, r in narrow:
        l, u, t = r.split(':')
        old = vs[v]
        nl = old[0] if l == '-inf' else (F(l) if old[0] is None else max(old[0], F(l)))
        nu = old[1] if u == 'inf' else (F(u) if old[1] is None else min(old[1], F(u)))
        vs[v] = (nl, nu, old[2])
    return vs


def multiset_sub(a, b):
    """a ⊆ b as multisets of strings"""
    from collections import Counter
    ca, cb = Counter(a), Counter(b)
    return all(cb[k] >= n for k, n in ca.items())


SUBSET_TYPES = ('NumberofConstConstraint', 'CountConstraint')   # their var==const pieces are converted again in ConvertMaps


CTX_RULE_TYPES = {'NotConstraint': 'Not', 'AndConstraint': 'And', 'OrConstraint': 'Or', 'ImplicationConstraint': 'Impl',
                  'IfThenConstraint': 'IfThen', 'LinearFunctionalConstraint': 'Affine',
                  'AbsConstraint': 'Default', 'MinConstraint': 'Default', 'MaxConstraint': 'Default', 'CountConstraint': 'Default',
                  'DivConstraint': 'Default', 'NumberofConstConstraint': 'Default', 'NumberofVarConstraint': 'Default'}
HASDIR = {'none': set(), 'pos': {'p'}, 'neg': {'n'}, 'mix': {'p', 'n'}}


def check_ctx_rules(drv, consA, vsA, stats, case_id):
    """every stored functional constraint with context c must have handed its arguments at least the contexts the
    Lean rule prop<Type> assigns: the context stored on the constraint defining an argument includes it"""
    bad = []
    defctx = {}
    for e in consA:
        d = e['data']
        if isinstance(d, dict) and 'res' in d and 'ctx' in d and d['res'] >= 0:
            defctx[d['res']] = d['ctx']
    for e in consA:
        tn, d = e['type'], e['data']
        op = None
        if tn in CTX_RULE_TYPES:
            ty = CTX_RULE_TYPES[tn]
            if ty == 'Affine':
                op = 'propfun type=Affine ctx=%s lin=%s' % (d['ctx'], lin_s(d['expr']['lin']))
            else:
                op = 'propfun type=%s ctx=%s args=%s' % (ty, d['ctx'], ','.join(str(a) for a in d['args']))
        elif tn.startswith('CondLinCon'):
            op = 'propfun type=CondLin kind=%s ctx=%s lin=%s' % (tn[-2:], d['ctx'], lin_s(d['con']['body']))
        if op is None or d.get('ctx') == 'none':
            continue
        ans = drv.ask(op + ' ' + bnds_arg(vsA))
        if not ans.startswith('ctx'):
            bad.append({'type': tn, 'why': 'driver bad-op on ' + op, 'case': case_id, 'ops': [op], 'ctx_rule': True})
            continue
        for t in ans.split(' ')[1:]:
            v, c = t.split(':')
            v = int(v)
            if v in defctx:
                stats['ctx_edges'] = stats.get('ctx_edges', 0) + 1
                if not HASDIR[c] <= HASDIR[defctx[v]]:
                    bad.append({'type': tn, 'case': case_id, 'ops': [op], 'ctx_rule': True,
                                'why': 'context propagation: %s with context %s must hand %s to variable %d, but its defining constraint carries only %s'
                                       % (tn, d['ctx'], c, v, defctx[v])})
    return bad


def check_case(ck, exe, drv, stub, m, opts, stats, case_id):
    """runs A/B for every gadget type present in the model; returns list of disagreement dicts"""
    m.write(stub)
    n_orig = len(m.vars)
    base_opts = cvt_options(opts)
    ra = recsolver.run(exe, stub, options=base_opts, accept=BASE_ACCEPT)
    stats['runs'] += 1
    if ra['rc'] != 0 or not any(e.get('ev') == 'end' for e in ra['log']):
        stats['runA_failed'] += 1
        return []
    vsA = vars_of(ra['log'])
    consA = [e for e in ra['log'] if e.get('ev') == 'con']
    present = []
    for e in consA:
        if e['type'] in GADGETS and e['type'] not in present:
            present.append(e['type'])
    bad = check_ctx_rules(drv, consA, vsA, stats, case_id)
    for tn in present:
        accopt, g = GADGETS[tn]
        rb = recsolver.run(exe, stub, options=base_opts + [accopt + '=0'], accept=BASE_ACCEPT)
        stats['runs'] += 1
        mine_all = [e for e in consA if e['type'] == tn]
        mine_mp = [e for e in mine_all if is_map_phase(e, vsA)]
        mine = [e for e in mine_all if not is_map_phase(e, vsA)]
        rest = [con_s(e) for e in consA if e['type'] != tn]
        ctxs = sorted({e['data'].get('ctx', '-') for e in mine_all})
        key = '%s/%s' % (g if g != 'condlin' else tn, '+'.join(ctxs))
        stats['hit'][key] = stats['hit'].get(key, 0) + 1
        delivered_ok = rb['rc'] == 0 and any(e.get('ev') == 'end' for e in rb['log'])
        # ---- map-phase constraints: converted in run A as well; the model's output must already be there
        if mine_mp:
            byvar = {}
            for e in mine_mp:
                if e['data']['ctx'] in ('neg', 'mix'):
                    v = e['data']['con']['body']['v'][0]
                    byvar[v] = byvar.get(v, 0) + 1
            if any(c > 1 for c in byvar.values()):
                stats['unmodelled']['CondLinConEQ(unary-encoding)'] = stats['unmodelled'].get('CondLinConEQ(unary-encoding)', 0) + 1
                continue
            st, added, cons, ops, narrow = apply_model(drv, tn, mine_mp, vsA, len(vsA), opts)
            if st == 'ok':
                # auxiliary ids are unknown (created somewhere in run A): compare with ids wiped
                import re
                wipe = lambda s: re.sub(r'\*(\d+)', lambda mm: '*%s' % (mm.group(1) if int(mm.group(1)) < n_orig else 'a'), re.sub(r'^(IndicatorLinCon.. )(\d+)', lambda mm: mm.group(1) + (mm.group(2) if int(mm.group(2)) < n_orig else 'a'), s))
                stats['compared'] += 1
                if not multiset_sub([wipe(c) for c in cons], [wipe(c) for c in rest]):
                    bad.append({'type': tn, 'why': 'map-phase conversion of var==const differs from the Lean gadget', 'ops': ops,
                                'case': case_id, 'only_model': [c for c in cons], 'only_impl': rest[:12]})
            elif st == 'bad-op':
                bad.append({'type': tn, 'why': 'driver bad-op', 'ops': ops, 'case': case_id})
        if not mine:
            if delivered_ok:
                consB = sorted(con_s(e) for e in rb['log'] if e.get('ev') == 'con')
                if consB != sorted(rest):
                    bad.append({'type': tn, 'why': 'map-phase only: run B differs from run A minus the type', 'ops': [], 'case': case_id,
                                'only_impl': [c for c in consB if c not in rest][:8], 'only_model': [c for c in rest if c not in consB][:8]})
            continue
        # ---- regular constraints
        result = None
        tried = []
        for p in range(len(vsA), n_orig - 1, -1):
            st, added, cons, ops, narrow = apply_model(drv, tn, mine, vsA, p, opts)
            if st != 'ok':
                result = (st, ops)
                break
            mshift = len(added)
            cons_model = [shift_con(c, p, mshift) for c in rest] + cons
            vs_model = narrowed(vsA[:p] + added + vsA[p:], narrow)
            if not delivered_ok:
                result = ('impl-failed', ops)
                break
            vsB = vars_of(rb['log'])
            consB = sorted(con_s(e) for e in rb['log'] if e.get('ev') == 'con')
            if tn in SUBSET_TYPES:
                cm = [c.replace(' none CondLinEQ ', ' mix CondLinEQ ') if is_map_phase_str(c, vs_model) else c for c in cons_model]
                okc = multiset_sub(cm, consB) and [vi_s(v) for v in vsB[:len(vs_model)]] == [vi_s(v) for v in vs_model]
                stats['subset_compares'] = stats.get('subset_compares', 0) + 1
            else:
                okc = [vi_s(v) for v in vsB] == [vi_s(v) for v in vs_model] and consB == sorted(cons_model)
            tried.append((p, cons_model, vs_model))
            if okc:
                result = ('match', ops)
                if p != len(vsA):
                    stats['shifted'] = stats.get('shifted', 0) + 1
                break
            if tn in SUBSET_TYPES:
                break
        st, ops = result if result else ('mismatch', ops)
        if st == 'unmodelled':
            stats['unmodelled'][tn] = stats['unmodelled'].get(tn, 0) + 1
            continue
        if st == 'bad-op':
            bad.append({'type': tn, 'why': 'driver bad-op', 'ops': ops, 'case': case_id})
            continue
        if st.startswith('refusal:'):
            want = st.split(':', 1)[1]
            got = None if delivered_ok else refusal_seen(rb)
            stats['refusals'] += 1
            if got != want:
                bad.append({'type': tn, 'why': 'model refuses (%s), implementation %s' % (want, 'delivered a model' if delivered_ok else 'failed with: ' + (rb['err'] or rb['out'])[-300:]),
                            'ops': ops, 'case': case_id, 'refusal_mismatch': True, 'delivered': delivered_ok})
            continue
        if st == 'impl-failed':
            got = refusal_seen(rb)
            bad.append({'type': tn, 'why': 'implementation refused/failed (%s) but the model converts' % (got or (rb['err'] or rb['out'])[-300:]),
                        'ops': ops, 'case': case_id})
            continue
        stats['compared'] += 1
        stats['lines'] += len(consB)
        if st != 'match':
            p, cons_model, vs_model = tried[0]
            from collections import Counter
            cb, cm = Counter(consB), Counter(cons_model)
            bad.append({'type': tn, 'why': 'delivered model differs from the Lean gadget', 'ops': ops, 'case': case_id,
                        'only_impl': sorted((cb - cm).elements())[:8], 'only_model': sorted((cm - cb).elements())[:8],
                        'vars_impl': [vi_s(v) for v in vsB], 'vars_model': [vi_s(v) for v in vs_model]})
    return bad


def is_map_phase_str(c, vs):
    t = c.split(' ')
    if len(t) >= 6 and t[0] == 'F' and t[3] == 'CondLinEQ' and ',' not in t[4]:
        v = int(t[4].split('*')[1])
        if v < len(vs):
            lb, ub, ty = vs[v]
            return bool(ty) and lb is not None and ub is not None
    return False


# ----------------------------------------------------------------------------- context propagation (A0)
def compile_delivered(cons):
    """pre-decode delivered algebraic/indicator constraints: list of (b, bv, lin, quad, lb, ub) or None if not evaluable"""
    out = []
    for e in cons:
        tn, d = e['type'], e['data']
        b = bv = None
        if tn.startswith('Indicator'):
            b, bv = d['b'], d['bv']
            d = d['con']
        elif not (tn.startswith('LinCon') or tn.startswith('QuadCon')):
            return None
        body = d['body']
        l = body['lin'] if 'quad' in body else body
        q = body['quad'] if 'quad' in body else {'c': [], 'v1': [], 'v2': []}
        out.append((b, bv, [(nb(c), v) for c, v in zip(l['c'], l['v'])],
                    [(nb(c), v, w) for c, v, w in zip(q['c'], q['v1'], q['v2'])], nb(d['lb']), nb(d['ub'])))
    return out


def eval_compiled(cc, x):
    for b, bv, l, q, lb, ub in cc:
        if b is not None and x[b] != bv:
            continue
        v = sum(c * x[j] for c, j in l) + sum(c * x[j] * x[k] for c, j, k in q)
        if (lb is not None and v < lb) or (ub is not None and v > ub):
            return False
    return True


def eval_delivered(cons, x):
    """exact evaluation of delivered algebraic/indicator constraints at point x (list of Fractions)"""
    def lin(d):
        return sum((nb(c) * x[v] for c, v in zip(d['c'], d['v'])), F(0))

    def quad(d):
        return sum((nb(c) * x[v] * x[w] for c, v, w in zip(d['c'], d['v1'], d['v2'])), F(0))

    def body(b):
        return lin(b['lin']) + quad(b['quad']) if 'quad' in b else lin(b)

    def inrange(d):
        v = body(d['body'])
        lb, ub = nb(d['lb']), nb(d['ub'])
        return (lb is None or lb <= v) and (ub is None or v <= ub)
    for e in cons:
        tn, d = e['type'], e['data']
        if tn.startswith('LinCon') or tn.startswith('QuadCon'):
            if not inrange(d):
                return False
        elif tn.startswith('Indicator'):
            if x[d['b']] == d['bv'] and not inrange(d['con']):
                return False
        else:
            return None      # not evaluable here
    return True


def ctx_cases(ck, exe, drv, wd, stats):
    """propagation through quadratic terms: compares the context the real code stores on abs(z) inside
    c*(x*abs(z)) with the Lean rule `propQuad` (as coded) and searches a small grid for points that are
    feasible for the delivered model (abs linearised, acc:abs=0) but violate the original constraint.
    returns (disagreements, findings)"""
    dis, findings = [], []
    patterns = [(0, 5), (1, 4), (-5, 0), (-4, -1), (-2, 3)]
    n = 0
    for (xl, xu) in patterns:
        for coef in (1, -1, 2, -3):
            for sense in ('ge', 'le'):
                n += 1
                m = Model()
                x = m.var(xl, xu)
                z = m.var(-3, 3)
                rhs = F(-4 if coef < 0 else 4) if sense == 'ge' else F(6 if coef > 0 else -6)
                nl = ('*', ('n', F(coef)), ('*', ('v', x), ('abs', ('v', z))))
                if coef == -1:
                    nl = ('neg', ('*', ('v', x), ('abs', ('v', z))))
                m.con(rhs if sense == 'ge' else None, rhs if sense == 'le' else None, nl=nl)
                stub = os.path.join(wd, 'q%d' % (n % 4))
                m.write(stub)
                acc = ['LinConRange', 'LinConLE', 'LinConEQ', 'LinConGE', 'QuadConRange', 'QuadConLE', 'QuadConEQ', 'QuadConGE',
                       'IndicatorLinConLE', 'IndicatorLinConEQ', 'IndicatorLinConGE']
                ra = recsolver.run(exe, stub, accept=acc + ['AbsConstraint'])
                rb = recsolver.run(exe, stub, options=['acc:abs=0'], accept=acc)
                stats['runs'] += 2
                if ra['rc'] != 0 or rb['rc'] != 0:
                    continue
                absc = [e for e in ra['log'] if e.get('ev') == 'con' and e['type'] == 'AbsConstraint']
                qc = [e for e in ra['log'] if e.get('ev') == 'con' and e['type'].startswith('QuadCon')]
                if len(absc) != 1:
                    continue
                vsA = vars_of(ra['log'])
                seen_ctx = absc[0]['data']['ctx']
                res = absc[0]['data']['res']
                # the quadratic term as flattened from the generated expression: coef * x * res(abs)
                lbs = bs(rhs, True) if sense == 'ge' else '-inf'
                ubs = bs(rhs, False) if sense == 'le' else 'inf'
                qterm = '%s*%d*%d' % (rs(coef), m.pos[x], res)
                c0 = drv.ask('rangectx lb=%s ub=%s' % (lbs, ubs)).split(' ')[1]
                ans = drv.ask('propquad quad=%s ctx=%s %s' % (qterm, c0, bnds_arg(vsA)))
                want = dict(t.split(':') for t in ans.split(' ')[1:]).get(str(res))
                stats['ctx_cases'] = stats.get('ctx_cases', 0) + 1
                if seen_ctx != want:
                    dis.append({'type': 'PropagateResult2QuadTerms', 'case': 'quadctx#%d' % n, 'ops': [],
                                'why': 'context stored on abs() is %s, the Lean rule propQuad says %s' % (seen_ctx, want),
                                'nl': open(stub + '.nl').read(), 'options': ['acc:abs=0'], 'ctx_rule': True})
                # oracle on the real delivered model: grid over x, z; auxiliaries: v (abs result) on a grid, flag 0/1
                consB = compile_delivered([e for e in rb['log'] if e.get('ev') == 'con'])
                if consB is None:
                    continue
                vsB = vars_of(rb['log'])
                perm = m.perm
                bad_pt = None
                for xv in range(int(xl), int(xu) + 1):
                    for zv in range(-3, 4):
                        orig = [None, None]
                        orig[x] = F(xv); orig[z] = F(zv)
                        feas_orig = m.feasible(orig)
                        nlx = [orig[j] for j in perm]        # NL order
                        feas_del = False
                        auxn = len(vsB) - 2
                        grids = []
                        for k in range(2, len(vsB)):
                            lo, hi, ty = vsB[k]
                            if ty:
                                grids.append([F(t) for t in range(int(lo), int(hi) + 1)])
                            else:
                                grids.append([F(t) for t in range(int(lo), int(hi) + 1)])
                        for aux in itertools.product(*grids):
                            r = eval_compiled(consB, nlx + list(aux))
                            if r:
                                feas_del = True
                                break
                        stats['oracle_points'] = stats.get('oracle_points', 0) + 1
                        if feas_del and not feas_orig and bad_pt is None:
                            bad_pt = (xv, zv, [str(t) for t in aux])
                if bad_pt:
                    findings.append({'case': 'quadctx#%d' % n, 'coef': coef, 'sense': sense, 'xbounds': [xl, xu],
                                     'point': {'x': bad_pt[0], 'z': bad_pt[1], 'aux': bad_pt[2]},
                                     'ctx_on_abs': seen_ctx, 'ctx_model_rule': want,
                                     'nl': open(stub + '.nl').read(), 'options': ['acc:abs=0'],
                                     'accept': ','.join(acc)})
    return dis, findings


def condeq_nonint_cases(ck, exe, wd, stats):
    """cond_eq.h negative part on integer bodies with a fractional right-hand side (only reachable with
    cvt:pre:eqresult=0): exact grid oracle on the delivered model. returns findings"""
    findings = []
    acc = ['LinConRange', 'LinConLE', 'LinConEQ', 'LinConGE', 'IndicatorLinConLE', 'IndicatorLinConEQ', 'IndicatorLinConGE']
    k = 0
    for rhs in (F(3, 2), F(1, 2), F(2), F(-1, 2)):
        for form in ('iff', 'notimp', 'scaled'):
            for opts in (['cvt:pre:eqresult=0'], []):
                k += 1
                m = Model()
                x = m.var(-1, 2, True)
                b = m.var(0, 1, True)
                y = m.var(0, 2, True)
                eq = ('eq', ('+', ('v', x), ('v', y)), ('n', rhs))
                if form == 'scaled':
                    # 2*x == 2*rhs: integer coefficients and right-hand side, so the preprocessing does not fix the
                    # result; the coefficient is then normalised to 1 and the right-hand side becomes fractional
                    eq = ('eq', ('*', ('n', 2), ('v', x)), ('n', 2 * rhs))
                    m.lcon(('or', ('eq', ('v', b), ('n', 1)), ('not', eq)))
                elif form == 'iff':
                    m.lcon(('iff', ('eq', ('v', b), ('n', 1)), eq))
                else:
                    m.lcon(('or', ('eq', ('v', b), ('n', 1)), ('not', eq)))
                stub = os.path.join(wd, 'e%d' % (k % 4))
                m.write(stub)
                r = recsolver.run(exe, stub, options=opts, accept=acc)
                stats['runs'] += 1
                if r['rc'] != 0 or not any(e.get('ev') == 'end' for e in r['log']):
                    continue
                vs = vars_of(r['log'])
                cc = compile_delivered([e for e in r['log'] if e.get('ev') == 'con'])
                if cc is None or len(vs) > 12:
                    continue
                grids = [[F(t) for t in range(int(lo), int(hi) + 1)] for lo, hi, ty in vs[3:]]
                bad = None
                for xv, yv, bv in itertools.product(range(-1, 3), range(0, 3), range(2)):
                    orig = [None] * 3
                    orig[x], orig[b], orig[y] = F(xv), F(bv), F(yv)
                    fo = m.feasible(orig)
                    nlx = [orig[j] for j in m.perm]
                    fd = any(eval_compiled(cc, nlx + list(aux)) for aux in itertools.product(*grids))
                    stats['oracle_points'] = stats.get('oracle_points', 0) + 1
                    if fo != fd and bad is None:
                        bad = {'x': xv, 'y': yv, 'b': bv, 'orig_feasible': fo, 'delivered_feasible': fd}
                stats['condeq_cases'] = stats.get('condeq_cases', 0) + 1
                if bad:
                    findings.append({'kind': 'condeq', 'rhs': str(rhs), 'form': form, 'options': opts, 'point': bad,
                                     'nl': open(stub + '.nl').read(), 'accept': ','.join(acc)})
    return findings


def uenc_cases(ck, exe, drv, wd, stats, rng, ncases):
    """CreateUnaryEncoding vs the Lean `gUnaryEncFull` (rows of `gUnaryEnc`): one integer variable with several reified
    comparisons `x == k` in mixed context (so that the converter chooses the unary encoding), comparison results natively
    accepted; the two encoding rows and the fresh flag variables are compared exactly."""
    dis = []
    for i in range(ncases):
        m = Model()
        lo = rng.rint(-2, 2)
        hi = lo + rng.rint(1, 4)
        x = m.var(lo, hi, True)
        nb = rng.rint(2, min(3, hi - lo + 1))
        vals = []
        while len(vals) < nb:
            k = rng.rint(lo, hi)
            if k not in vals:
                vals.append(k)
        bsv = [m.var(0, 1, True) for _ in vals]
        for bv, k in zip(bsv, vals):
            m.lcon(('iff', ('eq', ('v', bv), ('n', 1)), ('eq', ('v', x), ('n', F(k)))))
        opts = ['cvt:cmp:eps=0.0001220703125']
        if rng.chance(1, 3):
            opts.append('cvt:uenc:negctx:max=0')
        stub = os.path.join(wd, 'ue%d' % (i % 4))
        m.write(stub)
        r = recsolver.run(exe, stub, options=opts, accept=BASE_ACCEPT)
        stats['runs'] += 1
        if r['rc'] != 0 or not any(e.get('ev') == 'end' for e in r['log']):
            continue
        vs = vars_of(r['log'])
        cons = [e for e in r['log'] if e.get('ev') == 'con']
        xv = m.pos[x]
        taken = {}
        for e in cons:
            if e['type'] == 'CondLinConEQ' and e['data']['con']['body']['v'] == [xv]:
                taken[int(nb_(e['data']['con']['lb']))] = e['data']['res']
        if len(taken) < 2:
            # binary variable: `x == 0/1` is answered by the preprocessing (the variable or its complement is reused), no encoding
            stats['uenc_skipped'] = stats.get('uenc_skipped', 0) + 1
            continue
        rows = sorted(con_s(e) for e in cons if e['type'] == 'LinConEQ')
        nfresh = (hi - lo + 1) - len(taken)
        n0 = len(vs) - nfresh
        ans = parse_model_out(drv.ask('uenc v=%d n=%d taken=%s %s' % (xv, n0, ','.join('%d:%d' % kv for kv in sorted(taken.items())), bnds_arg(vs[:n0]))))
        stats['uenc_cases'] = stats.get('uenc_cases', 0) + 1
        key = 'uenc - ' + (ans['kind'] if ans['kind'] != 'ok' else 'aux%d/rows%d' % (len(ans['vars']), len(ans['cons'])))
        MODEL_ARMS[key] = MODEL_ARMS.get(key, 0) + 1
        want_rows = sorted(ans.get('cons', []))
        want_vars = [vi_s(v) for v in vs[:n0]] + ans.get('vars', [])
        if ans['kind'] != 'ok' or rows != want_rows or [vi_s(v) for v in vs] != want_vars:
            dis.append({'type': 'UnaryEncoding', 'case': 'uenc#%d' % i, 'why': 'unary encoding rows / flag variables differ from the Lean gUnaryEncFull',
                        'ops': [], 'only_impl': [c for c in rows if c not in want_rows][:6], 'only_model': [c for c in want_rows if c not in rows][:6],
                        'nl': open(stub + '.nl').read(), 'options': opts})
    return dis


def nb_(s):
    v = nb(s)
    return v


def mulbin_cases(ck, exe, drv, wd, stats, rng, ncases):
    """LinearizeProductWithBinaryVar vs the Lean `gMulBinTerm`: c*(b*x) with a binary factor, quadratic rows and the quadratic
    functional constraint not accepted, IfThen accepted: the IfThen term (its result variable, arguments, the fixed-zero
    variable, bounds and type of the result) is compared exactly."""
    dis = []
    acc = [t for t in BASE_ACCEPT if not t.startswith('QuadCon') and t != 'QuadraticFunctionalConstraint']
    for i in range(ncases):
        m = Model()
        bvar = m.var(0, 1, True)
        xb = rand_bounds(rng, rng.choice(['int', 'cont', 'cont', 'bin']))
        xvar = m.var(*xb)
        y = m.var(*rand_bounds(rng, 'cont'))
        c = F(rng.choice([1, -1, 2, 3, -2]), rng.choice([1, 1, 2]))
        prod = ('*', ('v', bvar), ('v', xvar)) if rng.chance(1, 2) else ('*', ('v', xvar), ('v', bvar))
        nl = prod if c == 1 else ('*', ('n', c), prod)
        k0 = F(rng.rint(-4, 8))
        how = rng.below(3)
        if how == 0:
            m.con(None, k0, lin={y: 1}, nl=nl)
        elif how == 1:
            m.con(k0, None, lin={y: 1}, nl=nl)
        else:
            m.con(k0, k0 + 3, lin={y: 1}, nl=nl)
        stub = os.path.join(wd, 'mb%d' % (i % 4))
        m.write(stub)
        r = recsolver.run(exe, stub, options=['cvt:cmp:eps=0.0001220703125'], accept=acc)
        stats['runs'] += 1
        if r['rc'] != 0 or not any(e.get('ev') == 'end' for e in r['log']):
            continue
        vs = vars_of(r['log'])
        its = [e for e in r['log'] if e.get('ev') == 'con' and e['type'] == 'IfThenConstraint']
        stats['mulbin_cases'] = stats.get('mulbin_cases', 0) + 1
        if len(its) != 1:
            dis.append({'type': 'MulBinary', 'case': 'mulbin#%d' % i, 'why': '%d IfThen terms delivered for one binary product' % len(its),
                        'ops': [], 'nl': open(stub + '.nl').read(), 'options': []})
            continue
        d = its[0]['data']
        res, (b0, o0, z0) = d['res'], d['args']
        ans = parse_model_out(drv.ask('mulbin b=%d o=%d zero=%d n=%d %s' % (b0, o0, z0, res, bnds_arg(vs[:res]))))
        key = 'mulbin - ' + (ans['kind'] if ans['kind'] != 'ok' else 'aux%d/rows%d' % (len(ans['vars']), len(ans['cons'])))
        MODEL_ARMS[key] = MODEL_ARMS.get(key, 0) + 1
        okz = vs[z0][0] == 0 and vs[z0][1] == 0
        if ans['kind'] != 'ok' or ans['cons'] != [con_s(its[0])] or ans['vars'] != [vi_s(vs[res])] or not okz:
            dis.append({'type': 'MulBinary', 'case': 'mulbin#%d' % i, 'why': 'IfThen term of the binary product differs from the Lean gMulBinTerm',
                        'ops': [], 'only_impl': [con_s(its[0]), vi_s(vs[res])], 'only_model': ans.get('cons', []) + ans.get('vars', []),
                        'nl': open(stub + '.nl').read(), 'options': []})
    return dis


def report(ck, res):
    """turn the result of run_gadgets into verdicts"""
    pid = getattr(ck, 'pid_real', ck.pid)
    st = res.get('stats', {})
    ck.cov['gadget_correspondence'] = {k: v for k, v in st.items() if k not in ('hit', 'unmodelled', 'model_arms')}
    ck.cov['gadget_model_arms'] = st.get('model_arms', {})
    ck.cov['gadget_hits'] = st.get('hit', {})
    ck.cov['gadget_unmodelled_inputs'] = st.get('unmodelled', {})
    ck.cov['traces_validated_against_impl'] = st.get('compared', 0)
    ck.cov['evaluations'] = st.get('runs', 0)
    ck.cov['distinct_nontrivial'] = st.get('compared', 0)
    ck.cov['rule'] = 'one unit = one (generated model, constraint type) pair whose delivered model was compared with the Lean gadget output'
    for f in res.get('findings', []):
        if f.get('kind') == 'condeq':
            ck.add_violation('condeq-negctx:int-body-fractional-rhs',
                             'cond_eq.h negative part uses eps=1 around a fractional right-hand side (%s, options %s): integer point x=%s y=%s b=%s is %s for the NL model but %s for the delivered model'
                             % (f['rhs'], f['options'], f['point']['x'], f['point']['y'], f['point']['b'],
                                'feasible' if f['point']['orig_feasible'] else 'infeasible',
                                'feasible' if f['point']['delivered_feasible'] else 'infeasible'),
                             {'nl': f['nl'], 'options': f['options'], 'accept': f['accept'], 'point': f['point'],
                              'how': 'write the nl text to m.nl; RECSOLVER_ACCEPT=<accept> RECSOLVER_LOG=log recsolver m -AMPL <options>; evaluate the logged constraints at the point',
                              'model_theorem': 'C01_counterexample_condeq_nonint_rhs'}, found_input=True)
            continue
        ck.add_violation('quadterms-ctx:coef-sign-ignored',
                         'PropagateResult2QuadTerms ignores the coefficient sign: with %s the delivered model (abs linearised in %s context only) admits x=%s z=%s which violates the original constraint'
                         % (f['options'], f['ctx_on_abs'], f['point']['x'], f['point']['z']),
                         {'nl': f['nl'], 'options': f['options'], 'accept': f['accept'], 'point': f['point'],
                          'how': 'write the nl text to m.nl; RECSOLVER_ACCEPT=<accept> RECSOLVER_LOG=log recsolver m -AMPL acc:abs=0; evaluate the logged constraints at the point',
                          'model_theorem': 'C01_counterexample_quadterms_ctx'}, found_input=True)
    for d in res.get('disagreements', []):
        sig = 'gadget:%s:%s' % (d['type'], 'refusal' if d.get('refusal_mismatch') else ('ctx-rule' if d.get('ctx_rule') else 'differs'))
        ck.add_violation(sig, 'gadget correspondence: %s (%s)' % (d['why'], d['case']),
                         {'stream': 'c01_gadgets', 'case': d['case'], 'seed': d.get('seed'), 'ops': d.get('ops'), 'nl': d.get('nl'),
                          'options': d.get('options'), 'only_impl': d.get('only_impl'), 'only_model': d.get('only_model')},
                         found_input=False)
    rcv = res.get('refconv') or {}
    ck.cov['reference_converter_tie'] = {k: v for k, v in rcv.items() if k not in ('violations',)}
    for v in rcv.get('violations', []):
        rep = {'stream': 'c01_refconv', 'how': 'pipe the op line to lean/.lake/build/bin/drv_c01; the same model is written by '
               'checks/c01_refconv.py build() and run through recsolver with RECSOLVER_ACCEPT = NATIVE|LINEAR (flat model: FLAT)'}
        rep.update(v['replay'] or {})
        ck.add_violation(v['sig'], v['what'], rep, found_input=v['found'])
    if not res.get('proof_ok', True):
        for fdecl in res.get('failing', []):
            ck.add_violation('obligation:%s' % fdecl, 'proof obligation no longer checks: %s' % fdecl,
                             {'theorem': fdecl, 'module': 'MpVerif.C01.Props'}, found_input=False)
    ck.assumptions += [
        'numbers are exact rationals; the correspondence uses dyadic data so that double arithmetic is exact',
        'AssignResultVar2Args inside a converter is modelled for the no-shortcut/no-map-hit case; inputs on which the real code takes a preprocessing shortcut are counted as "unmodelled", not compared',
        'a zero coefficient on a variable with an infinite bound (NaN in ComputeBoundsAndType) is outside the model',
        'logical argument variables are 0/1 (asserted by the converter itself in count_fixed_01)']
    ck.cov['trusted_base'] += ['harness/recsolver (recording ModelAPI) and gen/nlgen.py (NL writer + exact evaluator)',
                               'checks/c01_gadgets.py: canonicalisation of logged constraints, run-A/run-B differential scheme']


# ----------------------------------------------------------------------------- per-run validator of C01_compose's hypotheses
# graph-export keys of the constraint types whose conversion has a proved C01_gadget_* theorem
PROVED_CONVERSIONS = {'_abs', '_min', '_max', '_and', '_or', '_not', '_ifthen', '_impl', '_count', '_numberofconst',
                      '_numberofvar', '_div', '_linfunccon', '_quadfunccon',
                      '_condlineq', '_condlinle', '_condlinlt', '_condlinge', '_condlingt',
                      '_linrange', '_quadrange', '_indle', '_indeq', '_indge', '_uenc',
                      # plain algebraic rows are never converted by a gadget
                      '_linle', '_lineq', '_linge', '_quadle', '_quadeq', '_quadge'}
_VAL_DRV = {}


def _val_driver():
    """one drv_c01 per worker process"""
    d = _VAL_DRV.get(os.getpid())
    if d is None:
        d = Driver(os.path.join(LEAN, '.lake', 'build', 'bin', 'drv_c01'))
        _VAL_DRV[os.getpid()] = d
    return d


def validate_model(exe, stub, options, n_orig, quadobj=1):
    """Decide the hypotheses WF and CtxCovers of C01_compose on the contexts the real converter recorded.
    The model at <stub>.nl is run once more with every functional type natively accepted, so that each stored
    definition is logged with its result variable, arguments and context (contexts as propagated by flattening;
    contexts added later during conversion are not visible in this run).  The decision itself is made by the
    Lean functions wfB / ctxGaps (drv_c01 validate), which are proved sound (C01_validator_*_sound).
    returns dict(status, wf, gaps[list], outside[list of reasons])"""
    opts = [o for o in options if not o.startswith('acc:')]
    r = recsolver.run(exe, stub, options=opts, accept=BASE_ACCEPT, quadobj=quadobj, timeout=60)
    if r['rc'] != 0 or not any(e.get('ev') == 'end' for e in r['log']):
        return {'status': 'no-flat-model'}
    vs = vars_of(r['log'])
    outside = []
    defs = []
    roots = []
    cons = [e for e in r['log'] if e.get('ev') == 'con']
    defined = {e['data']['res'] for e in cons if isinstance(e['data'], dict) and e['data'].get('res', -1) >= 0 and 'ctx' in e['data']}
    # variables created by conversions that run even with every type accepted (var==const in ConvertMaps): not original,
    # not a result variable, not a fixed constant.  Rows over them are conversion products of a natively delivered
    # definition (implied by it), not root constraints.
    convaux = {i for i in range(n_orig, len(vs)) if i not in defined and vs[i][0] != vs[i][1]}
    # results of reified `var == const` comparisons and the compared variables: the unary encoding rows
    # (sum of flags = 1, sum value*flag - var = 0) produced in ConvertMaps are over exactly these
    ueflags, uevars = set(), set()
    for e in cons:
        if e['type'] == 'CondLinConEQ' and len(e['data']['con']['body']['v']) == 1:
            ueflags.add(e['data']['res'])
            uevars.add(e['data']['con']['body']['v'][0])
    skipped = 0
    qroots = []
    objarg = ''
    for e in r['log']:
        if e.get('ev') == 'obj':
            # objective clause (C01_compose_objective): sense, linear and quadratic terms of objective 0;
            # the Lean validator decides ObjCovers (objGaps) on the recorded contexts
            if int(e.get('i', 0)) == 0:
                objarg = ' objsense=%s objlin=%s' % (e['sense'], lin_s(e['lin']))
                if e.get('kind') == 'quad' and e['quad']['c']:
                    objarg += ' objquad=%s' % quad_s(e['quad'])
            continue
        if e.get('ev') != 'con':
            continue
        tn, d = e['type'], e['data']
        if isinstance(d, dict) and d.get('res', -1) >= 0 and 'ctx' in d:
            if d['ctx'] == 'none':
                continue          # never used: no context was ever propagated to it (dead definition)
            cs = con_s(e)
            if cs.startswith('OTHER'):
                outside.append('unmodelled-type:' + tn)
                continue
            t = cs.split(' ')
            kind, fields = t[3], t[4:]
            if kind.startswith('CondLin'):
                kind, fields = 'CondLin', [kind[7:]] + fields
            if kind == 'Pow' and ('/' in fields[-1] or fields[-1].startswith('-')):
                outside.append('pow-non-natural-exponent')
                continue
            defs.append((int(t[1]), ';'.join([t[1], t[2], kind] + fields)))
        elif tn.startswith('LinCon'):
            body = d['body']
            if any(v in convaux for v in body['v']) or \
                    (tn == 'LinConEQ' and any(v in ueflags for v in body['v'])
                     and all(v in ueflags or v in uevars or v in convaux for v in body['v'])):
                skipped += 1
                continue
            roots.append('%s;%s;%s' % (lin_s(body), bs(nb(d['lb']), True), bs(nb(d['ub']), False)))
        elif tn.startswith('IndicatorLinCon') and (d['b'] in convaux or d['b'] in defined
                                                   or any(v in convaux for v in d['con']['body']['v'])):
            skipped += 1
        elif tn.startswith('QuadCon'):
            # quadratic root constraint: hypothesis QRootsCover of C01_compose_quadroots (decided by qrootGaps)
            body = d['body']
            if any(v in convaux for v in body['lin']['v'] + body['quad']['v1'] + body['quad']['v2']):
                skipped += 1
                continue
            qroots.append('%s;%s;%s;%s' % (lin_s(body['lin']), quad_s(body['quad']), bs(nb(d['lb']), True), bs(nb(d['ub']), False)))
        else:
            outside.append('root-type:' + tn)
    defs.sort()
    # logical results fixed true / false are root requirements on the result variable (FixAsTrue)
    for res, txt in defs:
        kind = txt.split(';')[2]
        if kind in ('And', 'Or', 'Not', 'Impl', 'CondLin', 'AllDiff') and res < len(vs):
            lb, ub, _ = vs[res]
            if lb is not None and lb >= 1:
                roots.append('1*%d;1;inf' % res)
            elif ub is not None and ub <= 0:
                roots.append('1*%d;-inf;0' % res)
    qarg = (' qroots=' + '|'.join(qroots)) if qroots else ''
    line = 'validate n0=%d defs=%s roots=%s%s%s %s' % (n_orig, '|'.join(t for _, t in defs), '|'.join(roots), objarg, qarg, bnds_arg(vs))
    ans = _val_driver().ask(line)
    if not ans.startswith('valid '):
        return {'status': 'driver-bad-op', 'line': line[:400], 'outside': outside}
    parts = ans.split(' | ')
    t = parts[0].split(' ')
    wf = t[1] == 'wf=1'
    gaps = [g for g in t[3:] if g]
    objgaps = qgaps = None
    for part in parts[1:]:
        toks = [g for g in part.split(' ') if g]
        if toks and toks[0].startswith('objgaps='):
            objgaps = toks[1:]
        elif toks and toks[0].startswith('qgaps='):
            qgaps = toks[1:]
    # a gap at a quadratic root is a context gap like any other (C01_compose_quadroots)
    return {'status': 'ok', 'wf': wf, 'gaps': gaps + (qgaps or []), 'objgaps': objgaps, 'nqroots': len(qroots),
            'outside': sorted(set(outside)), 'ndefs': len(defs), 'nroots': len(roots), 'conversion_rows_skipped': skipped}


def rec_exe(ck):
    """the recsolver executable both stages use; VERIF_COVERAGE=1 selects the gcov-instrumented build"""
    if os.environ.get('VERIF_COVERAGE'):
        import c01_cov
        return c01_cov.build_cov(ck)[0]
    return recsolver.build(ck, flags=('-O1',))


def run_gadgets(ck, n_cases=None, proof=True):
    """proof stage + gadget correspondence; returns dict(proof_ok, failing, disagreements)"""
    t0 = time.time()
    res = {'proof_ok': True, 'failing': [], 'disagreements': []}
    if proof:
        # regenerate lean/MpVerif/Gen/Context.lean from the tree under test (written only when changed)
        rc, gout, gerr = sh([sys.executable, os.path.join(VERIF, 'translators', 'gen_context.py'), REPO,
                             os.path.join(LEAN, 'MpVerif', 'Gen', 'Context.lean'), os.path.join(BUILD, 'tr')], timeout=300)
        ck.log((gout.strip() or gerr.strip())[-300:])
        res['translator_ok'] = rc == 0
        # round 4: clang-AST translation of mp::Context; PropagateResult overload table; digests of mirrored converter bodies
        for script, args in (('gen_context_ast.py', [REPO, os.path.join(LEAN, 'MpVerif', 'Gen', 'C01Context.lean'), os.path.join(BUILD, 'tr')]),
                             ('gen_propdown.py', [REPO, os.path.join(LEAN, 'MpVerif', 'Gen')]),
                             ('gen_rangedec.py', [REPO, os.path.join(LEAN, 'MpVerif', 'Gen', 'C01Decisions.lean')]),
                             # round 7: PreprocessConstraint overloads of constr_prepro.h as executable Lean (C06's translator; the file is shared
                             # with the C06 check and written only when changed): tied to `resBnd` of the reference converter
                             ('gen_c06.py', [REPO, os.path.join(LEAN, 'MpVerif', 'Gen', 'C06Prepro.lean'), os.path.join(BUILD, 'tr')])):
            rc2, o2, e2 = sh([sys.executable, os.path.join(VERIF, 'translators', script)] + args, timeout=300)
            ck.log((o2.strip() or e2.strip())[-300:])
            if rc2 != 0:
                res['translator_ok'] = False
                gout, gerr = gout + ' | ' + script + ': ' + o2, gerr + e2
        ok, failing = ck.proof_stage('MpVerif.C01.Props', 'MpVerif/C01/Props.lean', 'C01_',
                                     ['MpVerif/C01/*.lean', 'MpVerif/Gen/Context.lean', 'MpVerif/Gen/C01*.lean'], expect_min=PROP_MIN_THEOREMS)
        if not res.get('translator_ok', True):
            ok = False
            failing = failing + ['translator gen_context.py: ' + (gout + gerr).strip()[-200:]]
        ck.log('proof stage: ok=%s failing=%s' % (ok, failing[:10]))
        # further property modules: composition theorem; hand context algebra = generated tables of context.h
        for module, relfile, nmin in EXTRA_MODULES:
            n1 = int(ck.cov.get('obligations') or 0)
            d1 = int(ck.cov.get('discharged') or 0)
            ok2, out2 = ck.lake([module])
            fail2 = []
            thms2 = []
            if not ok2:
                fail2 = ck.failing_decls(out2, relfile) or ['lake build ' + module]
                ck.cov['lake_output_tail_' + module.split('.')[-1]] = out2[-2000:]
            else:
                aok, thms2, aout = ck.prop_theorems(module, 'C01_')
                if not aok or len(thms2) < nmin:
                    fail2.append('axiom-audit %s (%d theorems found, expected >= %d)' % (module, len(thms2), nmin))
                for nme, ax in thms2:
                    extra = [a for a in ax if a not in ALLOWED_AXIOMS]
                    if extra:
                        fail2.append('%s uses axioms %s' % (nme, extra))
            n2 = max(len(thms2), nmin)
            ck.cov['obligations'] = n1 + n2
            ck.cov['discharged'] = d1 + max(0, n2 - len(set(fail2)))
            ck.cov['theorems'] = list(ck.cov.get('theorems') or []) + [nme for nme, _ in thms2]
            ck.cov['checker_cmd'] = str(ck.cov.get('checker_cmd')) + ' ; same for ' + module
            ck.log('proof stage (%s): ok=%s theorems=%d failing=%s' % (module.split('.')[-1], ok2 and not fail2, len(thms2), fail2[:5]))
            ok = ok and ok2 and not fail2
            failing = failing + fail2
        res['proof_ok'], res['failing'] = ok, failing
        if ck.tier == 'thorough' and ok:
            badm = ck.leanchecker(['MpVerif.C01.Props', 'MpVerif.C01.PropsCompose', 'MpVerif.C01.PropsCtxGen', 'MpVerif.C01.PropsObjective', 'MpVerif.C01.PropsGenTie', 'MpVerif.C01.PropsConvert', 'MpVerif.C01.PropsPreproTie'] + [m for m, _f, _n in EXTRA_MODULES if m.endswith('PropsPropBounds')])
            if badm:
                res['proof_ok'] = False
                res['failing'] += ['leanchecker rejected %s' % x for x in badm]
    exe = rec_exe(ck)     # same build as the end-to-end stage of checks/c01.py
    drv = Driver(ck.driver('drv_c01'))
    wd = os.path.join(BUILD, 'c01g')
    os.makedirs(wd, exist_ok=True)
    stats = {'runs': 0, 'runA_failed': 0, 'compared': 0, 'lines': 0, 'refusals': 0, 'hit': {}, 'unmodelled': {}}
    if n_cases is None:
        n_cases = 260 if ck.tier == 'quick' else 1500
    rng = Rng(ck.seed * 1000003 + 17)
    dis = []
    for i in range(n_cases):
        fam = FAMILIES[i % len(FAMILIES)]
        m, opts = gen_case(rng, fam)
        stub = os.path.join(wd, 'g%d' % (i % 8))
        try:
            bad = check_case(ck, exe, drv, stub, m, opts, stats, '%s#%d' % (fam, i))
        except Exception as ex:   # a crash of the harness itself must not pass silently
            bad = [{'type': fam, 'why': 'harness exception %r' % (ex,), 'case': '%s#%d' % (fam, i), 'ops': []}]
        for b in bad:
            b['seed'] = ck.seed
            b['nl'] = open(stub + '.nl').read()
            b['options'] = cvt_options(opts)
            dis.append(b)
    try:
        d2, findings = ctx_cases(ck, exe, drv, wd, stats)
    except Exception as ex:
        d2, findings = [{'type': 'ctx', 'why': 'harness exception %r' % (ex,), 'case': 'ctx', 'ops': []}], []
    dis += d2
    try:
        nue = 24 if ck.tier == 'quick' else 120
        dis += uenc_cases(ck, exe, drv, wd, stats, rng, nue)
        dis += mulbin_cases(ck, exe, drv, wd, stats, rng, nue)
    except Exception as ex:
        dis.append({'type': 'uenc/mulbin', 'why': 'harness exception %r' % (ex,), 'case': 'uenc/mulbin', 'ops': []})
    try:
        findings = findings + condeq_nonint_cases(ck, exe, wd, stats)
    except Exception as ex:
        dis.append({'type': 'condeq', 'why': 'harness exception %r' % (ex,), 'case': 'condeq', 'ops': []})
    res['findings'] = findings
    # round 5: the Lean reference converter `convert` against the real converter on generated models of its fragment
    try:
        import c01_refconv
        nrc = 150 if ck.tier == 'quick' else 1500
        res['refconv'] = c01_refconv.run_refconv(ck, drv, exe, nrc, ck.seed, wd)
    except Exception as ex:
        import traceback
        res['refconv'] = {'harness_exception': repr(ex)[:300], 'violations': [{'sig': 'refconv-harness', 'what': 'harness exception %r' % (ex,),
                                                                               'replay': {'traceback': traceback.format_exc()[-1500:]}, 'found': False}]}
    drv.close()
    stats['model_arms'] = dict(sorted(MODEL_ARMS.items()))
    res['disagreements'] = dis
    res['stats'] = stats
    ck.log('gadget correspondence: %d cases, %d recsolver runs, %d type-steps compared (%d constraint lines), %d refusals, %d disagreements, %.1fs'
           % (n_cases, stats['runs'], stats['compared'], stats['lines'], stats['refusals'], len(dis), time.time() - t0))
    ck.log('  context rule cases: %d, oracle grid points: %d, points feasible for the delivered model but not the original: %d'
           % (stats.get('ctx_cases', 0), stats.get('oracle_points', 0), len([f for f in findings if f.get('kind') != 'condeq'])))
    ck.log('  conditional equality with fractional rhs: %d cases, %d with a point where NL model and delivered model disagree' % (stats.get('condeq_cases', 0), len([f for f in findings if f.get('kind') == 'condeq'])))
    ck.log('  context edges (parent rule vs context stored on the argument definition) checked: %d' % stats.get('ctx_edges', 0))
    ck.log('  unary-encoding cases compared: %d, binary-product term cases compared: %d' % (stats.get('uenc_cases', 0), stats.get('mulbin_cases', 0)))
    ck.log('  hit: ' + ', '.join('%s:%d' % kv for kv in sorted(stats['hit'].items())))
    rcv = res.get('refconv') or {}
    if 'compared' in rcv:
        ck.log('  reference converter `convert` vs real converter: %d fragment models = %d (model, acceptance set) pairs; ENFORCED %d (%.1f%%, floor %.0f%%): '
               '%d compared of which %d agree (native %s, linear %s; %d delivered rows, %d with auxiliary variables), %d refusals of the reference of which '
               '%d matched by a refusal of the real converter, %d disagreements (%d drift); FLAGGED shortcut by the reference %d: %d agree anyway, %d differ, '
               'exact oracle run on %d of those, %d fail; outside the fragment predicate %d'
               % (rcv['models'], rcv['pairs'], rcv['enforced'], 100.0 * rcv['enforced'] / max(1, rcv['pairs']), 100 * rcv['enforced_floor'],
                  rcv['compared'], rcv['agree'], '%d/%d' % tuple(rcv['by_acc']['native']), '%d/%d' % tuple(rcv['by_acc']['linear']),
                  rcv['rows_compared'], rcv['with_aux_vars'], rcv['ref_refusal'], rcv['refusal_agree'], rcv['disagree'], rcv['drift'],
                  rcv['shortcut'], rcv['flagged_agree'], rcv['flagged_differ'], rcv['flagged_oracle_runs'], rcv['flagged_oracle_fail'],
                  rcv['outside_fragment_predicate'] + rcv['outside']))
        ck.log('    flagged by clause of the reference converter (a pair can have several): ' + ', '.join('%s:%d' % kv for kv in sorted(rcv.get('flagged_why', {}).items())))
        ck.log('    by family: ' + '; '.join('%s: %s' % (f, ', '.join('%s %d' % kv for kv in d.items())) for f, d in rcv['by_family'].items()))
        ck.log('    definition kinds in compared models: ' + ', '.join('%s:%d' % kv for kv in sorted(rcv['def_kinds'].items())))
        for k, v in sorted(rcv['classes'].items()):
            ck.log('    disagreement class %s: %d' % (k, v))
    if stats['unmodelled']:
        ck.log('  unmodelled (preprocessing shortcuts outside the model): ' + ', '.join('%s:%d' % kv for kv in sorted(stats['unmodelled'].items())))
    return res

"""C11 — solver option parsing is total, faithful and ordered.

Stages (see design_notes/C11.md):
  1. proof obligations: lean/MpVerif/C11/Props.lean (+ axiom audit)
  2. correspondence: the real mp::BasicSolver option machinery (harness/h_options.cc, ASan+UBSan,
     every option string in an exact-size heap block) vs the compiled Lean model (drv_c11) on
       - corpus/C11/*.ops (fixed), then
       - a grammar-generated well-formed stream, and
       - a hostile/mutated byte stream
  3. property oracle on the implementation's output (independent of the Lean model):
     faithfulness / order / query / unknown+flag-argument inertness on the well-formed stream,
     no sanitizer report, no crash, no hang on everything.
"""
import os, sys, json, re, random, struct, ctypes, subprocess, time, glob
from common import *

SOLVER = b'dummy'            # BasicSolver's default constructor: name_ = "dummy"
FLAGS = ['-O1', '-g', '-fsanitize=address,undefined', '-fno-sanitize-recover=all', '-DNDEBUG']
SPACES = [b' ', b'\t', b'\n', b'\v', b'\f', b'\r']
INT_MIN, INT_MAX = -2**31, 2**31 - 1

_libc = ctypes.CDLL(None)
_libc.strtod.restype = ctypes.c_double
_libc.strtod.argtypes = [ctypes.c_char_p, ctypes.c_void_p]


def x(b):
    return 'x' + bytes(b).hex()


def dbl_bits_of_text(t):
    """bit pattern of strtod(text) computed by the same libc the implementation uses"""
    return struct.pack('>d', _libc.strtod(bytes(t), None)).hex()


def dbl_bits(f):
    return struct.pack('>d', f).hex()


# ----------------------------------------------------------------------------- tables

class Opt:
    def __init__(self, idx, kind, chk, names, dflt=None, role=None):
        self.idx, self.kind, self.chk, self.names = idx, kind, chk, names
        self.base = {'int': 'int', 'sint': 'int', 'sll': 'int', 'dbl': 'dbl', 'sdbl': 'dbl',
                     'str': 'str', 'sstr': 'str', 'flag': 'flag', 'lint': 'int', 'ldbl': 'dbl', 'lstr': 'str',
                     'optfile': 'optfile'}[kind]
        self.wild = b'*' in names[0]
        self.islist = kind in ('lint', 'ldbl', 'lstr')
        self.logged = self.islist or (self.wild and self.base != 'flag')
        self.dflt = dflt            # shown value before any assignment, if not the type's default
        self.role = role            # 'version' for the standard version flag
        self.aliases = []           # out-of-line synonyms: (names, echo text)


def std_opts(flags):
    """the standard options of BasicSolver::InitMetaInfoAndOptions, in the order the harness prints them"""
    L = [Opt(0, 'flag', 'any', [b'tech:version', b'version'], role='version'),
         Opt(0, 'optfile', 'any', [b'tech:optionfile', b'optionfile', b'option:file']),
         Opt(0, 'int', 'mask15', [b'tech:wantsol', b'wantsol']),
         Opt(0, 'int', 'nonneg', [b'obj:no', b'objno'], dflt='i1'),
         Opt(0, 'int', 'bool01', [b'tech:debug', b'debug'])]
    if flags & 2:
        L.append(Opt(0, 'int', 'bool01', [b'obj:multi', b'multiobj']))
    L.append(Opt(0, 'int', 'bool01', [b'tech:timing', b'timing']))
    if flags & 1:
        L.append(Opt(0, 'int', 'bool01', [b'sol:count', b'countsolutions']))
        L.append(Opt(0, 'str', 'any', [b'sol:stub', b'solstub', b'solutionstub']))
    for i, o in enumerate(L):
        o.idx = i
    return L


WORDS = [b'alg', b'lim', b'tech', b'pre', b'cut', b'mip', b'lp', b'sol', b'tol', b'iter', b'time', b'gap', b'feas',
         b'opt', b'log', b'file', b'lev', b'mode', b'thr', b'seed', b'bar', b'qp', b'nl', b'cvt', b'acc', b'w', b'x1', b'k']


def gen_name(rnd, used):
    for _ in range(200):
        n = rnd.choice(WORDS)
        r = rnd.random()
        if r < 0.45:
            n = n + b':' + rnd.choice(WORDS)
        elif r < 0.6:
            n = n + rnd.choice([b'_', b'.', b'-', b'']) + rnd.choice(WORDS)
        if rnd.random() < 0.2:
            n += str(rnd.randrange(10)).encode()
        if rnd.random() < 0.15:
            n = bytes(c - 32 if 97 <= c <= 122 and rnd.random() < 0.5 else c for c in n)
        if n.lower() not in used and not n.lower().startswith(b'zz') and not n.lower().startswith(b'obj') and not n.lower().startswith(b'pri'):
            used.add(n.lower())
            return n
    raise RuntimeError('name pool exhausted')


STD_WORDS = [b'tech', b'obj', b'sol', b'version', b'optionfile', b'option', b'wantsol', b'objno', b'debug', b'multiobj',
             b'timing', b'countsolutions', b'solstub', b'solutionstub']


def gen_table(rnd, tid, quirks=False, std=None, lists=False):
    """std = (flags, solver name) for a solver built with the standard options"""
    used = set(w for w in STD_WORDS) if std else set()
    opts = []
    n = rnd.randrange(3, 11)
    kinds = ['int', 'sint', 'sll', 'dbl', 'sdbl', 'str', 'sstr', 'flag']
    # at least one of each base type
    base = ['int', 'sdbl', 'sstr', 'flag', 'dbl', 'str']
    for i in range(n):
        kind = base[i] if i < len(base) and rnd.random() < 0.8 else rnd.choice(kinds)
        names = [gen_name(rnd, used)]
        for _ in range(rnd.choice([0, 0, 1, 1, 2, 3])):
            names.append(gen_name(rnd, used))
        chk = 'any'
        if kind == 'int' and rnd.random() < 0.25:
            chk = rnd.choice(['nonneg', 'bool01'])
        if lists and rnd.random() < 0.3:
            kind = {'int': 'lint', 'sint': 'lint', 'sll': 'lint', 'dbl': 'ldbl', 'sdbl': 'ldbl', 'str': 'lstr', 'sstr': 'lstr'}.get(kind, kind)
            if kind.startswith('l'):
                chk = 'any'
        opts.append([kind, chk, names])
    # wildcard options (accessor kinds only: a StoredOption ignores the key body).  The synonym
    # patterns have DIFFERENT shapes (head/tail lengths, empty tail, empty head): the key body is part
    # of the address and must be cut with the pattern that matched, not with the primary name's.
    fams = [(b'obj', b'objective'), (b'pri', b'priority')]
    rnd.shuffle(fams)
    for short, long_ in fams[:rnd.choice([0, 1, 1, 2, 2])]:
        tail = rnd.choice([b'method', b'w', b'', b'tol'])
        pats = [short + b':*' + ((b':' + tail) if tail else b'')]                 # primary
        cands = [short + b'_*' + ((b'_' + tail) if tail else b''),               # same shape
                 long_ + b'_*' + ((b'_' + tail[:2]) if tail else b''),          # longer head, shorter tail
                 short + (tail if tail else b'x') + b'*',                         # empty tail
                 b'*@' + short + tail]                                            # empty head
        for c in cands:
            if rnd.random() < 0.7:
                pats.append(c)
        if rnd.random() < 0.3:
            first, rest = pats[0], pats[1:]
            rnd.shuffle(rest)
            pats = [first] + rest
        if quirks and rnd.random() < 0.5:
            pats.append(short + b'_plain')           # synonym without '*': wc_split returns (s, s)
        opts.append([rnd.choice(['int', 'int', 'dbl', 'str']), 'any', pats])
    if quirks:
        r = rnd.random()
        if r < 0.3:      # a case-insensitive duplicate of an existing name: AddOption throws, table unchanged
            opts.append([rnd.choice(kinds), 'any', [opts[0][2][0].swapcase()]])
        elif r < 0.5:    # a synonym equal (ci) to another option's name: the name wins
            opts.append(['int', 'any', [gen_name(rnd, used), opts[0][2][0].upper()]])
        elif r < 0.65:   # the same synonym on two options: set order decides
            s = gen_name(rnd, used)
            opts.append(['int', 'any', [gen_name(rnd, used), s]])
            opts.append(['sint', 'any', [gen_name(rnd, used), s.swapcase()]])
        elif r < 0.8:    # overlapping head/tail and double star
            opts.append(['int', 'any', [b'q:*:q']])
            opts.append(['str', 'any', [b'r*r*', b'rr**']])
    rnd.shuffle(opts)
    stdl = std_opts(std[0] & 3) if std else []
    lines = ['S %s %d %s' % (tid, std[0], x(std[1]))] if std else ['T %s' % tid]
    res = list(stdl)
    post = []
    for i, (kind, chk, names) in enumerate(opts):
        o = Opt(len(stdl) + i, kind, chk, names)
        plain = not o.wild and not quirks
        ctor_names = list(names)
        # some inline synonyms are added after construction (AddOptionSynonyms_Inline_Front/_Back): same lookup
        if plain and len(names) > 1 and rnd.random() < 0.3:
            k = rnd.randrange(1, len(names))
            ctor_names, late = names[:k], names[k:]
            post.append('B %s %s %s %s' % (tid, rnd.choice(['front', 'back']), x(names[0]), ','.join(x(nm) for nm in late)))
        lines.append('O %s %s %s %s' % (tid, kind, chk, ','.join(x(nm) for nm in ctor_names)))
        # out-of-line synonyms (AddOptionSynonyms_OutOfLine): a separate entry that delegates to the real option
        if plain and o.base != 'flag' and not o.islist and rnd.random() < 0.3:
            al = [gen_name(rnd, used) for _ in range(rnd.choice([1, 1, 2]))]
            o.aliases.append((al, al[0] + b' (' + names[0] + b')'))
            post.append('A %s %s %s' % (tid, x(names[0]), ','.join(x(nm) for nm in al)))
        res.append(o)
    if rnd.random() < 0.3:
        post.append(rnd.choice(['A %s %s %s' % (tid, x(b'zznone'), x(b'zzalias')), 'B %s back %s %s' % (tid, x(b'zznone'), x(b'zzsyn')), 'B %s front %s %s' % (tid, x(b'zznone'), x(b'zzsyn'))]))
    rnd.shuffle(post)
    return lines + post, res


# ----------------------------------------------------------------------------- well-formed stream

def recase(rnd, b):
    m = rnd.random()
    if m < 0.3:
        return b
    if m < 0.5:
        return b.upper()
    if m < 0.6:
        return b.lower()
    return bytes((c ^ 32) if (65 <= c <= 90 or 97 <= c <= 122) and rnd.random() < 0.5 else c for c in b)


def gen_int_text(rnd, lo=INT_MIN, hi=INT_MAX):
    r = rnd.random()
    if r < 0.15:
        v = rnd.choice([0, 1, -1, lo, hi, lo + 1, hi - 1, 7, 10, 99])
        v = max(lo, min(hi, v))
    elif r < 0.6:
        v = rnd.randrange(max(lo, -1000), min(hi, 1000) + 1)
    else:
        v = rnd.randrange(lo, hi + 1)
    t = str(abs(v)).encode()
    if rnd.random() < 0.15:
        t = b'0' * rnd.randrange(1, 4) + t
    if v < 0:
        t = b'-' + t
    elif rnd.random() < 0.15:
        t = b'+' + t
    return v, t


def gen_real_text(rnd):
    ip = str(rnd.choice([0, 1, 2, 5, 10, 123, rnd.randrange(10**6), rnd.randrange(10**18)])).encode()
    fp = b''
    form = rnd.random()
    if form < 0.25:
        t = ip
    elif form < 0.6:
        fp = str(rnd.randrange(10**rnd.randrange(1, 12))).encode()
        if rnd.random() < 0.3:
            fp = b'0' * rnd.randrange(1, 4) + fp
        t = ip + b'.' + fp
    elif form < 0.7:
        t = ip + b'.'
    elif form < 0.8:
        t = b'.' + str(rnd.randrange(1000)).encode()
    else:
        t = ip + b'.' + str(rnd.randrange(1000)).encode()
    if rnd.random() < 0.4:
        t += rnd.choice([b'e', b'E']) + rnd.choice([b'', b'+', b'-']) + str(rnd.randrange(0, 40)).encode()
    if rnd.random() < 0.3:
        t = rnd.choice([b'-', b'-', b'+']) + t
    return float(t.decode()), t


BARE = b'abcdefghijklmnopqrstuvwxyzABCDEFGHIJKLMNOPQRSTUVWXYZ0123456789_./:-+,;%@#~^*()[]{}<>!&|\\$=?\'"'


def gen_str_value(rnd, cmdline):
    """(value bytes, rendered text)"""
    if cmdline:
        # FROM_COMMAND_LINE: everything up to '\n'/NUL, quotes are not interpreted
        n = rnd.choice([0, 1, 3, 8, 20])
        body = bytes(rnd.choice(BARE + b'   \t') for _ in range(n))
        body = body.lstrip(b' \t')
        if body[:1] == b'?':
            body = b'v' + body
        if rnd.random() < 0.1:
            body += bytes([rnd.randrange(128, 256)]) + b'\xc3\xa9'
        return body, body
    if rnd.random() < 0.5:
        q = rnd.choice([b"'", b'"'])
        n = rnd.choice([0, 1, 3, 8, 30])
        alphabet = (BARE + (b'    \t ' if NO_NL else b'    \t\n')).replace(q, b'')
        body = bytes(rnd.choice(alphabet) for _ in range(n))
        if rnd.random() < 0.1:
            body += bytes([rnd.randrange(128, 256)])
        return body, q + body + q
    n = rnd.choice([1, 2, 5, 12, 40])
    body = bytes(rnd.choice(BARE) for _ in range(n))
    if body[:1] in (b"'", b'"'):
        body = b'v' + body
    if body == b'?':
        body = b'?q'
    if rnd.random() < 0.1:
        body += bytes([rnd.randrange(128, 256)])
    return body, body


def ws(rnd, minimum=0):
    k = rnd.choice([0, 0, 0, 1, 1, 2]) if minimum == 0 else rnd.choice([1, 1, 1, 2, 3])
    return b''.join(rnd.choice([b' ', b' ', b' ', b'\t', b' ' if NO_NL else b'\n', b'\r', b'\f', b'\v']) for _ in range(k))


GEN_STATS = {}
NO_NL = False            # inside an option file a value or separator cannot contain a newline
FILE_COUNTER = [0]


def gen_key(rnd, opt):
    """a way to address `opt`; returns (key bytes, body or None, the name the echo line shows)"""
    if opt.wild:
        pat = rnd.choice([nm for nm in opt.names if b'*' in nm])
        body = rnd.choice([b'1', b'2', b'3', b'10', b'ab', b'X'])
        shape = lambda q: (q.index(b'*'), len(q) - q.index(b'*') - 1)
        k = 'primary' if pat == opt.names[0] else 'synonym-same-shape' if shape(pat) == shape(opt.names[0]) else \
            'synonym-empty-tail' if shape(pat)[1] == 0 else 'synonym-empty-head' if shape(pat)[0] == 0 else 'synonym-other-shape'
        GEN_STATS[k] = GEN_STATS.get(k, 0) + 1
        return pat.replace(b'*', body, 1), body, opt.names[0].replace(b'*', body, 1)
    if opt.aliases and rnd.random() < 0.4:
        al, echo = rnd.choice(opt.aliases)
        return recase(rnd, rnd.choice(al)), None, echo
    nm = rnd.choice(opt.names)
    return recase(rnd, nm), None, opt.names[0]


def gen_item(rnd, opts, cmdline, hist):
    """one item; returns (text, effect) where effect is
    ('set', idx, body, val) | ('query', idx) | ('unknown', key) | ('flagarg', key) | ('intwrap', idx, body, text)"""
    r = rnd.random()
    opt = rnd.choice(opts)
    sep_eq = rnd.random() < 0.7
    sep = (ws(rnd) + b'=' + ws(rnd)) if sep_eq else ws(rnd, 1)
    if cmdline:
        sep = sep.replace(b'\n', b' ')
    if r < 0.08:
        key = b'zz' + rnd.choice(WORDS) + rnd.choice([b'', b':x', b'9'])
        key = recase(rnd, key)
        form = rnd.random()
        if form < 0.4:
            return key, ('unknown', key, [])
        if form < 0.7:
            v = str(rnd.randrange(100)).encode()
            return key + sep + v, ('unknown', key, [v])
        v = b'zzv' + rnd.choice(WORDS)
        return key + sep + v, ('unknown', key, [v])
    if opt.base == 'optfile' and (hist is None or hist['depth'] >= 2 or rnd.random() < 0.5):
        opt = rnd.choice([o for o in opts if o.base != 'optfile'])     # option files: bounded nesting
    if r < 0.16 and not opt.islist:      # (ListOption::GetValue on an empty list is UB: never queried)
        key, body, echo = gen_key(rnd, opt)
        q = key + rnd.choice([b'=?', b' ?', b' = ?', b'= ?', b'\t=?'])
        return q, ('query', opt.idx, body, echo)
    if opt.base == 'flag':
        key, _, echo = gen_key(rnd, opt)
        if rnd.random() < 0.15:
            v = rnd.choice([b'1', b'0', b'yes', b'7x'])
            return key + ws(rnd) + b'=' + ws(rnd) + v, ('flagarg', key)
        return key, ('set', opt.idx, None, ('f', 1), echo)
    key, body, echo = gen_key(rnd, opt)
    if opt.base == 'optfile':
        # an option file: lines of well-formed items (parsed with the flags ParseOptions was called with,
        # never as command-line text), comment lines, blank lines, indentation; possibly nested
        global NO_NL
        saved = NO_NL
        NO_NL = True
        hist['depth'] += 1
        flines, inner = [], []
        for _ in range(rnd.choice([0, 1, 2, 3, 5])):
            k = rnd.random()
            if k < 0.15:
                flines.append(rnd.choice([b'# a comment', b'   #indented comment = 5', b'#', b'\t# x=1']))
            elif k < 0.25:
                flines.append(rnd.choice([b'', b'   ', b'\t', b' \r']))
            else:
                its = [gen_item(rnd, opts, False, hist) for _ in range(rnd.choice([1, 1, 2, 3]))]
                flines.append(render_source(rnd, [t for t, _ in its]))
                inner += [e for _, e in its]
        hist['depth'] -= 1
        NO_NL = saved
        content = b'\n'.join(flines) + rnd.choice([b'', b'\n', b'\n\n'])
        fname = ('f%d.opt' % (FILE_COUNTER[0])).encode()
        FILE_COUNTER[0] += 1
        hist['files'].append((fname, content))
        return key + sep + fname, ('file', opt.idx, fname, inner, echo)
    if opt.base == 'int':
        if rnd.random() < 0.03 and opt.chk == 'any':
            v = rnd.choice([2**31, 3000000000, -2**31 - 1, 2**32 + 5, 2**63, 10**20, -10**19, 2**40])
            return key + sep + str(v).encode(), ('intwrap', opt.idx, body, v, opt.kind, echo)
        lo, hi = INT_MIN, INT_MAX
        if opt.chk == 'nonneg':
            lo = 0
        if opt.chk == 'bool01':
            lo, hi = 0, 1
        if opt.chk == 'mask15':
            lo, hi = 0, 15
        v, t = gen_int_text(rnd, lo, hi)
        return key + sep + t, ('set', opt.idx, body, ('i', v), echo)
    if opt.base == 'dbl':
        v, t = gen_real_text(rnd)
        return key + sep + t, ('set', opt.idx, body, ('d', dbl_bits(v)), echo)
    v, t = gen_str_value(rnd, cmdline)
    if not sep_eq and t[:1] == b'=':
        v, t = b'v' + v, b'v' + t
    return key + sep + t, ('set', opt.idx, body, ('s', v.hex()), echo)


def render_source(rnd, items):
    out = ws(rnd)
    for i, t in enumerate(items):
        out += t
        out += ws(rnd, 1) if i + 1 < len(items) else ws(rnd)
    return out


EXES = [(b'', None), (b'mysolver', b'mysolver'), (b'/usr/local/bin/mysolver', b'mysolver'), (b'./b/x.exe', b'x'),
        (b'C:/p/tool.app', b'tool'), (b'dir.d/gurobi', b'gurobi'), (b'a.b.exe', b'a.b'), (b'/opt/s.exe.bak', b's.exe.bak'),
        (b'rel/highs.EXE', b'highs.EXE'), (b'/x/y/z.app', b'z')]


def is_str_assign(e):
    return e[0] == 'file' or (e[0] == 'set' and e[3][0] == 's')


def gen_wellformed_case(rnd, cid, tid, opts, solver=SOLVER):
    """returns (op lines, expectation dict)"""
    ctx = {'files': [], 'depth': 0}
    no_echo = rnd.random() < 0.3
    exe, exe_base = rnd.choice(EXES)
    srcs = []   # (kind, text, effects)
    env = []
    order = []
    # which sources are present
    have_mp = rnd.random() < 0.55
    have_exe = exe_base is not None and rnd.random() < 0.5
    have_solver = rnd.random() < 0.6
    nargs = rnd.choice([None, 0, 1, 1, 2, 3, 5])
    hot = rnd.sample(opts, min(len(opts), 3))   # options assigned repeatedly: exercises "later wins"

    def items(cmdline, single):
        k = 1 if single else rnd.choice([0, 1, 2, 3, 5, 8])
        its = []
        for _ in range(k):
            pool = hot if rnd.random() < 0.6 else opts
            its.append(gen_item(rnd, pool, cmdline, ctx))
        return its
    applied = []
    ignored = []
    if have_mp:
        its = items(False, False)
        env.append((b'mp_options', render_source(rnd, [t for t, _ in its])))
        applied += [e for _, e in its]
    if have_exe:
        its = items(False, False)
        env.append((exe_base + b'_options', render_source(rnd, [t for t, _ in its])))
        applied += [e for _, e in its]
    if have_solver:
        its = items(False, False)
        env.append((solver + b'_options', render_source(rnd, [t for t, _ in its])))
        if have_exe:
            ignored += [e for _, e in its]
        else:
            applied += [e for _, e in its]
    rnd.shuffle(env)   # putenv order is irrelevant for distinct names
    argv = None
    if nargs is not None:
        argv = []
        for _ in range(nargs):
            its = items(True, False)
            # on the command line a string value extends to the end of the element:
            # a string assignment is the last item of its element and nothing follows it
            for j, (t, e) in enumerate(its):
                if is_str_assign(e):
                    its = its[:j + 1]
                    break
            if its and is_str_assign(its[-1][1]):
                lead = [t for t, _ in its[:-1]]
                text = ws(rnd)
                for t in lead:
                    text += t + ws(rnd, 1)
                text += its[-1][0]
            else:
                text = render_source(rnd, [t for t, _ in its])
            argv.append(text)
            applied += [e for _, e in its]
    e = '-' if not env else ';'.join(x(k) + '=' + x(v) for k, v in env)
    a = 'N' if argv is None else ','.join(['A'] + [x(v) for v in argv])
    line = 'C %s %s %d 0 0 %s %s %s %s' % (cid, tid, int(no_echo), x(solver), x(exe), e, a)
    flines = ['F %s %s' % (x(n), x(c)) for n, c in ctx['files']]
    return flines + [line], {'applied': applied, 'ignored': ignored, 'no_echo': no_echo}


# ----------------------------------------------------------------------------- hostile stream

TOKENS = [b"'", b'"', b'=', b'?', b' ', b'\t', b'\n', b'=?', b'= ?', b"='", b'="', b'0x', b'0x1p', b'nan(', b'nan(1)', b'inf', b'infinity',
          b'e', b'E+', b'p-', b'.', b'..', b'*', b'**', b'-', b'+', b'--', b'1e5', b'1e', b'.5', b'5.', b'0x.8', b'0xg', b'\x80', b'\xff', b'\xc3\xa9',
          b'\x01', b'\x7f', b'==', b' = ', b'?x', b'?? ', b'99999999999999999999', b'-2147483649', b'2147483648', b'1_000', b'0X1F.8p', b'INFx', b'NaN(', b'nan()',
          b':', b'obj:', b'obj:1:', b'obj_', b':method', b'zz']


def mutate(rnd, b, names):
    b = bytearray(b)
    for _ in range(rnd.choice([1, 1, 2, 3, 6])):
        r = rnd.random()
        pos = rnd.randrange(len(b) + 1)
        if r < 0.35:
            b[pos:pos] = rnd.choice(TOKENS)
        elif r < 0.5 and b:
            del b[pos % len(b):(pos % len(b)) + rnd.randrange(1, 4)]
        elif r < 0.6 and b:
            b[pos % len(b)] = rnd.randrange(1, 256)
        elif r < 0.7:
            b[pos:pos] = rnd.choice(names)
        elif r < 0.8:
            b[pos:pos] = rnd.choice(names) + rnd.choice([b'=', b' ', b' = ', b'=?', b"='", b'="'])
        elif r < 0.85 and b:
            i = pos % len(b)
            b[i] = b[i] ^ 32
        elif r < 0.9:
            b[pos:pos] = bytes(rnd.randrange(1, 256) for _ in range(rnd.randrange(1, 8)))
        else:
            j = rnd.randrange(len(b) + 1)
            lo, hi = min(pos, j), max(pos, j)
            b[pos:pos] = b[lo:hi]
    return bytes(b).replace(b'\0', b'\x01')


def gen_hostile_text(rnd, opts, allow_unterminated):
    names = [nm for o in opts for nm in o.names] + [b'zzq']
    if any(o.base == 'optfile' for o in opts) and rnd.random() < 0.25:
        # read an option file: an existing one (well-formed or hostile), a missing one, odd spellings
        f = rnd.choice(FILE_REFS[-40:] + [b'f%d.opt' % rnd.randrange(max(1, FILE_COUNTER[0]))] * 3 + [b'nope.opt', b'', b'.', b'f0.opt x'])
        t = rnd.choice([b'optionfile=', b'tech:optionfile ', b'OPTION:FILE = ', b"optionfile='", b'optionfile=?']) + f
        return rnd.choice([b'', b'wantsol=3 ', b'version ', b'debug=1 ']) + t + rnd.choice([b'', b' timing=1', b"'", b' objno=2'])
    r = rnd.random()
    if r < 0.55:
        its = [gen_item(rnd, opts, rnd.random() < 0.3, None)[0] for _ in range(rnd.choice([1, 2, 3, 5]))]
        t = mutate(rnd, render_source(rnd, its), names)
    elif r < 0.75:
        n = rnd.choice([0, 1, 2, 5, 17, 64])
        t = bytes(rnd.choice(b" \t\n='\"?*.:+-0123456789xXeEpPnaNAiIfF()_abz\x80\xff") for _ in range(n))
    elif r < 0.85:
        n = rnd.choice([0, 1, 3, 9, 33])
        t = bytes(rnd.randrange(1, 256) for _ in range(n))
    elif r < 0.93:
        # very long tokens
        L = rnd.choice([60, 300, 5000, 30000])
        kind = rnd.random()
        nm = rnd.choice(names)
        if kind < 0.3:
            t = b'a' * L + b'=1'
        elif kind < 0.5:
            t = nm + b'=' + b'9' * L
        elif kind < 0.7:
            t = nm + b'=' + b'1.' + b'0' * L + b'e' + b'9' * 30
        elif kind < 0.85:
            t = nm + b"='" + b'q ' * (L // 2) + b"'"
        else:
            t = nm + b' ' * L + b'=' + b'\t' * L + b'x' * L
    else:
        nm = rnd.choice(names)
        t = nm + rnd.choice([b'=', b' ', b' = ']) + rnd.choice([b"'", b'"']) + rnd.choice([b'', b'abc', b'a b c', b"it's" if False else b'x"y'])
        t = mutate(rnd, t, names) if rnd.random() < 0.3 else t
    if not allow_unterminated:
        # close every quote that would open an unterminated quoted value (cheap approximation:
        # make both quote characters occur an even number of times and in a nested-free order)
        t = t.replace(b"'", b'').replace(b'"', b'') if (t.count(b"'") % 2 or t.count(b'"') % 2) else t
    return t


FILE_REFS = []


def gen_hostile_case(rnd, cid, tid, opts, p_unterminated=0.5, solver=SOLVER):
    allow = rnd.random() < p_unterminated
    no_echo = rnd.random() < 0.5
    cl = rnd.random() < 0.15
    th = rnd.random() < 0.2
    exe = rnd.choice([b'', b'', b'h', b'/a/h.exe', b'/a/', b'.exe', b'mp', b'q.app', b'a/b.c/d', b'.', b'dummy'])
    env = []
    for name in (b'mp_options', b'h_options', solver + b'_options', b'_options', b'q_options', b'd_options'):
        if rnd.random() < 0.35:
            env.append((name, gen_hostile_text(rnd, opts, allow)))
    if rnd.random() < 0.1 and env:
        env.append((env[0][0], gen_hostile_text(rnd, opts, allow)))    # putenv twice: the last one wins
    nargs = rnd.choice([None, 0, 1, 1, 2, 4])
    argv = None if nargs is None else [gen_hostile_text(rnd, opts, True) for _ in range(nargs)]
    e = '-' if not env else ';'.join(x(k) + '=' + x(v) for k, v in env)
    a = 'N' if argv is None else ','.join(['A'] + [x(v) for v in argv])
    return 'C %s %s %d %d %d %s %s %s %s' % (cid, tid, int(no_echo), int(cl), int(th), x(solver), x(exe), e, a)


# ----------------------------------------------------------------------------- canonicalisation

def canon_val(v, model):
    if model and v.startswith('d'):
        return 'd' + dbl_bits_of_text(bytes.fromhex(v[1:]))
    if v.startswith('w'):
        ents = re.findall(r'\(([0-9a-f]*):([^)]*)\)', v)
        return 'w' + ''.join('(%s:%s)' % (b, canon_val(val, model)) for b, val in ents)
    return v


def parse_result(line, model):
    """-> dict(cid, outcome, ret, errs[list], vals[list], echo[list]) ; echo canonical:
    for the implementation the raw hex of each Print call; for the model the expected raw hex
    (value text of doubles is not compared: only the part up to ' = ')"""
    if not line.startswith('R '):
        return {'raw': line}
    head = line.split(' | ')
    h = head[0].split(' ')
    if len(head) == 1:
        if len(h) == 3 and h[2] == 'overread':
            return {'cid': h[1], 'outcome': 'overread'}
        if len(h) == 4 and h[2] == 'crash':
            return {'cid': h[1], 'outcome': 'overread' if h[3] == 'asan-heap-buffer-overflow-read' else 'crash:' + h[3]}
        return {'raw': line}
    if len(head) != 5 or len(h) != 4:
        return {'raw': line}
    errs = [] if head[1] == '-' else head[1].split(',')
    vals = [] if head[2] == '-' else [canon_val(v, model) for v in head[2].split(',')]
    echo = [] if head[3] == '-' else head[3].split(',')
    ce = []
    for e in echo:
        if model:
            if '=' in e:
                nm, v = e.split('=', 1)
                pre = b'  ' + bytes.fromhex(nm) + b' = '
                if v.startswith('i'):
                    ce.append((pre + v[1:].encode() + b'\n').hex())
                elif v.startswith('s'):
                    ce.append((pre + bytes.fromhex(v[1:]) + b'\n').hex())
                else:
                    ce.append(pre.hex() + '~')
            else:
                ce.append((b'  ' + bytes.fromhex(e) + b'\n').hex())
        else:
            ce.append(e)
    return {'cid': h[1], 'outcome': h[2], 'ret': h[3], 'errs': errs, 'vals': vals, 'echo': ce, 'prints': head[4]}


def same_result(pi, pm):
    """implementation vs model (after canonicalisation)"""
    if 'raw' in pi or 'raw' in pm:
        return pi == pm
    if pi['outcome'] == 'overread' or pm['outcome'] == 'overread':
        return pi['outcome'] == pm['outcome'] and pi['cid'] == pm['cid']
    for k in ('cid', 'outcome', 'ret', 'errs', 'vals', 'prints'):
        if pi.get(k) != pm.get(k):
            return False
    if len(pi['echo']) != len(pm['echo']):
        return False
    for a, b in zip(pi['echo'], pm['echo']):
        if b.endswith('~'):
            if not (a.startswith(b[:-1]) and a.endswith('0a')):
                return False
        elif a != b:
            return False
    return True


# ----------------------------------------------------------------------------- oracle

def std_name(o, body):
    """what echo shows: the primary name, for a wildcard option with the body in place of '*'"""
    return o.names[0].replace(b'*', body, 1) if o.wild else o.names[0]


def log_final_map(shown):
    """'w(body:val)(body:val)...' -> {body: last val}"""
    m = {}
    for b, v in re.findall(r'\(([0-9a-f]*):([^)]*)\)', shown):
        m[b] = v
    return m


def expected_final(opts, exp):
    """apply the assignments in order (python reference, independent of the Lean model);
    also the names the echo lines must show, in order, and whether the version text is printed"""
    vals = {}
    logs = {o.idx: [] for o in opts if o.logged}
    by_idx = {o.idx: o for o in opts}
    errs = []
    wraps = []
    echo = []       # (option, name shown)
    version = [False]

    def go(effects):
        for e in effects:
            if e[0] == 'set':
                _, idx, body, v, en = e
                o = by_idx[idx]
                if o.logged:
                    logs[idx].append(((body or b'').hex(), v))
                else:
                    vals[idx] = v
                if o.role == 'version':
                    version[0] = True
                echo.append((o, en))
            elif e[0] == 'query':
                echo.append((by_idx[e[1]], e[3]))
            elif e[0] == 'unknown':
                errs.append('u' + e[1].hex())
                # the code resumes right after the unknown key (and '='): the value text of an unknown option is
                # itself read as option text, so each of its (unknown) tokens is reported too
                errs.extend('u' + v.hex() for v in e[2])
            elif e[0] == 'flagarg':
                errs.append('a' + e[1].hex())
            elif e[0] == 'intwrap':
                wraps.append(e)
                echo.append((by_idx[e[1]], e[5]))
            elif e[0] == 'file':
                _, idx, fname, inner, en = e
                vals[idx] = ('s', fname.hex())      # option_file_save_ is set before the file is read
                go(inner)
                echo.append((by_idx[idx], en))      # the echo of the option-file assignment follows its lines' echoes
    go(exp['applied'])
    return vals, logs, errs, echo, wraps, version[0]


def show_expected(o, vals, logs):
    def sv(v):
        return {'i': lambda: 'i%d' % v[1], 'd': lambda: 'd' + v[1], 's': lambda: 's' + v[1], 'f': lambda: 'f%d' % v[1]}[v[0]]()
    if o.logged:
        return 'w' + ''.join('(%s:%s)' % (b, sv(v)) for b, v in logs[o.idx])
    if o.idx in vals:
        return sv(vals[o.idx])
    if o.dflt:
        return o.dflt
    return {'int': 'i0', 'dbl': 'd' + dbl_bits(0.0), 'str': 's', 'flag': 'f0', 'optfile': 's'}[o.base]


def flat(effects):
    for e in effects:
        if e[0] == 'file':
            yield from flat(e[3])
        else:
            yield e


def is_subsequence(small, big):
    it = iter(big)
    return all(any(x == y for y in it) for x in small)


def oracle_wellformed(pi, opts, exp):
    """returns list of (signature, message); empty = property holds on this case"""
    bad = []
    if 'raw' in pi:
        return [('wellformed:unparsable-output', pi['raw'][:200])]
    if pi['outcome'] in ('error', 'invalid') and any(e[0] == 'intwrap' for e in flat(exp['applied'])):
        return []     # an out-of-range integer literal was rejected by an exception: acceptable
    if pi['outcome'] != 'ok':
        return [('wellformed:%s' % pi['outcome'].replace(':', '-'), 'well-formed options text did not parse normally: outcome %s' % pi['outcome'])]
    vals, logs, errs, want_echo, wraps, version = expected_final(opts, exp)
    nonerr = len(want_echo)
    wrapped_idx = {w[1] for w in wraps}
    # echo: one line per non-error item, in order, naming the addressed option/entry in standard form
    if not exp['no_echo'] and len(want_echo) == len(pi['echo']):
        for (o, nm), got_hex in zip(want_echo, pi['echo']):
            line = bytes.fromhex(got_hex)
            ok = (line == b'  ' + nm + b'\n') if o.base == 'flag' else line.startswith(b'  ' + nm + b' = ')
            if not ok:
                bad.append(('wellformed:echo-names-wrong-%s' % ('wildcard-entry' if o.wild else 'option'),
                            'echo line %r does not name %r' % (line[:80], nm)))
                break
    if pi.get('prints') != ('p%d' % exp.get('vprints', 3) if version else 'p0'):
        bad.append(('wellformed:version-text', 'version flag %s in this call but %s other Print calls (ShowVersion prints %d)' % ('set' if version else 'not set', pi.get('prints'), exp.get('vprints', 3))))
    for o in opts:
        want = show_expected(o, vals, logs)
        got = pi['vals'][o.idx]
        if o.idx in wrapped_idx:
            continue    # judged below
        if o.logged and want != got:
            # which entry (key body) received which value, for every spelling of the key
            wm, gm = log_final_map(want), log_final_map(got)
            if wm != gm:
                bad.append(('wellformed:%s:final-value' % ('list-option' if o.islist else 'wildcard-entry'), 'wildcard/list option %r: final entries (body->value) expected %s, implementation has %s (later assignment through another spelling must override)' % (o.names[0], wm, gm)))
            else:
                bad.append(('wellformed:wildcard-entry:assignment-sequence', 'wildcard option %r: expected assignments %s, implementation recorded %s' % (o.names[0], want, got)))
            continue
        if want != got:
            kind = 'faithful-or-order'
            if any(e[1] == o.idx for e in exp['ignored'] if e[0] in ('set',)) and not any(e[1] == o.idx for e in exp['applied'] if e[0] == 'set'):
                kind = 'source-order'
            bad.append(('wellformed:%s:%s' % (kind, o.base), 'option %r (slot %d): expected %s, implementation has %s' % (o.names[0], o.idx, want, got)))
    for w in wraps:
        _, idx, body, v, kind, _en = w
        # an integer literal outside int: the option must not silently hold a different number
        o = [q for q in opts if q.idx == idx][0]
        got = pi['vals'][idx]
        later = False
        seen = False
        for e in flat(exp['applied']):
            if e is w:
                seen = True
            elif seen and e[0] in ('set', 'intwrap') and e[1] == idx and not o.logged:
                later = True
        if later:
            continue
        if o.logged:
            ok = ('(%s:i%d)' % ((body or b'').hex(), v)) in got
        else:
            ok = got == 'i%d' % v
        if not ok:
            bad.append(('int-out-of-range:silently-wrapped', 'integer literal %d assigned to %s option %r: no error, stored %s' % (v, kind, o.names[0], got)))
    if not is_subsequence(errs, pi['errs']):
        bad.append(('wellformed:error-not-reported', 'expected errors %s (in order) among %s' % (errs, pi['errs'])))
    elif errs != pi['errs']:
        # exactly the expected reports and no others: in particular, after "flag=value" is rejected parsing resumes
        # AFTER the value token - the value text must not be read as a further option (reported as unknown, or set)
        extra = list(pi['errs'])
        for e in errs:
            extra.remove(e)
        bad.append(('wellformed:spurious-error-after-rejected-item', 'errors %s reported in addition to the expected %s: text of a rejected item (e.g. the value of flag=value) was parsed as further options' % (extra[:5], errs[:8])))
    if not errs and pi['errs']:
        bad.append(('wellformed:spurious-error', 'errors reported for well-formed text: %s' % pi['errs'][:5]))
    if (pi['ret'] == '1') != (not pi['errs']):
        bad.append(('wellformed:return-value', 'ParseOptions returned %s with %d reported errors' % (pi['ret'], len(pi['errs']))))
    if exp['no_echo'] and pi['echo']:
        bad.append(('wellformed:echo-despite-NO_OPTION_ECHO', '%d echo lines' % len(pi['echo'])))
    if not exp['no_echo'] and len(pi['echo']) != nonerr:
        bad.append(('wellformed:echo-count', 'expected %d echo lines, got %d' % (nonerr, len(pi['echo']))))
    return bad


# ----------------------------------------------------------------------------- running

def run_ops(ck, exe, drv, ops_path, tag):
    impl_out = ops_path + '.impl'
    model_out = ops_path + '.model'
    env = {'ASAN_OPTIONS': 'detect_leaks=0:symbolize=0:allocator_may_return_null=1', 'UBSAN_OPTIONS': 'print_stacktrace=0'}
    t0 = time.time()
    with open(impl_out, 'w') as f:
        p = subprocess.run([exe, ops_path, ops_path + '.stderr'], stdout=f, stderr=subprocess.PIPE, text=True,
                           env={**os.environ, **env}, timeout=3000)
    t1 = time.time()
    with open(ops_path) as fi, open(model_out, 'w') as fo:
        subprocess.run([drv], stdin=fi, stdout=fo, check=True, timeout=3000)
    t2 = time.time()
    ck.log('%s: implementation %.1fs, model %.1fs' % (tag, t1 - t0, t2 - t1))
    il = open(impl_out).read().split('\n')
    ml = open(model_out).read().split('\n')
    if il and il[-1] == '':
        il.pop()
    if ml and ml[-1] == '':
        ml.pop()
    return il, ml, p.returncode, p.stderr


def symbolized_report(exe, op_lines, workdir):
    """re-run one case with symbolization to get the stack of the sanitizer report"""
    path = os.path.join(workdir, 'c11.one.ops')
    open(path, 'w').write('\n'.join(op_lines) + '\n')
    env = {**os.environ, 'ASAN_OPTIONS': 'detect_leaks=0:symbolize=1', 'UBSAN_OPTIONS': 'print_stacktrace=1'}
    subprocess.run([exe, path, path + '.stderr'], stdout=subprocess.PIPE, stderr=subprocess.PIPE, env=env, timeout=300)
    try:
        rep = open(path + '.stderr').read()
    except OSError:
        rep = ''
    frames = re.findall(r'#\d+ 0x[0-9a-f]+ in (\S+)', rep)
    return rep[:2500], frames[:8]


COUNTEREXAMPLE_OPS = [
    'T cx',
    'O cx sstr any ' + x(b'x'),
    'O cx sll any ' + x(b'big'),
    # regression (fixed in ampl/mp 7d345ba, was C11_counterexample_unterminated_quote): the option string  x='  from <solver>_options
    'C cx1 cx 1 0 0 %s x %s=%s N' % (x(SOLVER), x(SOLVER + b'_options'), x(b"x='")),
    # the same text given on the command line is harmless (quotes are not interpreted there)
    'C cx2 cx 1 0 0 %s x - A,%s' % (x(SOLVER), x(b"x='")),
    # regression (fixed in ampl/mp 5ace2c7): an option file that names itself must end with an error, not a stack overflow
    'S cxs 3 ' + x(b'cxsolv'),
    'F ' + x(b'self.opt') + ' ' + x(b'wantsol=1\noptionfile=self.opt\n'),
    'C cx4 cxs 1 0 0 %s x %s=%s N' % (x(b'cxsolv'), x(b'cxsolv_options'), x(b'optionfile=self.opt')),
    # regression (fixed in ampl/mp 084cb26): the literal text of a wildcard option's synonym pattern used to be accepted as a key,
    # the value landing on the entry addressed before (obj:2:priority=5 obj_*_priority=3 -> entry 2 became 3, no error)
    'T cxw',
    'O cxw int any ' + x(b'obj:*:priority') + ',' + x(b'obj_*_priority'),
    'C cx5 cxw 1 0 0 %s x %s=%s N' % (x(SOLVER), x(SOLVER + b'_options'), x(b'obj:2:priority=5 obj_*_priority=3')),
    # C11_counterexample_int_wrap: big=3000000000 stores -1294967296 in a 64-bit option
    'C cx3 cx 1 0 0 %s x - A,%s' % (x(SOLVER), x(b"big=3000000000")),
]


def build(ck):
    objs = ck.libmp_objects(flags=tuple(FLAGS))
    h = ck.objects([os.path.join(VERIF, 'harness', 'h_options.cc')], flags=FLAGS, tag='h')
    return ck.link('h_options', h + objs, flags=['-fsanitize=address,undefined'])


def generate(ck):
    """the op lines of this tier/seed: corpus, fixed regression cases, generated tables, well-formed and hostile streams"""
    rnd = random.Random(ck.seed * 1000003 + 11)
    GEN_STATS.clear()
    del FILE_REFS[:]
    quick = ck.tier == 'quick'
    # quick: sized so that the whole check stays well under a minute on an unloaded machine (fresh clones also pay the
    # one-off build of the sanitizer objects); the bulk of the sampling is in the thorough tier
    n_tables = 12 if quick else 60
    n_wf = 2500 if quick else 50000
    n_host = 4000 if quick else 100000

    lines = []
    meta = {}     # cid -> ('wf', tid, exp) | ('host', tid) | ('corpus', file)
    tables = {}
    # ---- corpus first
    corpus_files = sorted(glob.glob(os.path.join(VERIF, 'corpus', 'C11', '*.ops')))
    for cf in corpus_files:
        for l in open(cf).read().split('\n'):
            if l.strip() and not l.startswith('#'):
                lines.append(l)
                if l.startswith('C '):
                    meta[l.split(' ')[1]] = ('corpus', os.path.basename(cf))
    for l in COUNTEREXAMPLE_OPS:
        lines.append(l)
        if l.startswith('C '):
            meta[l.split(' ')[1]] = ('cx', None)
    # ---- generated tables
    for t in range(n_tables):
        tid = 't%d' % t
        tl, opts = gen_table(rnd, tid, quirks=False)
        lines += tl
        tables[tid] = (tl, opts)
    for t in range(max(3, n_tables // 2)):
        tid = 'q%d' % t
        tl, opts = gen_table(rnd, tid, quirks=True)
        lines += tl
        tables[tid] = (tl, opts)
    # solvers built with the standard options (InitMetaInfoAndOptions): version flag, option files,
    # wantsol/objno/bool options with throwing setters, a solver name of their own
    for t in range(max(4, n_tables // 2)):
        tid = 's%d' % t
        solver = rnd.choice([b'stdsolv', b'hsolve', b'minos', b'sx'])
        sflags = rnd.choice([0, 1, 2, 3, 3]) + rnd.choice([0, 0, 4]) + rnd.choice([0, 0, 8])
        tl, opts = gen_table(rnd, tid, quirks=False, std=(sflags, solver))
        lines += tl
        tables[tid] = (tl, opts, solver, sflags)
    # tables with list options (AddListOption); used by the well-formed stream only
    for t in range(max(2, n_tables // 4)):
        tid = 'l%d' % t
        tl, opts = gen_table(rnd, tid, quirks=False, lists=True)
        lines += tl
        tables[tid] = (tl, opts)
    FILE_COUNTER[0] = 0
    plain = [t for t in tables if t[0] in 'tsl']
    # ---- well-formed stream
    for i in range(n_wf):
        tid = rnd.choice(plain)
        cid = 'w%d' % i
        solver = tables[tid][2] if len(tables[tid]) > 2 else SOLVER
        ls, exp = gen_wellformed_case(rnd, cid, tid, tables[tid][1], solver)
        sf = tables[tid][3] if len(tables[tid]) > 3 else 0
        exp['vprints'] = 2 + (0 if sf & 4 else 1) + (1 if sf & 8 else 0)
        lines += ls
        meta[cid] = ('wf', tid, exp)
    # ---- hostile stream (not on the list-option tables: `=?` on an empty list option is UB in ListOption::GetValue)
    hfiles = 0
    hostile_tids = [t for t in tables if t[0] != 'l']
    for i in range(n_host):
        tid = rnd.choice(hostile_tids)
        cid = 'h%d' % i
        solver = tables[tid][2] if len(tables[tid]) > 2 else SOLVER
        if tid[0] == 's' and rnd.random() < 0.3:
            # a hostile option file, and a case that reads it
            fname = ('h%d.opt' % hfiles).encode()
            hfiles += 1
            content = b'\n'.join(gen_hostile_text(rnd, tables[tid][1], True).replace(b'.opt', b'_opt') for _ in range(rnd.choice([0, 1, 2, 4])))
            lines.append('F %s %s' % (x(fname), x(content)))
            FILE_REFS.append(fname)
        lines.append(gen_hostile_case(rnd, cid, tid, tables[tid][1], p_unterminated=0.2, solver=solver))
        meta[cid] = ('host', tid)
    return lines, meta, tables


def run(ck):
    if os.environ.get('VERIF_COVERAGE'):
        return coverage_run(ck)
    N_THEOREMS = 75
    # 1. regenerate the source-derived definitions (byte conditions, int conversion, statement skeletons, value kinds)
    gen = os.path.join(LEAN, 'MpVerif', 'Gen', 'C11Tok.lean')
    rc, out, err = sh([sys.executable, os.path.join(VERIF, 'translators', 'gen_c11.py'), REPO, gen, os.path.join(BUILD, 'tr')], timeout=600)
    ck.log((out.strip() or err.strip())[-300:])
    translator_ok = rc == 0
    if translator_ok:
        proof_ok, failing = ck.proof_stage('MpVerif.C11.Props', 'MpVerif/C11/Props.lean', 'C11_',
                                            ['MpVerif/C11/*.lean', 'MpVerif/Gen/C11Tok.lean'], expect_min=N_THEOREMS)
    else:
        # the translator met code it cannot translate: the tie is broken (the correspondence below still searches for an input)
        proof_ok, failing = False, ['translator: ' + (out + err).strip()[-400:]]
        ck.cov.update({'obligations': N_THEOREMS, 'discharged': 0, 'checker_cmd': 'translators/gen_c11.py failed'})
    ck.log('proof stage: ok=%s failing=%s' % (proof_ok, failing[:10]))
    if ck.tier == 'thorough' and proof_ok:
        badm = ck.leanchecker(['MpVerif.C11.Props'])
        if badm:
            failing += ['leanchecker rejected %s' % m for m in badm]
            proof_ok = False
    exe = build(ck)
    drv = ck.driver('drv_c11')
    lines, meta, tables = generate(ck)
    ops_path = os.path.join(BUILD, 'c11.%s.ops' % ck.tier)
    open(ops_path, 'w').write('\n'.join(lines) + '\n')

    il, ml, rc, err = run_ops(ck, exe, drv, ops_path, 'stream')
    hist = {'outcome': {}, 'errors_per_case': {}, 'stream': {}, 'len_bucket': {}}
    n_cases = n_same = 0
    overreads = []
    corr_bad = []
    oracle_bad = {}
    crashes = []
    if len(il) != len(lines) or len(ml) != len(lines):
        ck.add_violation('protocol:line-count', 'harness printed %d lines, model %d, for %d ops (rc=%s, stderr=%s)' % (len(il), len(ml), len(lines), rc, err[-300:]),
                         {'ops': ops_path}, found_input=False)
    distinct = set()
    for k, op in enumerate(lines):
        if k >= len(il) or k >= len(ml):
            break
        if not op.startswith('C '):
            if il[k] != ml[k]:
                corr_bad.append((op, il[k], ml[k]))
            continue
        cid = op.split(' ')[1]
        pi, pm = parse_result(il[k], False), parse_result(ml[k], True)
        n_cases += 1
        m = meta.get(cid, ('?',))
        hist['stream'][m[0]] = hist['stream'].get(m[0], 0) + 1
        oc = pi.get('outcome', 'raw')
        hist['outcome'][oc] = hist['outcome'].get(oc, 0) + 1
        ne = len(pi.get('errs', []))
        b = '0' if ne == 0 else '1' if ne == 1 else '2-5' if ne <= 5 else '6+'
        hist['errors_per_case'][b] = hist['errors_per_case'].get(b, 0) + 1
        L = len(op)
        lb = '<100' if L < 100 else '<400' if L < 400 else '<2000' if L < 2000 else '2000+'
        hist['len_bucket'][lb] = hist['len_bucket'].get(lb, 0) + 1
        distinct.add(il[k].split(' ', 2)[2] if il[k].count(' ') >= 2 else il[k])
        same = same_result(pi, pm)
        if same:
            n_same += 1
        else:
            corr_bad.append((op, il[k], ml[k]))
        if oc == 'overread':
            overreads.append((op, m))
        elif oc.startswith('crash') or 'raw' in pi:
            crashes.append((op, il[k], m))
        if cid == 'cx5' and not oc.startswith('crash') and not (pi.get('outcome') == 'ok' and pi.get('vals') == ['w(32:i5)'] and
                                                                 pi.get('errs', [])[:1] == ['u' + b'obj_*_priority'.hex()] and pi.get('ret') == '0'):
            # regression (fixed in ampl/mp 084cb26): the literal synonym pattern must be diagnosed as an unknown option
            # and entry 2 must keep the value 5
            oracle_bad.setdefault('wildcard-literal-synonym:sets-previous-entry', []).append(
                (op, 'the key obj_*_priority (literal text of a synonym pattern) must be reported as unknown and must not touch entry 2 (=5): got values %s, errors %s' % (pi.get('vals'), pi.get('errs')), 'cxw'))
        if cid == 'cx4' and not (pi.get('outcome') == 'error' and any(e.startswith('n') for e in pi.get('errs', []))) and not oc.startswith('crash'):
            oracle_bad.setdefault('optionfile:self-inclusion:not-reported', []).append((op, 'a self-including option file must end with the nesting error, got %s' % il[k][:200], 'cxs'))
        if m[0] == 'wf':
            for sig, msg in oracle_wellformed(pi, tables[m[1]][1], m[2]):
                oracle_bad.setdefault(sig, []).append((op, msg, m[1]))
        if n_cases % 997 == 0:
            ck.sample(op[:300] + '  =>  ' + il[k][:300])

    # ---- verdicts
    def table_lines(tid):
        return [l for l in lines if l[:2] in ('T ', 'O ') and l.split(' ')[1] == tid]

    def replay_obj(op, tid, extra=None):
        tl = table_lines(tid)
        o = {'ops': tl + [op], 'how': 'write "ops" one per line to a file F; build the harness as checks/c11.py:build() does; run `h_options F`; '
             'compare with `lean/.lake/build/bin/drv_c11 < F`; or `./check C11 --replay <this file>`'}
        if extra:
            o.update(extra)
        return o

    # (a) memory safety: over-reads
    if overreads:
        op, m = overreads[0]
        tid = op.split(' ')[2]
        rep, frames = symbolized_report(exe, table_lines(tid) + [op], BUILD)
        where = 'SkipToMatchingQuote' if any('SkipToMatchingQuote' in f for f in frames) else (frames[0] if frames else 'unknown')
        sig = 'unterminated-quote:over-read:%s' % where
        ck.add_violation(sig, 'heap-buffer-overflow READ beyond the terminating NUL of an option string (%d cases in this run; stack: %s)' % (len(overreads), ' <- '.join(frames[:4])),
                         replay_obj(op, tid, {'asan_report': rep, 'cases_in_run': len(overreads)}), found_input=True)
    for op, out, m in crashes[:5]:
        tid = op.split(' ')[2]
        if out.split(' ')[-1] in ('stack-overflow', 'signal-11') and op.split(' ')[1] == 'cx4':
            selfops = [l for l in COUNTEREXAMPLE_OPS if l.startswith('S cxs') or l.startswith('F ')] + [op]
            rep, frames = symbolized_report(exe, selfops, BUILD)
            ck.add_violation('optionfile:self-inclusion:stack-overflow',
                             'an option file that includes itself (optionfile=self.opt inside self.opt) recurses without bound: stack overflow (%s)' % ' <- '.join(dict.fromkeys(frames[:8])),
                             {'ops': selfops, 'asan_report': rep[:1500], 'how': 'run h_options on these ops; or ./check C11 --replay <this file>'}, found_input=True)
            continue
        ck.add_violation('memory-or-crash:%s' % out.split(' ')[-1], 'implementation died on option text: %s' % out, replay_obj(op, tid), found_input=True)
    # (b) oracle
    oracle_ops = set()
    for sig, lst in oracle_bad.items():
        op, msg, tid = lst[0]
        if ck.add_violation(sig, '%s (%d such cases in this run)' % (msg, len(lst)), replay_obj(op, tid, {'more': [l[1] for l in lst[1:4]]}), found_input=True):
            oracle_ops |= {l[0] for l in lst}     # not a known finding
    # (c) correspondence
    for op, a, b in corr_bad[:3]:
        tid = op.split(' ')[2] if op.startswith('C ') else None
        found = op in oracle_ops
        ck.add_violation('model-differs:%s' % (meta.get(op.split(' ')[1], ('table',))[0] if op.startswith('C ') else 'table'),
                         'Lean model and implementation disagree (%d cases): impl=%s model=%s' % (len(corr_bad), a[:300], b[:300]),
                         replay_obj(op, tid, {'impl': a, 'model': b}) if tid else {'op': op, 'impl': a, 'model': b}, found_input=found)
    # (d) obligations
    if not proof_ok:
        for fdecl in failing:
            ck.add_violation('obligation:%s' % fdecl, 'proof obligation no longer checks: %s' % fdecl,
                             {'theorem': fdecl, 'module': 'MpVerif.C11.Props', 'searched': '%d implementation cases' % n_cases}, found_input=False)

    ck.cov['evaluations'] = n_cases
    ck.cov['traces_validated_against_impl'] = n_same
    ck.cov['distinct_nontrivial'] = len(distinct)
    ck.cov['rule'] = 'distinct canonical result lines (outcome, errors, all option values, echo) of the real BasicSolver::ParseOptions over generated cases'
    ck.cov['exhaustive'] = False
    hist['wildcard_key_spellings'] = dict(GEN_STATS)
    ck.cov['generator_histogram'] = hist
    try:
        cj = json.load(open(os.path.join(VERIF, 'design_notes', 'coverage', 'C11.json')))
        ck.cov['anchor_line_cov'] = cj['anchor_line_cov']
        ck.cov['anchor_branch_cov'] = cj['anchor_branch_cov']
        ck.cov['mechanism_line_cov'] = cj['mechanism_line_cov']
        ck.cov['mechanism_branch_cov'] = cj['mechanism_branch_cov']
        ck.cov['coverage_note'] = 'gcov of the anchored files under the quick stream, measured by VERIF_COVERAGE=1 ./check C11 (design_notes/coverage/C11.md); mechanism_* = the functions named in anchors.mechanism and their callees'
    except Exception:
        pass
    ck.cov['correspondence'] = {'cases': n_cases, 'agree': n_same, 'disagree': len(corr_bad), 'over_reads_detected_by_asan': len(overreads)}
    ck.assumptions += [
        'C locale isspace/tolower/strtol/strtod (glibc); the numeric value of a real is delegated to libc strtod on the consumed text',
        'production build (-DNDEBUG): the asserts in wc_split/SkipToMatchingQuote are compiled out',
        'environment variable names contain no "="; option strings contain no NUL (C strings)',
        'memory safety (C11_in_bounds) is a theorem about the model\'s read positions; on the real code it is AddressSanitizer/UBSan evidence on the generated inputs',
    ]
    ck.level = 'proof'
    ck.cov['trusted_base'] += ['translators/gen_c11.py + clang-14 typed AST (byte conditions, long->int conversion, statement skeletons regenerated from src/solver.cc and solver-opt.h on every run); MpVerif/C11/CLib.lean: signed char, C-locale isspace',
                               'harness/h_options.cc + checks/c11.py generators/canonicaliser', 'AddressSanitizer/UBSan (g++ 12) for the memory-safety clause on sampled inputs']



# ----------------------------------------------------------------------------- coverage mode (VERIF_COVERAGE=1)

ANCHOR_FILES = ['src/solver.cc', 'include/mp/solver-opt.h', 'include/mp/solver-base.h', 'include/mp/option.h',
                'src/option.cc', 'include/mp/utils-string.h', 'src/utils_string.cc']
MECHANISM_FUNCS = ['SkipSpaces', 'SkipNonSpaces', 'SkipToEnd', 'SkipToMatchingQuote', 'ParseOptionString', 'ParseOptions',
                   'OptionHelper', 'TypedSolverOption', 'FindOption', 'wc_match', 'wc_split', 'HandleUnknownOption', 'ReportError',
                   'UseOptionFile', 'ProcessLines_AvoidComments', 'StoredOption', 'ListOption', 'ConcreteOption', 'SolverOption::SolverOption',
                   'AddOption', 'echo', 'quoted', 'split_string', 'OptionNameLess', 'VersionOption', 'BoolOption', 'ShowVersion',
                   'SetWantSol', 'SetObjNo', 'GetObjNo', 'GetWantSol', 'SetSolutionStub', 'GetSolutionStub', 'GetOptionFile']


def coverage_run(ck):
    """gcov line/branch coverage of the anchored files under the quick-tier input stream (not part of normal runs)"""
    import gzip, shutil, atexit
    evp = os.path.join(EVID, 'C11.json')
    if os.path.exists(evp):
        old = open(evp, 'rb').read()
        atexit.register(lambda: open(evp, 'wb').write(old))     # the coverage run is not a verdict: keep the evidence
    cdir = os.path.join(BUILD, 'cov11')
    shutil.rmtree(cdir, ignore_errors=True)
    os.makedirs(cdir)
    inc = ['-I' + os.path.join(REPO, 'include'), '-I' + os.path.join(REPO, 'src'), '-I' + os.path.join(VERIF, 'harness')]
    defs = ['-DMP_DATE=20240320', '-DMP_SYSINFO="Linux x86_64"', '-DMP_USE_ATOMIC', '-DMP_USE_HASH', '-DMP_USE_UNIQUE_PTR',
            '-DAMPL_MP_VERIF', '-DNDEBUG', '-DVERIF_COVERAGE']
    covsrc = [os.path.join(REPO, 'src', 'solver.cc'), os.path.join(REPO, 'src', 'option.cc'), os.path.join(REPO, 'src', 'utils_string.cc'),
              os.path.join(VERIF, 'harness', 'h_options.cc')]
    objs = []
    for src in covsrc:
        o = os.path.join(cdir, os.path.basename(src).replace('.', '_') + '.o')
        rc, out, err = sh(['g++', '-std=c++17', '-w', '-O0', '-g', '--coverage'] + defs + inc + ['-c', src, '-o', o], timeout=1800)
        if rc != 0:
            raise RuntimeError('coverage compile failed: ' + err[-2000:])
        objs.append(o)
    others = [o for o in ck.libmp_objects(flags=('-O0', '-DNDEBUG'))
              if not any(k in os.path.basename(o) for k in ('mp-solver_cc', 'mp-option_cc', 'mp-utils_string_cc'))]
    exe = os.path.join(cdir, 'h_options_cov')
    rc, out, err = sh(['g++', '--coverage'] + objs + others + ['-o', exe, '-ldl'], timeout=1800)
    if rc != 0:
        raise RuntimeError('coverage link failed: ' + err[-2000:])
    lines, meta, tables = generate(ck)
    ops_path = os.path.join(cdir, 'cov.ops')
    open(ops_path, 'w').write('\n'.join(lines) + '\n')
    with open(ops_path + '.impl', 'w') as f:
        subprocess.run([exe, ops_path, ops_path + '.stderr'], stdout=f, stderr=subprocess.PIPE, timeout=3000)
    rc, out, err = sh(['gcov-12', '-b', '-c', '--json-format', '-o', cdir] + [o[:-2] + '.gcda' for o in objs], cwd=cdir, timeout=1800)
    per_file = {}
    for gz in glob.glob(os.path.join(cdir, '*.gcov.json.gz')):
        data = json.load(gzip.open(gz))
        for f in data['files']:
            fn = os.path.normpath(os.path.join(data.get('current_working_directory', ''), f['file']))
            rel = None
            for a in ANCHOR_FILES:
                if fn.endswith(a):
                    rel = a
            if rel is None:
                continue
            d = per_file.setdefault(rel, {'lines': {}, 'branches': {}, 'funcs': {}})
            for fu in f['functions']:
                e = d['funcs'].setdefault((fu['demangled_name'], fu['start_line']), [fu['start_line'], fu['end_line'], 0])
                e[2] += fu['execution_count']
            for ln in f['lines']:
                key = ln['line_number']
                d['lines'][key] = d['lines'].get(key, 0) + ln['count']
                for bi, br in enumerate(ln['branches']):
                    if br.get('throw'):
                        continue      # exceptional edges of calls: not source-level decisions
                    bk = (key, ln.get('function_name', ''), bi)
                    d['branches'][bk] = d['branches'].get(bk, 0) + br['count']
    summary = {}
    md = ['# C11 coverage of the anchored files under the quick-tier input stream (seed %d)\n' % ck.seed,
          'Measured by `VERIF_COVERAGE=1 ./check C11` (g++-12 `--coverage -O0`, `gcov-12 -b -c`; exceptional call edges excluded from the branch count; template/inline code counted over all TUs that instantiate it: solver.cc, option.cc, utils_string.cc and the harness).\n']
    tl = tb = cl = cb = 0
    mech_rows = []
    for rel in ANCHOR_FILES:
        d = per_file.get(rel)
        if not d:
            md.append('* `%s`: no executable lines seen by gcov' % rel)
            continue
        nl, hl = len(d['lines']), sum(1 for v in d['lines'].values() if v > 0)
        nb, hb = len(d['branches']), sum(1 for v in d['branches'].values() if v > 0)
        summary[rel] = {'lines': nl, 'lines_hit': hl, 'branches': nb, 'branches_hit': hb}
        md.append('* `%s`: lines %d/%d (%.1f%%), branches %d/%d (%.1f%%)' % (rel, hl, nl, 100.0 * hl / max(nl, 1), hb, nb, 100.0 * hb / max(nb, 1)))
        for (name, st), (s0, e0, cnt) in sorted(d['funcs'].items(), key=lambda kv: kv[1][0]):
            if not any(k in name for k in MECHANISM_FUNCS):
                continue
            ls = [k for k in d['lines'] if s0 <= k <= e0]
            ul = sorted(k for k in ls if d['lines'][k] == 0)
            bs = [k for k in d['branches'] if s0 <= k[0] <= e0]
            ub = sorted({k[0] for k in bs if d['branches'][k] == 0})
            tl += len(ls); cl += len(ls) - len(ul); tb += len(bs); cb += len(bs) - len([k for k in bs if d['branches'][k] == 0])
            if cnt == 0 or ul or ub:
                mech_rows.append('| `%s:%d` | `%s` | %s | %s | %s |' % (rel, s0, name[:90], 'never called' if cnt == 0 else 'called', ','.join(map(str, ul)) or '-', ','.join(map(str, ub)) or '-'))
    md.append('\nMechanism functions (those named in anchors.mechanism and what they call): lines %d/%d (%.1f%%), branches %d/%d (%.1f%%)\n' % (cl, tl, 100.0 * cl / max(tl, 1), cb, tb, 100.0 * cb / max(tb, 1)))
    md.append('| where | function | status | uncovered lines | lines with an untaken branch |\n|---|---|---|---|---|')
    md += mech_rows
    os.makedirs(os.path.join(VERIF, 'design_notes', 'coverage'), exist_ok=True)
    open(os.path.join(VERIF, 'design_notes', 'coverage', 'C11.measured.md'), 'w').write('\n'.join(md) + '\n')
    al = sum(v['lines'] for v in summary.values()); ah = sum(v['lines_hit'] for v in summary.values())
    ab = sum(v['branches'] for v in summary.values()); abh = sum(v['branches_hit'] for v in summary.values())
    js = {'seed': ck.seed, 'tier': ck.tier, 'anchor_line_cov': round(100.0 * ah / max(al, 1), 1), 'anchor_branch_cov': round(100.0 * abh / max(ab, 1), 1),
          'mechanism_line_cov': round(100.0 * cl / max(tl, 1), 1), 'mechanism_branch_cov': round(100.0 * cb / max(tb, 1), 1), 'per_file': summary}
    # which arms of the Lean model the same stream takes (driver `trace` mode)
    drv = ck.driver('drv_c11')
    arms = {}
    with open(ops_path) as fi:
        pr = subprocess.run([drv, 'trace'], stdin=fi, stdout=subprocess.PIPE, text=True, timeout=3000)
    for l in pr.stdout.split('\n'):
        if l.startswith('X '):
            for a in l[2:].split(','):
                if a:
                    arms[a] = arms.get(a, 0) + 1
    js['model_arms_cases'] = dict(sorted(arms.items()))
    md2 = ['\n## Arms of the Lean model taken by the same stream (number of cases in which the arm is taken)\n']
    md2 += ['* `%s`: %d' % kv for kv in sorted(arms.items())]
    open(os.path.join(VERIF, 'design_notes', 'coverage', 'C11.measured.md'), 'a').write('\n'.join(md2) + '\n')
    json.dump(js, open(os.path.join(VERIF, 'design_notes', 'coverage', 'C11.json'), 'w'), indent=1)
    ck.log('coverage: anchors lines %.1f%% branches %.1f%%; mechanism functions lines %.1f%% branches %.1f%%' %
           (js['anchor_line_cov'], js['anchor_branch_cov'], js['mechanism_line_cov'], js['mechanism_branch_cov']))
    ck.cov.update({'obligations': 0, 'discharged': 0, 'checker_cmd': 'coverage mode', 'evaluations': len(lines)})


def replay(ck, path):
    obj = json.load(open(path))
    ops = obj['replay']['ops'] if 'replay' in obj else obj['ops']
    exe = build(ck)
    drv = ck.driver('drv_c11')
    p = os.path.join(BUILD, 'c11.replay.ops')
    open(p, 'w').write('\n'.join(ops) + '\n')
    il, ml, rc, err = run_ops(ck, exe, drv, p, 'replay')
    for op, a, b in zip(ops, il, ml):
        print('op   :', op)
        print('impl :', a)
        print('model:', b)
    rep, frames = symbolized_report(exe, ops, BUILD)
    if frames:
        print('sanitizer stack:', ' <- '.join(frames))
    return 0

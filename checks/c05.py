"""C05 — a written .sol file is read back as the same solution."""
import os, sys, subprocess, struct, math, random, re, json
from fractions import Fraction
from common import *
sys.path.insert(0, os.path.join(VERIF, 'gen'))
import solgen
import c14 as C14

SAN = C14.SAN
READALL = (0, 'all', 'all', 'all')


# ---------------------------------------------------------------- generator of solutions
def fmt16(x):
    return ('%.16g' % x).encode()


def real_field(x):
    s = struct.pack('<d', x).hex() + '/' + fmt16(x).hex()
    return s + '/Z' if x == 0 else s


MSG_ALPHA = b'abcdefghijklmnopqrstuvwxyzABCDEFGHIJKLMNOPQRSTUVWXYZ 0123456789:.,;=-+_()%\\\t/!?*[]{}<>|~^#@$&\'"`'


def gen_msg(rng, hostile):
    nl = rng.choice([0, 1, 1, 2, 3, 6])
    lines = []
    for i in range(nl):
        k = rng.choice([0, 1, 5, 20, 60, 200, 509, 510])
        ln = bytes(rng.choice(MSG_ALPHA) for _ in range(k))
        lines.append(ln)
    if lines and rng.random() < 0.15:
        lines[0] = b'\b' * rng.randint(1, 5) + lines[0]
    if hostile:
        r = rng.random()
        if r < 0.3 and lines:
            i = rng.randrange(len(lines))
            lines[i] = lines[i] + b'\r'
        elif r < 0.5:
            lines.append(b'x' * rng.choice([511, 1022]))
        elif r < 0.7 and len(lines) > 1:
            lines[-1] = b'\b\b' + lines[-1]
        elif r < 0.8:
            lines.insert(rng.randrange(len(lines) + 1), b'\r')
        else:
            lines.append(b'y' * rng.choice([512, 600, 1500]))
    msg = b'\n'.join(lines)
    if rng.random() < 0.3:
        msg += b'\n'
    return msg


NAMES = [b'sstatus', b'x', b'iis', b'priority', b'ref', b'a_b', b'dunbdd', b'bestbound', b'zz', b'n' * 60, b'q' * 509]
TABLES = [b'', b'', b'0\tnone\tnot in basis', b'0\tnone\tnot in basis\n1\tbas\tbasic\n2\tsup\tsuperbasic',
          b'1 low\n2 upp\n3 equ\n4 btw\n', b'x', b'a\nb\n\nd\ne\nf', b'1\tx\ty' * 80 + b'\nshort', b'w' * 509, b'long first line ' * 50 + b'\nz']


def gen_sol(rng, family):
    s = {}
    hostile_msg = family == 'hostile-message'
    s['msg'] = gen_msg(rng, hostile_msg)
    if family == 'options-0':
        s['options'] = []
    elif family == 'options-12':
        s['options'] = [rng.randint(0, 5) for _ in range(rng.choice([1, 2]))]
    elif family == 'options-vbtol':
        s['options'] = [rng.randint(0, 5) for _ in range(rng.randint(3, 9))]
        s['options'][1] = 3
    else:
        s['options'] = [rng.choice([0, 1, 2, 4, 7, 100, -1]) for _ in range(rng.randint(3, 9))]
        if s['options'][1] == 3:
            s['options'][1] = 1
    maxn = rng.choice([0, 1, 3, 12, 40])
    nd = rng.choice([0, rng.randint(0, maxn), maxn])
    nv = rng.choice([0, rng.randint(0, maxn), maxn])
    nonfinite = family == 'nonfinite'
    def val():
        if nonfinite and rng.random() < 0.3:
            return rng.choice([math.inf, -math.inf, math.nan])
        return solgen.rand_double(rng)
    s['duals'] = [val() for _ in range(nd)]
    s['primals'] = [val() for _ in range(nv)]
    s['ncons'] = nd + rng.choice([0, 0, 2, 3, 7])
    s['nvars'] = nv + rng.choice([0, 0, 2, 3, 7])
    s['objno'] = rng.choice([0, 1, 1, 2, 5])
    s['status'] = rng.choice([0, 100, 200, 299, 500, 567, -1, 999, 2147483647, -2147483648])
    sufs = []
    used = set()
    for _ in range(rng.choice([0, 0, 1, 2, 4, 6])):
        kind = rng.choice([0, 1, 2, 3]) | rng.choice([0, 4]) | rng.choice([0, 0, 8]) | rng.choice([16, 16, 16, 0]) | rng.choice([0, 32])
        name = rng.choice(NAMES)
        if (kind & 3, name) in used:
            continue
        used.add((kind & 3, name))
        table = rng.choice(TABLES)
        n = rng.choice([0, 1, 2, 5, 9])
        if kind & 4:
            vals = [rng.choice([0.0, -0.0, solgen.rand_double(rng), solgen.rand_double(rng)]) for _ in range(n)]
            if nonfinite and vals:
                vals[rng.randrange(len(vals))] = rng.choice([math.inf, -math.inf, math.nan])
        else:
            vals = [rng.choice([0, 0, 1, -1, 7, 2147483647, -2147483648, rng.randint(-1000, 1000)]) for _ in range(n)]
        sufs.append((kind, name, table, vals))
    s['sufs'] = sufs
    s['family'] = family
    # writer entry point: mp::WriteSolFile directly, or through mp::SolutionWriterImpl (final <stub>.sol / intermediate <solstub>N.sol):
    # there the vectors are either absent or have exactly the problem's sizes, which need not be equal (non-square problems)
    s['via'] = rng.choice(['direct', 'direct', 'direct', 'final', 'stub', 'stub', 'multi', 'ovr-rel', 'ovr-abs'])
    if s['via'] != 'direct':
        s['ncons'] = rng.choice([0, 1, 2, 3, 7, 12])
        s['nvars'] = rng.choice([0, 1, 2, 5, 9, 12])
        s['duals'] = [val() for _ in range(s['ncons'])] if rng.random() < 0.8 else []
        s['primals'] = [val() for _ in range(s['nvars'])] if rng.random() < 0.85 else []
        s['status'] = rng.choice([0, 100, 200, 299, 500, 567, -1, 999])
        if s['via'] == 'multi':
            # need_multiple_solutions(): k intermediate solutions, then HandleSolution adds the suffixes nsol / npool (problem and objective kind)
            k, nobj = rng.choice([0, 1, 3]), rng.choice([0, 1, 1, 2])
            s['via'] = 'multi:%d:%d' % (k, nobj)
            s['sufs'] = [x for x in s['sufs'] if x[1] not in (b'nsol', b'npool')]
            for nm in (b'nsol', b'npool'):
                s['sufs'].append((3 | 16 | 64, nm, b'', [k]))
                if nobj:
                    s['sufs'].append((2 | 16 | 64, nm, b'', [k] + [0] * (nobj - 1)))
        s['family'] = family + ':' + s['via'].split(':')[0]
    return s


def set_order(sufs):
    """order in which WriteSolFile visits the suffixes: kinds VAR, CON, OBJ, PROBLEM; inside a SuffixSet by (len(name), name)"""
    out = []
    for k in range(4):
        out += sorted([x for x in sufs if x[0] & 3 == k], key=lambda x: (len(x[1]), x[1]))
    return out


def sol_line(cid, s, nvd, ncd):
    def reals(v):
        return ','.join(real_field(x) for x in v) or '-'
    sufs = []
    for kind, name, table, vals in set_order(s['sufs']):
        v = (reals(vals) if kind & 4 else ','.join(str(x) for x in vals)) or '-'
        sufs.append('%d:%s:%s:%s' % (kind, name.hex() or '-', table.hex() or '-', v))
    # integral reals of any size (except -0.0; all doubles >= 2^53 are integral): the '%.16g' token and the integer, for the sampled tie of the text model
    # `fmtG16Int` (plain numeral below 10^16, scientific notation above); the token is the real writer's whenever the file bytes agree (checked per case)
    ints = []
    allreals = list(s['duals']) + list(s['primals']) + [v for k, _, _, vals in s['sufs'] if k & 4 for v in vals]
    for x in allreals:
        if math.isfinite(x) and x == math.floor(x) and not (x == 0 and math.copysign(1, x) < 0):
            ints.append('%s:%d' % (fmt16(x).hex(), int(x)))
    return 'sol %s %d %d %d %s %s %d %d %s %s %d %d %s %s ints=%s' % (
        cid, C14.FX[0], nvd, ncd, s['msg'].hex() or '-', ','.join(map(str, s['options'])) or '-', s['ncons'], s['nvars'],
        reals(s['duals']), reals(s['primals']), s['objno'], s['status'], ';'.join(sufs) or '-', s.get('via', 'direct'), ','.join(ints) or '-')


# ---------------------------------------------------------------- the property, evaluated on what the real writer+reader did
def same_real(x, y):
    """property clause: integers and integral reals below 1e15 exactly, other finite reals within 1e-15 relative,
    non-finite only as the same non-finite"""
    if x != x:
        return y != y
    if math.isinf(x) or math.isinf(y):
        return x == y
    if x == y:
        return True
    if x == math.floor(x) and abs(x) < 1e15:
        return False
    return abs(x - y) <= 1e-15 * abs(x)


def undo_R(v):
    return math.nan if v == 'Rnan' else struct.unpack('<d', bytes.fromhex(v[1:]))[0]


def side_conditions(s):
    """which documented format restriction / known defect class the solution falls into (None = must round-trip)"""
    lines = s['msg'].split(b'\n')
    n = len(s['options'])
    if n == 0:
        return 'options:zero-options'
    if n in (1, 2):
        return 'options:count-1-or-2'
    if len(s['options']) > 1 and s['options'][1] == 3:
        return 'options:vbtol-flag-3'
    if any(l.endswith(b'\r') for l in lines):
        return 'message:line-ends-with-cr'
    if any(len(l) > 0 and len(l) % 511 == 0 for l in lines):
        return 'message:line-length-multiple-of-511'
    first_bs = next((i for i, l in enumerate(lines) if l.startswith(b'\b')), None)
    if first_bs not in (None, 0):
        return 'message:backspace-after-first-line'
    reals = s['duals'] + s['primals'] + [v for k, _, _, vals in s['sufs'] if k & 4 and k & 16 for v in vals]
    if any(math.isfinite(x) and math.isinf(float('%.16g' % x)) for x in reals):
        return 'real:rounds-to-overflow-at-16-digits'
    for kind, name, table, vals in s['sufs']:
        if kind & 16:
            if len(name) > 509 or (table and len(table.split(b'\n')[-1]) > 509):
                return 'suffix:name-or-last-table-line-over-509'
    return None


def oracle(s, line, nvd, ncd):
    """list of (part, description) where what was read differs from what was written"""
    bad = []
    p = line.split(' ')
    if p[1] == 'ABORT' or p[1] == 'EXC':
        return [('abort', 'writer/reader aborted: %s' % ' '.join(p[1:4]))]
    head, _, evs = line.partition(' || ')[2].partition(' | ')
    code = head.split(' ')[0].split('=')[1]
    events = [e.split(' ') for e in evs.split(' ; ')] if evs else []
    nonfinite_vec = any(not math.isfinite(x) for x in s['duals'] + s['primals'])
    if code != 'OK':
        if nonfinite_vec and code in ('BadLine',):
            return []          # rejection clause: a non-finite value may be rejected with an error code
        return [('result', 'reader returned %s for a file the writer produced' % code)]
    # expected sequence
    i = 0
    def nxt(kind):
        nonlocal i
        if i < len(events) and events[i][0] == kind:
            i += 1
            return events[i - 1]
        return None
    # message: line by line, empty lines come back as ' '
    lines = s['msg'].split(b'\n')
    if lines and lines[-1] == b'':
        lines = lines[:-1]
    want = [l if l else b' ' for l in lines]
    nbs = 0
    if want and want[0].startswith(b'\b'):
        nbs = len(want[0]) - len(want[0].lstrip(b'\b'))
        want[0] = want[0][nbs:]
    wtext = b''.join(l + b'\n' for l in want)
    e = nxt('msg')
    if wtext:
        if e is None or bytes.fromhex(e[1] if e[1] != '-' else '') != wtext or int(e[2]) != nbs:
            bad.append(('message', 'message read back differently: wrote %r, read %r' % (wtext[:80], e and bytes.fromhex(e[1] if e[1] != '-' else '')[:80])))
    elif e is not None:
        bad.append(('message', 'empty message read back as %r' % (e,)))
    e = nxt('opts')
    ints = [len(s['options'])] + s['options'] + [s['ncons'], len(s['duals']), s['nvars'], len(s['primals'])]
    if e is None or e[1] != ','.join(map(str, ints)) or e[2] != '0':
        bad.append(('options', 'options block: wrote %s, read %s' % (ints, e and e[1:3])))
    for tag, vals in (('dual', s['duals']), ('primal', s['primals'])):
        if not vals:
            continue
        e = nxt(tag)
        if e is None or int(e[1]) != len(vals) or e[2] != 'OK' or e[3] != '0':
            bad.append((tag, '%s vector of %d values: read %s' % (tag, len(vals), e and e[1:4])))
            continue
        got = [undo_R(v) for v in e[4].split(',')] if e[4] != '-' else []
        if len(got) != len(vals) or not all(same_real(x, y) for x, y in zip(vals, got)):
            k = next((k for k, (x, y) in enumerate(zip(vals, got)) if not same_real(x, y)), None)
            bad.append((tag, '%s value #%s: wrote %r read %r' % (tag, k, vals[k] if k is not None else None, got[k] if k is not None else None)))
    e = nxt('objno')
    if e is None or e[1] != 'I%d' % (s['objno'] - 1) or e[2] != 'I%d' % s['status']:
        bad.append(('objno', 'objno/solve code: wrote %d %d, read %s' % (s['objno'] - 1, s['status'], e and e[1:3])))
    for kind, name, table, vals in set_order(s['sufs']):
        if not kind & 16:
            continue
        e = nxt('suf')
        ent = [(k, v) for k, v in enumerate(vals) if v != 0]
        if e is None:
            bad.append(('suffix', 'suffix %r not delivered' % name))
            continue
        ok = int(e[1]) == kind % 16 and e[2] == (name.hex() or '-') and e[3] == (table.hex() or '-') and int(e[4]) == len(ent) and e[5] == 'OK' and e[6] == '0'
        got = []
        if ok and e[7] != '-':
            for it in e[7].split(','):
                k, v = it.split(':')
                got.append((int(k), undo_R(v) if v[0] == 'R' else int(v[1:])))
        if ok:
            ok = len(got) == len(ent) and all(a == c and (same_real(b, d) if kind & 4 else b == d) for (a, b), (c, d) in zip(ent, got))
        if not ok and kind & 4 and e[5] == 'OK':
            miss = [(k, v) for k, v in ent if isinstance(v, float) and math.isnan(v) and k not in [g[0] for g in got]]
            if miss:
                bad.append(('suffix', 'NaN entry of a real-valued output suffix not written: suffix %r kind %d, entries %s written to the solver, entry #%d (NaN) is not in the file (read %s)'
                            % (name[:20], kind % 16, ent[:4], miss[0][0], e[1:8])))
                continue
        if not ok:
            bad.append(('suffix', 'suffix %r kind %d: wrote table %r entries %s, read %s' % (name[:20], kind % 16, table[:30], ent[:4], e[1:8])))
    if i != len(events):
        bad.append(('extra', 'unexpected extra event %s' % events[i][:3]))
    return bad


ANCHORS = ['include/mp/sol.h', 'src/sol.cc', 'include/mp/solver-io.h', 'include/mp/suffix.h', 'nl-writer2/include/mp/sol-reader2.h',
           'nl-writer2/include/mp/sol-reader2.hpp', 'nl-writer2/include/mp/sol-handler.h', 'nl-writer2/src/nl-utils.cc', 'include/mp/format.h', 'src/format.cc']
MECH = [r'WriteSolFile', r'WriteSuffixes', r'SuffixValue', r'WriteMessage', r'gsufread', r'sufheadcheck', r'decstring', r'mp::Read', r'Lget', r'ReadSOLFile',
        r'SolutionWriterImpl', r'SolutionAdapter', r'VisitValues', r'CheckReader', r'VecReader']


def make_cases(ck, n_cases):
    rng = random.Random(ck.seed * 1000003 + 5)
    fams = ['plain'] * 10 + ['nonfinite'] * 2 + ['hostile-message'] * 2 + ['options-0', 'options-12', 'options-vbtol']
    cases = []
    cdir = os.path.join(VERIF, 'corpus', 'C05')
    if os.path.isdir(cdir):
        for fn in sorted(os.listdir(cdir)):
            if fn.endswith('.json'):
                c = json.load(open(os.path.join(cdir, fn)))
                s = dict(msg=bytes.fromhex(c['msg']), options=c['options'], ncons=c['ncons'], nvars=c['nvars'], duals=c['duals'], primals=c['primals'],
                         objno=c['objno'], status=c['status'], sufs=[(k, bytes.fromhex(n), bytes.fromhex(t), v) for k, n, t, v in c.get('sufs', [])],
                         family='corpus:' + fn[:-5], via=c.get('via', 'direct'))
                cases.append((s, c.get('nvd', s['nvars']), c.get('ncd', s['ncons'])))
    while len(cases) < n_cases:
        s = gen_sol(rng, rng.choice(fams))
        nvd = s['nvars'] if rng.random() < 0.8 else len(s['primals'])
        ncd = s['ncons'] if rng.random() < 0.8 else len(s['duals'])
        cases.append((s, nvd, ncd))
    return cases


def coverage_run(ck):
    import covtool
    C14.FX[0] = 3
    cases = make_cases(ck, 800)
    covdir = os.path.join(BUILD, 'cov_c05')
    cov_src = [os.path.join(VERIF, 'harness', 'h_solrt.cc'), os.path.join(REPO, 'src', 'sol.cc'), os.path.join(REPO, 'src', 'format.cc'),
               os.path.join(REPO, 'nl-writer2', 'src', 'nl-utils.cc')]
    others = [o for o in ck.libmp_objects(flags=('-O0', '-g')) if '-sol_cc-' not in o and '-format_cc-' not in o]
    exe = covtool.build(covdir, cov_src, extra_objs=others)
    cf = os.path.join(covdir, 'cases.txt')
    with open(cf, 'w') as f:
        for k, (s, nvd, ncd) in enumerate(cases):
            f.write(sol_line('s%d' % k, s, nvd, ncd) + '\n')
    sh([exe, cf, covdir], timeout=3000)
    sh([exe, 'codec', '20000', '1'], timeout=3000)
    files = covtool.collect(covdir)
    res = covtool.summarize(files, ANCHORS, MECH)
    p = covtool.write_report('C05', res)
    ck.log('coverage: anchored files %s %% lines, %s %% branches; mechanisms %s / %s; %d uncovered items -> %s'
           % (res['anchor_line_cov'], res['anchor_branch_cov'], res['mechanism_line_cov'], res['mechanism_branch_cov'], len(res['mechanism_uncovered']), p))
    ck.cov.update({'evaluations': len(cases), 'distinct_nontrivial': 0, 'rule': 'coverage measurement run (VERIF_COVERAGE=1), no verdict', 'obligations': 0, 'discharged': 0})


def run(ck):
    if os.environ.get('VERIF_COVERAGE'):
        return coverage_run(ck)
    ck.level = 'proof'
    tr_err = C14.regen_guards(ck)
    if tr_err:
        ck.add_violation('translator:sol-guards', 'the integer decisions / format strings of the SOL writer and reader could not be re-translated from the source: %s' % tr_err,
                         {'translator': 'translators/gen_solguards.py', 'output': tr_err}, found_input=False)
    proof_ok, failing = ck.proof_stage('MpVerif.C05.Props', 'MpVerif/C05/Props.lean', 'C05_',
                                        ['MpVerif/C05/*.lean', 'MpVerif/C14/Model*.lean', 'MpVerif/C14/Lemmas*.lean', 'MpVerif/Gen/SolGuards.lean'], expect_min=34)
    ck.log('proof stage: ok=%s failing=%s' % (proof_ok, failing[:12]))
    if ck.tier == 'thorough' and proof_ok:
        bad = ck.leanchecker(['MpVerif.C05.Props'])
        if bad:
            failing += ['leanchecker rejected %s' % m for m in bad]
            proof_ok = False

    # which variant of the reader model applies to the tree under test (see checks/c14.py)
    C14.decide_variant(ck, 'probe05')
    n_cases = 800 if ck.tier == 'quick' else 20000
    cases = make_cases(ck, n_cases)

    work = os.path.join(BUILD, 'c05work')
    os.makedirs(work, exist_ok=True)
    cf = os.path.join(work, 'main.cases')
    with open(cf, 'w') as f:
        for k, (s, nvd, ncd) in enumerate(cases):
            f.write(sol_line('s%d' % k, s, nvd, ncd) + '\n')
    objs = ck.objects([os.path.join(VERIF, 'harness', 'h_solrt.cc'), os.path.join(REPO, 'nl-writer2', 'src', 'nl-utils.cc')], flags=SAN, tag='c05')
    exe = ck.link('h_solrt', objs + ck.libmp_objects(flags=tuple(SAN)), flags=['-fsanitize=address,undefined'])
    env = {'ASAN_OPTIONS': 'detect_leaks=0', 'UBSAN_OPTIONS': 'print_stacktrace=0'}
    rc, out, err = sh([exe, cf, work], env=env, timeout=3000)
    impl = out.split('\n')[:-1]
    if rc != 0 or len(impl) != len(cases):
        raise RuntimeError('harness h_solrt failed: rc=%s, %d lines for %d cases: %s' % (rc, len(impl), len(cases), err[-800:]))
    drv = ck.driver('drv_c05')
    with open(cf) as fi:
        p = subprocess.run([drv], stdin=fi, capture_output=True, text=True, timeout=3000)
    model = p.stdout.split('\n')[:-1]
    if p.returncode != 0 or len(model) != len(cases):
        raise RuntimeError('lean driver drv_c05 failed: rc=%s, %d lines for %d cases: %s' % (p.returncode, len(model), len(cases), p.stderr[-800:]))

    fam = {}
    classes = {}
    corr_bad = []
    n_bytes_equal = 0
    n_roundtrip_ok = 0
    n_reals = 0
    n_good = 0
    n_int = 0
    n_int_big = 0
    n_dec = [0, 0]
    dec_expect = {}
    n_assume = [0, 0]
    n_goodsuf = 0
    distinct = set()
    for k, ((s, nvd, ncd), il, ml) in enumerate(zip(cases, impl, model)):
        fam[s['family']] = fam.get(s['family'], 0) + 1
        il = C14.canon_impl(il)
        cl = sol_line('s%d' % k, s, nvd, ncd)
        if ml == 'bad-op' or il == 'bad-op' or ' || ' not in ml:
            corr_bad.append((cl, il, ml, 'bad-op'))
            continue
        if ' || ' not in il:
            sig = 'writer-or-reader-abort'
            if s.get('via', '').startswith('multi:') and s['via'].endswith(':0'):
                sig = 'writer:need-multiple-solutions-without-objective:abort'
            ck.add_violation(sig, 'real writer/reader aborted: %s [family %s, via %s]' % (il[:100], s['family'], s.get('via')), {'case': cl, 'impl': il})
            continue
        ib, _, ir = il.partition(' || ')
        mb, _, mr = ml.partition(' || ')
        mi = re.search(r' intok=(\d+)/(\d+) ', mb)
        if mi:
            mb = mb.replace(mi.group(0), ' ')
            n_int += int(mi.group(2))
            n_int_big += sum(1 for x in s['duals'] + s['primals'] + [v for k5, _, _, vals in s['sufs'] if k5 & 4 for v in vals]
                             if math.isfinite(x) and abs(x) >= 1e16)
            if mi.group(1) != mi.group(2):
                ck.add_violation('text-model:fmtG16Int', 'the text model fmtG16Int of %%.16g differs from the token printed for an integral real: %s' % mi.group(0),
                                 {'case': cl, 'model': mb[:200]})
        md = re.search(r' dec=(\S+) ', mb)
        if md:
            mb = mb.replace(md.group(0), ' ')
            decs = md.group(1).split(',') if md.group(1) != '-' else []
            vals5 = s['duals'] + s['primals']
            for x5, d5 in zip(vals5, decs):
                tok5 = fmt16(x5).decode()
                if not math.isfinite(x5):
                    ok5 = d5 == 'x'
                    want5 = None
                elif d5 == 'x':
                    ok5, want5 = False, None
                else:
                    m5, e5 = d5.split(':')
                    fr = Fraction(int(m5)) * Fraction(10) ** int(e5)
                    try:
                        want5 = float(fr)          # correctly rounded (CPython big-integer division)
                        if fr == 0 and tok5.startswith('-'):
                            want5 = -0.0           # a rational has no signed zero: the sign of a zero is the text's leading '-'
                    except OverflowError:
                        want5 = math.inf if fr > 0 else -math.inf
                    ok5 = struct.pack('<d', want5) == struct.pack('<d', float(tok5))
                    # the two ASSUMPTIONS of C05_real_vector_within_1e15, sampled: G16 (the printed decimal is a nearest 16-significant-digit decimal of x)
                    # and CorrRounded (the double read back is within 2^-53 relative of the decimal, normal range)
                    if x5 != 0 and int(m5) != 0:
                        s5 = Fraction(10) ** (int(e5) + len(str(abs(int(m5)))) - 16)
                        n_assume[0] += 1
                        if not (10 ** 15 * s5 <= abs(fr) and abs(Fraction(x5) - fr) <= s5 / 2):
                            ck.add_violation('assumption:G16', 'the text %r printed for %r is not a nearest 16-significant-digit decimal (unit %s)' % (tok5, x5, s5), {'case': cl})
                        if Fraction(2) ** -1022 <= abs(fr) <= Fraction(sys.float_info.max):
                            n_assume[1] += 1
                            if not abs(Fraction(want5) - fr) <= abs(fr) / 2 ** 53:
                                ck.add_violation('assumption:CorrRounded', 'the nearest double %r of the text %r is not within 2^-53 relative' % (want5, tok5), {'case': cl})
                    dec_expect.setdefault(k, []).append(want5)
                n_dec[0] += 1
                if not ok5:
                    ck.add_violation('text-model:parseDec', 'exact value model parseDec of the text %r gives %s, rounded %r; strtod gives %r' % (tok5, d5, want5, float(tok5)),
                                     {'case': cl})
        mg = re.search(r' good=(\d+)/(\d+) goodsuf=(\d+)/(\d+) ', mb)
        mb = mb.replace(mg.group(0), ' ') if mg else mb
        if mg and mg.group(3) != mg.group(4):
            corr_bad.append((cl, '', mb[:80], 'codec hypothesis GoodSufTok fails on the printed text of a suffix value: %s' % mg.group(0)))
        elif mg:
            n_goodsuf += int(mg.group(3))
        # codec hypothesis GoodNum, evaluated by the Lean driver on the text of every vector value
        finite = sum(1 for x in s['duals'] + s['primals'] if math.isfinite(x))
        if not mg or int(mg.group(1)) != finite or int(mg.group(2)) != len(s['duals']) + len(s['primals']):
            corr_bad.append((cl, '', mb[:80], 'codec hypothesis GoodNum fails on the printed text of a finite real (or holds on a non-finite one): %s, %d finite' % (mg and mg.group(0), finite)))
        else:
            n_good += finite
        n_reals += len(s['duals']) + len(s['primals'])
        # writer correspondence: bytes of the file
        if ib != mb:
            corr_bad.append((cl, ib[:400], mb[:400], 'bytes written by mp::WriteSolFile differ from writeSol'))
        else:
            n_bytes_equal += 1
        # reader correspondence on the written file
        try:
            exp, tag = C14.norm_model(ib.split(' ')[0] + ' ' + mr, False)
        except Exception as e:
            exp, tag = 'cannot interpret model line: %r' % (e,), None
        if tag is None and exp != ib.split(' ')[0] + ' ' + ir:
            corr_bad.append((cl, ir[:400], exp[:400], 'events read by mp::ReadSOLFile differ from readSol on the same bytes'))
        # sampled tie of the exact-value model to the real strtod: the double the real reader delivered = the correctly rounded value of parseDec(text)
        exp5 = dec_expect.get(k)
        if exp5 is not None and ib == mb and side_conditions(s) is None and all(math.isfinite(x) for x in s['duals'] + s['primals']):
            got5 = []
            for e5 in ir.partition(' | ')[2].split(' ; '):
                p5 = e5.split(' ')
                if p5[0] in ('dual', 'primal') and len(p5) >= 5 and p5[2] == 'OK' and p5[4] != '-':
                    got5 += [undo_R(v) for v in p5[4].split(',')]
            if len(got5) == len(exp5):
                n_dec[1] += len(got5)
                for a5, b5 in zip(exp5, got5):
                    if struct.pack('<d', a5) != struct.pack('<d', b5):
                        ck.add_violation('text-model:parseDec-vs-reader', 'the real reader delivered %r for a text whose exact value (parseDec) rounds to %r' % (b5, a5),
                                         {'case': cl, 'impl': il[:2000]})
                        break
        # the property itself on what the real code did
        bad = oracle(s, il, nvd, ncd)
        sc = side_conditions(s)
        distinct.add(ir)
        if not bad:
            n_roundtrip_ok += 1
        for part, what in bad[:1]:
            sig = ('%s:%s' % (sc, part)) if sc else 'roundtrip:%s' % part
            classes[sig] = classes.get(sig, 0) + 1
            ck.add_violation(sig, '%s [family %s]' % (what, s['family']),
                             {'case': cl, 'impl': il[:3000], 'how': 'echo "<case>" > f; h_solrt f <workdir>  (harness/h_solrt.cc: real mp::WriteSolFile -> real mp::ReadSOLFile)'})
        if sc and not bad:
            classes[sc + ':survived'] = classes.get(sc + ':survived', 0) + 1
        if len(ck.cov['samples']) < 6 and s['family'] not in [x.get('family') for x in ck.cov['samples']]:
            ck.sample({'family': s['family'], 'case': cl[:300], 'read': ir[:300]})
    for cl, a, b, why in corr_bad[:5]:
        ck.add_violation('model-differs:%s' % why.split(' ')[0], 'Lean model and the real code disagree: %s' % why,
                         {'case': cl, 'impl': a, 'model': b, 'correspondence': 'drv_c05 vs h_solrt'}, found_input=False)

    # the codec hypothesis (enc/dec round trip of '{:.16}' + strtod), TESTED on doubles (not proved)
    nd = 100000 if ck.tier == 'quick' else 5000000
    rc, out, err = sh([exe, 'codec', str(nd), str(ck.seed)], env=env, timeout=3000)
    ck.log('codec test: %s' % out.strip()[:300])
    m = re.search(r'codec n=(\d+) bad=(\d+)', out)
    if rc != 0 or not m:
        ck.add_violation('codec-test-failed', 'codec test did not run: %s' % (out + err)[-300:], {'cmd': '%s codec %d %d' % (exe, nd, ck.seed)}, found_input=False)
    elif int(m.group(2)):
        ck.add_violation('codec:value-not-within-1e-15', 'real written with {:.16} and read by decstring differs beyond the property tolerance: %s' % out.strip()[:300],
                         {'cmd': '%s codec %d %d' % (exe, nd, ck.seed), 'out': out.strip()[:600]})
    ck.log('cases=%d families=%s' % (len(cases), fam))
    ck.log('bytes equal=%d roundtrip ok=%d classes=%s disagreements=%d' % (n_bytes_equal, n_roundtrip_ok, classes, len(corr_bad)))
    if not proof_ok:
        for fdecl in failing:
            ck.add_violation('obligation:%s' % fdecl, 'proof obligation no longer checks: %s' % fdecl,
                             {'theorem': fdecl, 'module': 'MpVerif.C05.Props', 'searched': '%d solutions through the real writer and reader' % len(cases)},
                             found_input=False)
    ck.cov.update({
        'evaluations': len(cases), 'distinct_nontrivial': len(distinct),
        'rule': 'each case = a solution (message, options, vectors, objno, status, suffixes) written by the real mp::WriteSolFile and read by the real '
                'mp::ReadSOLFile; distinct = distinct event lists read back; compared with writeSol/readSol of the Lean model (bytes and events) and with the intent',
        'traces_validated_against_impl': len(cases) - len(corr_bad),
        'generator_families': fam, 'files_bytes_equal_model': n_bytes_equal, 'roundtrip_ok': n_roundtrip_ok, 'failure_classes': classes,
        'reals_in_vectors': n_reals, 'reals_satisfying_GoodNum_hypothesis': n_good, 'integral_reals_matching_text_model_fmtG16Int': n_int, 'of_which_at_least_1e16_scientific_notation': n_int_big, 'vector_texts_with_parseDec_value_rounding_to_strtod_result': n_dec[0], 'of_which_compared_with_the_double_the_real_reader_delivered': n_dec[1], 'g16_assumption_checked': n_assume[0], 'strtod_assumption_checked': n_assume[1], 'suffix_reals_satisfying_GoodSufTok_hypothesis': n_goodsuf,
        'codec_test': {'label': 'TEST (not proved): fmt {:.16} -> strtod/decstring on doubles', 'doubles': int(m.group(1)) if m else 0, 'bad': int(m.group(2)) if m else None},
        'correspondence': {'lines_compared_model_vs_impl': len(cases), 'disagreements': len(corr_bad)}, 'exhaustive': False,
        
    })
    try:
        cj = json.load(open(os.path.join(VERIF, 'design_notes', 'coverage', 'C05.json')))
        ck.cov.update({'anchor_line_cov': cj['anchor_line_cov'], 'anchor_branch_cov': cj['anchor_branch_cov'],
                       'mechanism_line_cov': cj.get('mechanism_line_cov'), 'mechanism_branch_cov': cj.get('mechanism_branch_cov'),
                       'coverage_note': 'measured by the last VERIF_COVERAGE=1 run (gcov-12, quick-tier stream), see design_notes/coverage/C05.md; reader-side error paths and the binary format are covered by C14'})
    except Exception:
        pass
    ck.notes.append('C05_roundtrip is proved for all solutions meeting the explicit side conditions Wf (model level, modulo the number codec: hypotheses GoodNum/GoodSufTok on the printed text are evaluated on every real of the run; the numeric half strtod(enc x) ~ x is TESTED, not proved); agreement of the models with the real writer and reader is sampled')
    ck.assumptions += [
        'number codec: the text fmt prints for a real ({:.16}) is read by strtod as a value within the property tolerance: TESTED per run, not proved',
        'the theorem is about token equality under the explicit hypothesis GoodNum/GoodSufNum on the printed text (checked on every generated real by the run)',
        'SuffixSet iteration order (by name length, then bytes) is taken from the container, not modelled',
        'reader side: see C14 (same model readSol)',
    ]
    ck.cov['trusted_base'] += ['harness/h_solrt.cc + harness/sol_rec.h', 'checks/c05.py oracle (intent vs events)', 'python float()/%.16g as reference for strtod/fmt']

"""C01G — standalone run of the C01 proof stage + gadget correspondence (the real check is checks/c01.py)."""
from common import *
import c01_gadgets


def run(ck):
    ck.pid_real = 'C01'
    res = c01_gadgets.run_gadgets(ck)
    c01_gadgets.report(ck, res)

"""C20 — the exported reformulation graph is well-formed and complete.

Stages (see design_notes/C20.md):
  1. proof obligations (lean/MpVerif/C20/Props.lean) + axiom audit
  2. writer correspondence: the real MiniJSONWriter<fmt::MemoryWriter> (production build, -DNDEBUG) and the real
     link/export protocol classes driven by random op sequences (harness/h_c20.cc) vs. the Lean op machines
  3. parser cross-check: the Lean JSON parser vs. python's json on real export lines and mutations of them
  4. per-run validation: recsolver runs on generated NL models x acceptance sets x name modes; the compiled Lean
     validator `checkGraph` (proved sound w.r.t. `WellFormed`) runs on the real export + the RecModelAPI log;
     an independent python oracle evaluates the same property on the same artefacts
"""
import os, sys, json, re, subprocess, shutil, binascii
from common import *
import recsolver
sys.path.insert(0, os.path.join(VERIF, 'gen'))
import nlgen, c20gen

NEED_ESC = re.compile(r'["\\\x00-\x1f]')


# ------------------------------------------------------------------ type table (from the source)
def type_table():
    """recsolver type name -> short type name used by the export (`_linrange`, ...), read from the
    STORE_CONSTRAINT_TYPE__* macros of the current tree (first acceptance option word, ':' -> '_')"""
    tab = {}
    for root, _, files in os.walk(os.path.join(REPO, 'include', 'mp', 'flat')):
        for f in files:
            if not f.endswith('.h'):
                continue
            s = open(os.path.join(root, f), errors='replace').read()
            for m in re.finditer(r'STORE_CONSTRAINT_TYPE__(?:WITH_MAP|NO_MAP)\(\s*(\w+)\s*,\s*"([^"]+)"', s):
                cpp, opts = m.group(1), m.group(2)
                w = opts.split()[0]
                short = w[w.index(':'):].replace(':', '_') if ':' in w else w
                m2 = re.fullmatch(r'IndicatorConstraint(Lin|Quad)(LE|EQ|GE)', cpp)
                rec = 'Indicator%sCon%s' % (m2.group(1), m2.group(2)) if m2 else cpp
                tab[rec] = short
    return tab


import codecs
codecs.register_error('c20_latin1', lambda e: (''.join(chr(b) for b in e.object[e.start:e.end]), e.end))


def unmangle(s):
    """recjson.h prints every byte >= 0x7f as \\u00XX: undo that (bytes -> UTF-8 text)"""
    try:
        # bytes that are not well-formed UTF-8 (e.g. a Latin-1 name) denote U+00XX, which is what an exporter
        # following repo_patches/C20-json-nonutf8.diff writes; on the unpatched tree such lines are invalid anyway
        return s.encode('latin-1').decode('utf-8', errors='c20_latin1')
    except UnicodeEncodeError:
        return s


def inf_class(numstr):
    """is this API bound an infinity for the export (which clamps to +-DBL_MAX and prints 6 digits)?"""
    v = recsolver.num(numstr)
    return v is None or abs(v) >= 1.797685e308


def hx(s):
    b = s.encode('utf-8', errors='surrogateescape') if isinstance(s, str) else s
    return binascii.hexlify(b).decode() if b else '-'


# ------------------------------------------------------------------ python oracle (independent of Lean)
def py_parse_line(raw):
    """strict RFC 8259 parse of one line (bytes) -> dict or None"""
    try:
        t = raw.decode('utf-8')
    except UnicodeDecodeError:
        return None

    def bad_const(x):
        raise ValueError(x)
    try:
        v = json.loads(t, parse_constant=bad_const, parse_float=lambda x: ('#', x), parse_int=lambda x: ('#', x))
    except ValueError:
        return None
    return v if isinstance(v, dict) else None


def py_nat(v):
    if isinstance(v, tuple) and v[0] == '#' and re.fullmatch(r'[0-9]+', v[1]):
        return int(v[1])
    return None


def py_oracle(recs, d, tab_sizes=None):
    """recs: list of dicts (parsed lines); d: delivered dict.  returns list of reasons (empty = property holds)."""
    bad = []
    vars_, nlobj, nlcon, objs = {}, set(), {}, set()
    last_var, last_obj = {}, {}
    nldef = set()
    new, status, groups, links = {}, {}, set(), []
    marked = []
    for r in recs:
        if 'COMMENT' in r:
            continue
        if 'link_index' in r:
            links.append(r)
        elif 'CON_TYPE' in r:
            ty = r['CON_TYPE']
            if 'final' in r:
                i = py_nat(r.get('index'))
                fl = tuple(py_nat(r.get(k)) for k in ('unused', 'bridged', 'final'))
                if i is None or any(f not in (0, 1) for f in fl) or py_nat(r.get('depth')) is None:
                    bad.append('bad-constatus')
                    continue
                status.setdefault((ty, i), []).append(fl)
                u, b, f = fl
                if not ((f and not b and not u) or (not f and b)):
                    bad.append('bad-constatus')
                if f:
                    marked.append((ty, r.get('name', '')))
            elif 'data' in r:
                i = py_nat(r.get('index'))
                if i is None or py_nat(r.get('depth')) is None:
                    bad.append('bad-connew')
                    continue
                new.setdefault(ty, []).append(i)
            elif 'CON_GROUP' in r:
                groups.add((ty, py_nat(r.get('CON_GROUP_index'))))
            else:
                bad.append('unknown-record')
        elif 'VAR_index' in r:
            i = py_nat(r['VAR_index'])
            vars_.setdefault(i, set()).add(py_nat(r.get('is_from_nl')))
            b = r.get('bounds')
            if isinstance(b, list) and len(b) == 2 and all(isinstance(x, (tuple, str)) for x in b) and py_nat(r.get('type')) is not None:
                binf = lambda x, clamp: 1 if (isinstance(x, str) or x[1] == clamp) else 0
                last_var[i] = (py_nat(r.get('type')), binf(b[0], '-1.79769e+308'), binf(b[1], '1.79769e+308'))
            else:
                bad.append('unknown-record')
        elif 'NL_COMMON_EXPR_index' in r:
            nldef.add(py_nat(r['NL_COMMON_EXPR_index']))
        elif 'NL_OBJECTIVE_index' in r:
            nlobj.add(py_nat(r['NL_OBJECTIVE_index']))
        elif 'NL_CON_TYPE' in r:
            nlcon.setdefault(py_nat(r.get('index')), set()).add(r['NL_CON_TYPE'])
        elif 'OBJECTIVE_index' in r:
            i = py_nat(r['OBJECTIVE_index'])
            objs.add(i)
            try:
                lt, qt = r['lin_terms'], r['qp_terms']
                lv = [py_nat(x) for x in lt['vars']]
                q1 = [py_nat(x) for x in qt['vars1']]
                q2 = [py_nat(x) for x in qt['vars2']]
                okk = (len(lt['coefs']) == len(lv) and len(qt['coefs']) == len(q1) == len(q2) and
                       all(isinstance(x, (tuple, str)) for x in lt['coefs'] + qt['coefs']) and None not in lv + q1 + q2 and
                       py_nat(r.get('sense')) is not None)
            except (KeyError, TypeError):
                okk = False
            if okk:
                last_obj[i] = (py_nat(r['sense']), lv, q1, q2)
            else:
                bad.append('unknown-record')
        else:
            bad.append('unknown-record')
    ncons_nl = d['nlAlg'] + d['nlLog']
    for i in range(d['nlVars']):
        if 1 not in vars_.get(i, ()):
            bad.append('nl-var-missing')
    for i in range(d['nlObjs']):
        if i not in nlobj:
            bad.append('nl-obj-missing')
    for i in range(d.get('nlDef', 0)):
        if i not in nldef:
            bad.append('nl-defvar-missing')
    for i in nldef:
        if i is None or i >= d.get('nlDef', 0):
            bad.append('bad-nldefvar')
    for i in range(ncons_nl):
        kinds = nlcon.get(i, set())
        if not (('logical' in kinds) if i >= d['nlAlg'] else (kinds & {'lin', 'nonlin'})):
            bad.append('nl-con-missing')
    for i in range(d['nVars']):
        if i not in vars_:
            bad.append('delivered-var-missing')
    for i, fl in vars_.items():
        if i is None or i >= d['nVars'] or any(f != (1 if i < d['nlVars'] else 0) for f in fl):
            bad.append('bad-var')
    for i in nlobj:
        if i is None or i >= d['nlObjs']:
            bad.append('bad-nlobj')
    for i, kinds in nlcon.items():
        if i is None or i >= ncons_nl or any((k == 'logical') != (i >= d['nlAlg']) for k in kinds):
            bad.append('bad-nlcon')
    for i in range(d['nObjs']):
        if i not in objs:
            bad.append('delivered-obj-missing')
    for i in objs:
        if i is None or i >= d['nObjs']:
            bad.append('bad-obj')
    for ty, idx in new.items():
        if sorted(idx) != list(range(len(idx))):
            bad.append('bad-connew')
        for i in idx:
            if len(status.get((ty, i), [])) != 1:
                bad.append('bad-connew')
    for (ty, i) in status:
        if i not in new.get(ty, []):
            bad.append('bad-constatus')
    sizes = {'src_vars()': d['nlVars'], 'src_cons()': ncons_nl, 'src_objs()': d['nlObjs'],
             'dest_vars()': d['nVars'], 'dest_objs()': d['nObjs']}

    def size(node):
        if node in sizes:
            return sizes[node]
        m = re.fullmatch(r'dest_cons\(([0-9]+)\)', node)
        if m:
            return sum(1 for c in d['cons'] if c[1] == int(m.group(1)))
        return len(new[node]) if node in new else None
    for l in links:
        li = l.get('link_index')
        ok = isinstance(li, list) and len(li) == 2 and all(py_nat(x) is not None for x in li) and isinstance(l.get('link_type'), str)
        for side in ('src_nodes', 'dest_nodes'):
            nodes = l.get(side)
            if not isinstance(nodes, list):
                ok = False
                continue
            for nd in nodes:
                if not (isinstance(nd, dict) and len(nd) == 1):
                    ok = False
                    continue
                (k, v), = nd.items()
                if isinstance(v, list):
                    if len(v) != 2:
                        ok = False
                        continue
                    a, b = py_nat(v[0]), py_nat(v[1])
                else:
                    a = b = py_nat(v)
                sz = size(k)
                if a is None or b is None or sz is None or not (a <= b < sz):
                    ok = False
        if ok:
            def spans(side):
                out = []
                for nd in l[side]:
                    (k, v), = nd.items()
                    out.append((k,) + ((py_nat(v[0]), py_nat(v[1])) if isinstance(v, list) else (py_nat(v), py_nat(v))))
                return out
            sr, ds, lt = spans('src_nodes'), spans('dest_nodes'), l['link_type']
            one = lambda x: x[1] == x[2]
            if lt == 'CopyLink':
                ok = len(sr) == 1 and len(ds) == 1 and sr[0][2] - sr[0][1] == ds[0][2] - ds[0][1]
            elif lt == 'One2ManyLink':
                ok = len(sr) == 1 and len(ds) == 1 and one(sr[0])
            elif lt == 'Many2OneLink':
                ok = len(sr) == 1 and len(ds) == 1 and one(ds[0])
            elif lt == 'Range2Slk<...>':
                ok = len(sr) == 1 and len(ds) == 2 and one(sr[0]) and one(ds[0]) and one(ds[1]) and ds[1][0] == 'dest_vars()'
            else:
                ok = len(sr) >= 1 and len(ds) >= 1
        if not ok:
            bad.append('bad-link')
    for i, v in enumerate(d['vars']):
        if last_var.get(i) != tuple(v):
            bad.append('delivered-var-differs')
    for i, o in enumerate(d['objs']):
        if last_obj.get(i) != tuple(o):
            bad.append('delivered-obj-differs')
    want = [(c[0], c[2]) for c in d['cons']]
    if marked != want:
        bad.append('delivered-name-mismatch' if [m[0] for m in marked] == [w[0] for w in want] else 'delivered-set-mismatch')
    for c in d['cons']:
        if (c[0], c[1]) not in groups:
            bad.append('delivered-group-mismatch')
    return sorted(set(bad))


# ------------------------------------------------------------------ one recsolver run -> artefacts
class Case:
    pass


def run_case(exe, tab, cdir, idx, model, names, accept, options, feats):
    c = Case()
    c.idx, c.names, c.accept, c.options, c.feats = idx, names, accept, options, feats
    d = os.path.join(cdir, 'case%05d' % idx)
    shutil.rmtree(d, ignore_errors=True)
    os.makedirs(d)
    stub = os.path.join(d, 'm')
    model.write(stub, names=(names != 'off'))
    c.stub = stub
    if names == 'latin1':       # the same names in a single-byte encoding: not valid UTF-8
        for ext in ('.col', '.row'):
            t = open(stub + ext, encoding='utf-8').read()
            open(stub + ext, 'wb').write(t.encode('latin-1', errors='replace'))
    c.src_names = ([v['name'] for v in model.vars] + [x['name'] for x in model.cons] + [x['name'] for x in model.lcons] +
                   [x['name'] for x in model.objs]) if names != 'off' else []
    finish_case(exe, tab, c, {'nlVars': len(model.vars), 'nlObjs': len(model.objs), 'nlAlg': len(model.cons), 'nlLog': len(model.lcons),
                              'nlDef': len(getattr(model, 'defvars', []))})
    return c


def finish_case(exe, tab, c, sizes):
    """run recsolver on c.stub, collect export (bytes) + API log"""
    stub = c.stub
    gpath = stub + '.graph'
    if os.path.exists(gpath):
        os.remove(gpath)
    r = recsolver.run(exe, stub, options=list(c.options) + ['cvt:writegraph=' + gpath], accept=c.accept, graph=False,
                      env={'RECSOLVER_LINKS': '1'}, timeout=120)
    c.rc, c.err, c.out = r['rc'], r['err'], r['out']
    c.log = r['log']
    c.lines = open(gpath, 'rb').read().split(b'\n') if os.path.exists(gpath) else None
    if c.lines is not None:
        c.trailing_ok = (c.lines[-1] == b'')
        c.lines = c.lines[:-1] if c.trailing_ok else c.lines
    c.converted = any(e.get('ev') == 'end' for e in c.log)
    nv = sum(e['n'] for e in c.log if e.get('ev') == 'vars')
    objs = [e['i'] for e in c.log if e.get('ev') == 'obj']
    cons = []
    c.unknown_types = []
    for e in c.log:
        if e.get('ev') == 'con':
            if e['type'] not in tab:
                c.unknown_types.append(e['type'])
            cons.append((tab.get(e['type'], '?' + e['type']), e['group'], unmangle(e['name'])))
    dvars = []
    for e in c.log:
        if e.get('ev') == 'vars':
            for lb, ub, ty in zip(e['lb'], e['ub'], e['int']):
                dvars.append((int(ty), 1 if inf_class(lb) else 0, 1 if inf_class(ub) else 0))
    oev = {}
    for e in c.log:
        if e.get('ev') == 'obj':
            q = e.get('quad', {'v1': [], 'v2': []})
            oev[e['i']] = (1 if e['sense'] == 'max' else 0, list(e['lin']['v']), list(q['v1']), list(q['v2']))
    nobj = (max(objs) + 1) if objs else 0
    c.obj_gap = [i for i in range(nobj) if i not in oev]
    dobjs = [oev.get(i, (0, [], [], [])) for i in range(nobj)]
    c.d = dict(sizes)
    c.d.update({'nVars': nv, 'nObjs': nobj, 'cons': cons, 'vars': dvars, 'objs': dobjs})
    c.links_final = [e for e in c.log if e.get('ev') == 'link_final']


def driver_ops(c):
    ops = ['reset']
    for l in c.lines:
        ops.append('L ' + hx(l))
    d = c.d
    ops.append('N %d %d %d %d %d' % (d['nlVars'], d['nlObjs'], d['nlAlg'], d['nlLog'], d.get('nlDef', 0)))
    for ty, li, ui in d['vars']:
        ops.append('v %d %d %d' % (ty, li, ui))
    csv = lambda l: ','.join(str(x) for x in l) if l else '-'
    for sn, l, q1, q2 in d['objs']:
        ops.append('o %d %s %s %s' % (sn, csv(l), csv(q1), csv(q2)))
    for ty, g, nm in d['cons']:
        ops.append('C %s %d %s' % (hx(ty), g, hx(nm)))
    ops.append('check')
    return ops


def repair_line(raw, hostile_names):
    """try to explain an invalid line: returns 'unescaped-name' | 'nonfinite-number' | None"""
    try:
        t = raw.decode('utf-8')
    except UnicodeDecodeError:
        return None
    t2 = t
    for nm in sorted(hostile_names, key=len, reverse=True):
        t2 = t2.replace(nm, json.dumps(nm)[1:-1])
    if t2 != t and py_parse_line(t2.encode()) is not None:
        return 'unescaped-name'
    t3 = re.sub(r'(?<=[\[ ])-?(inf|nan)(?=[,\]}])', '0', t2)
    if t3 != t2 and py_parse_line(t3.encode()) is not None:
        return 'nonfinite-number' if t2 == t else 'unescaped-name+nonfinite-number'
    return None


def replay_obj(c, extra=None):
    o = {'stub_files': {}, 'options': c.options, 'accept': c.accept, 'names': c.names,
         'sizes': {k: c.d.get(k, 0) for k in ('nlVars', 'nlObjs', 'nlAlg', 'nlLog', 'nlDef')},
         'how': 'write the files, then: RECSOLVER_ACCEPT=<accept> RECSOLVER_LOG=log recsolver m -AMPL <options> cvt:writegraph=m.graph '
                '(recsolver = harness/recsolver built by checks/recsolver.py); or ./check C20 --replay <this file>'}
    for ext in ('.nl', '.col', '.row'):
        p = c.stub + ext
        if os.path.exists(p):
            o['stub_files']['m' + ext] = open(p, 'rb').read().decode('latin-1')
    if extra:
        o.update(extra)
    return o


# ------------------------------------------------------------------ stage 4: per-run validation
def selected_objs(nobj, objno, multi):
    return nobj if multi else min(1 if objno > 0 else 0, 1 if nobj > 0 else 0)


def gen_case(r, idx):
    names = r.choice(['off', 'benign', 'benign', 'hostile', 'unicode'] * 4 + ['latin1'])
    if r.chance(1, 6):
        # round 3: defined variables (V segments), SOS sets through suffixes, complementarity rows
        m, feats, acc, opts = c20gen.gen_special_model(r, names=names if names != 'off' else 'benign')
        return m, feats, names, acc, opts, 1, 0
    if r.chance(1, 5):
        # conic family: cone rows + (convex separable) QP objective x cvt:quadobj x cvt:socp x cone types accepted or not
        m, feats = c20gen.gen_conic_model(r, names=names if names != 'off' else 'benign')
        acc, opts = c20gen.gen_conic_config(r)
        if r.chance(1, 10):
            opts.append('cvt:names=%d' % r.choice([0, 1, 2, 3]))
        return m, feats, names, acc, opts, 1, 0
    m, feats = c20gen.gen_model(r, size=r.choice(['small', 'small', 'big']), extreme=r.chance(1, 3),
                                infinite=r.chance(1, 3), names=names if names != 'off' else 'benign')
    acc = c20gen.gen_accept(r)
    opts = ['cvt:bigM=1e5']
    objno, multi = 1, 0
    k = r.below(8)
    if k == 0:
        multi = 1
        opts.append('obj:multi=1')
    elif k == 1 and m.objs:
        objno = r.rint(0, len(m.objs))
        opts.append('obj:no=%d' % objno)
    if r.chance(1, 8):
        opts.append('cvt:pre:all=0')
    if r.chance(1, 10):
        opts.append('cvt:names=%d' % r.choice([0, 1, 2, 3]))
    return m, feats, names, acc, opts, objno, multi


def classify_case(c, lv, verdict):
    """-> (sig or None, what).  lv: lean per-line verdicts; verdict: lean `check` answer."""
    hostile = [n for n in c.src_names if NEED_ESC.search(n)]
    badlines = [(k, v) for k, v in enumerate(lv) if not v.startswith('rec ')]
    if badlines:
        k, v = badlines[0]
        if v == 'badutf8' and c.names == 'latin1':
            return ('non-utf8-name:invalid-json-line',
                    'line %d of the export is not valid UTF-8 (a name in a single-byte encoding is copied verbatim): %r' % (k + 1, c.lines[k][:200]))
        why = repair_line(c.lines[k], hostile)
        if why:
            return ('%s:invalid-json-line' % why,
                    'line %d of the export is not valid JSON (%s): %r' % (k + 1, v, c.lines[k][:200]))
        return ('invalid-line:%s' % v, 'line %d of the export: %s: %r' % (k + 1, v, c.lines[k][:200]))
    if verdict == 'ok':
        return None, ''
    reasons = verdict.split()[1:]
    r0 = re.sub(r'@\d+$', '', reasons[0]) if reasons else 'unknown'
    if r0 == 'delivered-name-mismatch' and hostile:
        return ('unescaped-name:wrong-string-value',
                'a name containing a backslash is written unescaped; the line parses but to a different string')
    return 'graph:' + r0, 'the export fails validation: %s' % ' '.join(reasons)


def link_staleness(c, recs):
    """compare every exported link record with the final extent of the same entry (RecBackend::LogFinalLinks).
    returns list of (type, entry, exported, final)"""
    final = {}
    for e in c.links_final:
        final.setdefault((e['type'], e['entry']), []).append((e['src'], e['dst']))
    stale = []
    seen = {}
    for r in recs:
        if 'link_index' not in r:
            continue
        key = (r['link_type'], py_nat(r['link_index'][1]))
        seen[key] = seen.get(key, 0) + 1

        def norm(nodes):
            out = []
            for nd in nodes:
                (k, v), = nd.items()
                if isinstance(v, list):
                    out.append([k, py_nat(v[0]), py_nat(v[1])])
                else:
                    out.append([k, py_nat(v), py_nat(v)])
            return out
        exp = (norm(r['src_nodes']), norm(r['dest_nodes']))
        fin = final.get(key)
        if fin is None:
            stale.append((key, exp, None))
        elif exp not in [(unm(f[0]), unm(f[1])) for f in fin]:
            stale.append((key, exp, fin[0]))
    missing = [k for k in final if k not in seen]
    return stale, missing


def unm(nodes):
    return [[unmangle(n[0]), n[1], n[2]] for n in nodes]


def run_driver(drv, ops, tag):
    p = os.path.join(BUILD, 'c20.%s.ops' % tag)
    open(p, 'w').write('\n'.join(ops) + '\n')
    with open(p) as fi:
        r = subprocess.run([drv], stdin=fi, capture_output=True, text=True)
    out = r.stdout.split('\n')
    if out and out[-1] == '':
        out.pop()
    if r.returncode != 0 or len(out) != len(ops):
        raise RuntimeError('lean driver: rc=%s, %d answers for %d ops; stderr=%s' % (r.returncode, len(out), len(ops), r.stderr[-500:]))
    return out


def stage_validation(ck, exe, drv, tab, ncases, hist, sample_lines):
    r = nlgen.Rng(ck.seed * 1000003 + 17)
    cdir = os.path.join(BUILD, 'c20cases')
    shutil.rmtree(cdir, ignore_errors=True)
    cases = []
    corpus = sorted(glob.glob(os.path.join(VERIF, 'corpus', 'C20', '*.json')))
    for path in corpus:
        cases.append(load_corpus_case(exe, tab, cdir, len(cases), path))
    for i in range(ncases):
        m, feats, names, acc, opts, objno, multi = gen_case(r, i)
        c = run_case(exe, tab, cdir, len(cases), m, names, acc, opts, feats)
        c.d['nlObjs'] = selected_objs(len(m.objs), objno, multi)
        cases.append(c)
    ops, spans = [], []
    for c in cases:
        if c.lines is None:
            spans.append(None)
            continue
        o = driver_ops(c)
        spans.append((len(ops), len(o)))
        ops += o
    ans = run_driver(drv, ops, 'val')
    nval = 0
    lean_py_disagree = 0
    for c, sp in zip(cases, spans):
        for f in c.feats:
            hist['feature'][f] = hist['feature'].get(f, 0) + 1
        hist['names'][c.names] = hist['names'].get(c.names, 0) + 1
        hist['accept'][('default' if c.accept is None else c.accept if isinstance(c.accept, str) else 'subset(%d)' % min(len(c.accept), 99) if False else 'subset')] = \
            hist['accept'].get(('default' if c.accept is None else c.accept if isinstance(c.accept, str) else 'subset'), 0) + 1
        if sp is None:
            hist['outcome']['no-graph-file'] = hist['outcome'].get('no-graph-file', 0) + 1
            if c.converted:
                ck.add_violation('graph:no-file', 'the model was converted but no export file was written', replay_obj(c))
            continue
        a = ans[sp[0]:sp[0] + sp[1]]
        for l in c.lines[::7]:
            if len(sample_lines) < 5000:
                sample_lines.append(l)
        lv = a[1:1 + len(c.lines)]
        verdict = a[-1]
        pyrecs = [py_parse_line(l) for l in c.lines]
        # the two JSON parsers must agree on every line (valid object or not)
        for k, (l, v, pr) in enumerate(zip(c.lines, lv, pyrecs)):
            lean_valid_obj = v.startswith('rec ') or v == 'unknown'
            if lean_valid_obj != (pr is not None):
                lean_py_disagree += 1
                ck.add_violation('parser-disagreement', 'Lean parser says %s, python json says %s for line %r' % (v, 'object' if pr is not None else 'invalid', l[:200]),
                                 replay_obj(c, {'line': l.decode('latin-1')}), found_input=False)
        if not c.converted:
            key = 'crash(rc=%s)' % c.rc if isinstance(c.rc, int) and c.rc < 0 else 'conversion-failed'
            hist['outcome'][key] = hist['outcome'].get(key, 0) + 1
            if key.startswith('crash'):
                hist.setdefault('crash_cases', []).append(c.stub)
            # the partial file must still consist of valid JSON lines
            sig, what = classify_case(c, lv, 'ok')
            if sig:
                hist['outcome']['partial-file:' + sig] = hist['outcome'].get('partial-file:' + sig, 0) + 1
                ck.add_violation(sig, what + ' (conversion failed later; partial file)', replay_obj(c))
            continue
        nval += 1
        if all(x is not None for x in pyrecs) and all(v.startswith('rec ') for v in lv):
            hist.setdefault('_expcases', []).append((c, pyrecs))
        if verdict == 'ok' and len(hist.setdefault('_okcases', [])) < 60 and len(c.lines) < 600:
            hist['_okcases'].append(c)
        if any(pr and py_nat(pr.get('bridged')) == 1 for pr in pyrecs):
            h = hashlib.sha256()
            for ext in ('.nl', '.col', '.row'):
                if os.path.exists(c.stub + ext):
                    h.update(open(c.stub + ext, 'rb').read())
            h.update(repr((c.accept, c.options)).encode())
            hist.setdefault('_distinct', set()).add(h.hexdigest())
        if getattr(c, 'obj_gap', None):
            ck.add_violation('api:objective-index-gap', 'the ModelAPI received objective indices with gaps: missing %s' % c.obj_gap, replay_obj(c))
        if c.unknown_types:
            ck.add_violation('model-drift:unknown-type', 'delivered constraint types without STORE_CONSTRAINT_TYPE entry: %s' % c.unknown_types,
                             replay_obj(c), found_input=False)
        if not getattr(c, 'trailing_ok', True):
            ck.add_violation('graph:last-line-unterminated', 'the export does not end with a newline', replay_obj(c))
        sig, what = classify_case(c, lv, verdict)
        pyv = py_oracle([x for x in pyrecs if x is not None], c.d) if all(x is not None for x in pyrecs) else ['line-invalid']
        lean_ok = verdict == 'ok'
        if lean_ok != (not pyv):
            ck.add_violation('validator-disagreement', 'Lean validator: %s; python oracle: %s' % (verdict, pyv), replay_obj(c), found_input=False)
        for l in c.lines:
            if len(ck.cov['samples']) < 6 and b'link_index' in l and nval % 7 == 0:
                ck.sample(l.decode('latin-1')[:160])
        for v in lv:
            hist['record'][v] = hist['record'].get(v, 0) + 1
        for ty, g, nm in c.d['cons']:
            hist['delivered_type'][ty] = hist['delivered_type'].get(ty, 0) + 1
        orecs = [pr for pr in pyrecs if pr and 'OBJECTIVE_index' in pr]
        if orecs and any(json.dumps(x.get('qp_terms'), default=str) != json.dumps(y.get('qp_terms'), default=str)
                         for x in orecs for y in orecs if x['OBJECTIVE_index'] == y['OBJECTIVE_index']):
            hist['objective_rewritten_after_creation'] = hist.get('objective_rewritten_after_creation', 0) + 1
        for pr in pyrecs:
            if pr and 'data' in pr and 'CON_TYPE' in pr:
                hist['stored_type'][pr['CON_TYPE']] = hist['stored_type'].get(pr['CON_TYPE'], 0) + 1
            if pr and 'link_type' in pr:
                hist['link_type'][pr['link_type']] = hist['link_type'].get(pr['link_type'], 0) + 1
        hist['outcome'][sig or 'ok'] = hist['outcome'].get(sig or 'ok', 0) + 1
        if sig:
            ck.add_violation(sig, what, replay_obj(c, {'lean': verdict, 'python_oracle': pyv, 'delivered': c.d}))
        # A16: exported link entries vs. their final extent
        if all(x is not None for x in pyrecs) and c.links_final:
            stale, missing = link_staleness(c, pyrecs)
            if missing:
                ck.add_violation('link-entry-missing:%s' % missing[0][0],
                                 'link entry %s #%s is registered in the value presolver but has no record in the export (%d such entries)' %
                                 (missing[0][0], missing[0][1], len(missing)), replay_obj(c))
            if stale:
                hist['outcome']['stale-link'] = hist['outcome'].get('stale-link', 0) + 1
                (key, exp, fin) = stale[0]
                node0 = exp[0][0][0] if exp and exp[0] else '?'
                if fin is None:
                    ck.add_violation('link-record-unregistered:%s' % key[0], 'the export has a link record %s #%s that is not registered in the value presolver' % key,
                                     replay_obj(c))
                else:
                    ck.add_violation('link-entry-stale:%s:%s' % (key[0], node0),
                                     'link entry %s #%s was exported as %s but its final extent is %s (%d stale in this run)' %
                                     (key[0], key[1], exp, fin, len(stale)), replay_obj(c))
            else:
                hist['links_compared'] = hist.get('links_compared', 0) + len(c.links_final)
    return len(cases), nval, sum(len(c.lines) for c in cases if c.lines is not None)


def load_corpus_case(exe, tab, cdir, idx, path):
    o = json.load(open(path))
    d = os.path.join(cdir, 'case%05d' % idx)
    shutil.rmtree(d, ignore_errors=True)
    os.makedirs(d)
    for fn, txt in o['stub_files'].items():
        open(os.path.join(d, fn), 'wb').write(txt.encode('latin-1'))
    c = Case()
    c.idx, c.names, c.accept, c.options, c.feats = idx, o.get('names', 'benign'), o.get('accept'), o.get('options', []), set(['corpus'])
    c.stub = os.path.join(d, 'm')
    c.src_names = []
    for ext in ('.col', '.row'):
        if ext[1:] and ('m' + ext) in o['stub_files']:
            c.src_names += o['stub_files']['m' + ext].encode('latin-1').decode('utf-8', 'surrogateescape').split('\n')
    c.src_names = [n for n in c.src_names if n]
    finish_case(exe, tab, c, o['sizes'])
    return c


# ------------------------------------------------------------------ stage 2: writer / link-protocol correspondence
def unhex(h):
    return b'' if h == '-' else binascii.unhexlify(h)


def _is_utf8(b):
    try:
        b.decode('utf-8')
        return True
    except UnicodeDecodeError:
        return False


def stage_harness(ck, drv, n_json, n_links, hist):
    objs = ck.objects([os.path.join(VERIF, 'harness', 'h_c20.cc')], flags=['-O1', '-g'], tag='h') + ck.libmp_objects()
    exe = ck.link('h_c20', objs)
    total = 0
    for mode, n in (('json', n_json), ('links', n_links), ('escape', n_json)):
        p = subprocess.run([exe, mode, str(ck.seed), str(n)], capture_output=True, text=True)
        if p.returncode != 0:
            ck.add_violation('harness:%s:crash' % mode, 'h_c20 %s exited with %s: %s' % (mode, p.returncode, p.stderr[-500:]),
                             {'cmd': '%s %s %d %d' % (exe, mode, ck.seed, n)}, found_input=False)
            continue
        lines = [l for l in p.stdout.split('\n') if l]
        ops = [l.split(' | ')[0] for l in lines]
        impl = [l.split(' | ')[1].strip() for l in lines]
        ans = run_driver(drv, ops, mode)
        nbad = 0
        for o, i, a in zip(ops, impl, ans):
            total += 1
            if mode == 'escape':
                inp, outb = unhex(o.split()[1]), unhex(i)
                if i != a:
                    nbad += 1
                    ck.add_violation('escape:model-differs', 'EscapeJSON(%r) = %r, the Lean model escapeB gives %r' % (inp, outb, unhex(a) if a != 'bad-op' else a),
                                     {'input_hex': o.split()[1], 'impl_hex': i, 'model_hex': a, 'correspondence': 'h_c20 escape vs drv_c20 EB'}, found_input=False)
                # property oracle on the real output: well-formed UTF-8 and a valid JSON string body, for every byte string
                try:
                    json.loads('"' + outb.decode('utf-8') + '"')
                    okv = True
                except (UnicodeDecodeError, ValueError):
                    okv = False
                hist['escape_inputs_invalid_utf8'] = hist.get('escape_inputs_invalid_utf8', 0) + (0 if _is_utf8(inp) else 1)
                if not okv:
                    ck.add_violation('escape:invalid-output', 'EscapeJSON(%r) = %r is not a valid JSON string body in UTF-8' % (inp, outb),
                                     {'input_hex': o.split()[1], 'output_hex': i, 'how': 'mp::MiniJSONWriter<fmt::MemoryWriter>::EscapeJSON(bytes); harness/h_c20.cc escape <seed> <n>'})
                continue
            if mode == 'json':
                hist['writer_ops'] = hist.get('writer_ops', 0) + len(o.split()) - 1
                if i != a:
                    nbad += 1
                    ck.add_violation('writer:model-differs', 'MiniJSONWriter wrote %r, the Lean op machine %r for ops %s' % (unhex(i)[:200], unhex(a)[:200] if a != 'bad-op' else a, o[:300]),
                                     {'ops': o, 'impl_hex': i, 'model_hex': a, 'correspondence': 'h_c20 json vs drv_c20 W'}, found_input=False)
                else:
                    # oracle on the real text: if no string needed escaping and all scalars are finite the text must be valid JSON
                    toks = o.split()[1:]
                    strs = [unhex(t[2:]) for t in toks if t[:2] in ('k:', 't:')]
                    nums = [unhex(t[2:]) for t in toks if t[:2] == 's:']
                    safe = all(not re.search(rb'["\\\x00-\x1f]', x) for x in strs) and all(re.fullmatch(rb'-?[0-9.e+]+', x) for x in nums)
                    key = 'writer_safe' if safe else 'writer_unsafe'
                    hist[key] = hist.get(key, 0) + 1
            else:
                a0, late = a.rsplit(' late=', 1) if ' late=' in a else (a, '?')
                hist['links_late'] = hist.get('links_late', 0) + (late == '1')
                if i != a0:
                    nbad += 1
                    ck.add_violation('links:model-differs', 'link export protocol: real code %r..., Lean model %r... for ops %s' % (i[-120:], a0[-120:], o[:300]),
                                     {'ops': o, 'impl': i, 'model': a, 'correspondence': 'h_c20 links vs drv_c20 X'}, found_input=False)
                    continue
                # on the REAL output: exported extents vs final extents; stale => the model must have flagged `late`
                text, fin, allx = i.split(' ')
                exported = {}
                for l in unhex(text).split(b'\n'):
                    if l:
                        r = json.loads(l)

                        def ext(nd):
                            (k, v), = nd[0].items()
                            return (k, v, v + 1) if isinstance(v, int) else (k, v[0], v[1] + 1)
                        exported[(r['link_type'][0].lower(), r['link_index'][1])] = ext(r['src_nodes']) + ext(r['dest_nodes'])
                stale = False
                nfin = 0
                if fin != '-':
                    for e in fin.split(';'):
                        if e:
                            f = e.split(',')
                            nfin += 1
                            key = (f[1], int(f[2]))
                            want = (f[3], int(f[4]), int(f[5]), f[6], int(f[7]), int(f[8]))
                            if key not in exported:
                                ck.add_violation('links:entry-never-exported', 'entry %s registered but not in the export; ops %s' % (key, o), {'ops': o, 'impl': i})
                            elif exported[key] != want:
                                stale = True
                if allx != 'all=1':
                    ck.add_violation('links:not-all-exported', 'AllEntriesExported() false after Finish; ops %s' % o, {'ops': o, 'impl': i})
                if len(exported) != nfin:
                    ck.add_violation('links:export-count', '%d records exported for %d registered entries; ops %s' % (len(exported), nfin, o), {'ops': o, 'impl': i})
                hist['links_stale_real'] = hist.get('links_stale_real', 0) + stale
                if stale and late != '1':
                    ck.add_violation('links:stale-without-late', 'theorem C20_export_complete_partial contradicted on real output; ops %s' % o,
                                     {'ops': o, 'impl': i, 'model': a}, found_input=False)
        hist['harness_' + mode] = {'cases': len(lines), 'disagreements': nbad}
    return total


# ------------------------------------------------------------------ stage 3: parser cross-check
def py_canon(v):
    if v is None:
        return 'n'
    if v is True:
        return 't'
    if v is False:
        return 'f'
    if isinstance(v, tuple):
        return '#' + v[1]
    if isinstance(v, str):
        return '$' + ''.join('%d.' % ord(c) for c in v)
    if isinstance(v, list):
        return '[' + ''.join(py_canon(x) + ',' for x in v) + ']'
    return '{' + ''.join(py_canon(k) + ':' + py_canon(x) + ',' for k, x in v) + '}'


def py_parse_canon(raw):
    try:
        t = raw.decode('utf-8')
    except UnicodeDecodeError:
        return 'badutf8'

    def bad_const(x):
        raise ValueError(x)
    try:
        v = json.loads(t, parse_constant=bad_const, parse_float=lambda x: ('#', x), parse_int=lambda x: ('#', x),
                       object_pairs_hook=lambda kv: dict_pairs(kv))
    except (ValueError, RecursionError):
        return 'none'
    return 'some ' + py_canon(v)


class dict_pairs(object):
    def __init__(self, kv):
        self.kv = kv

    def __iter__(self):
        return iter(self.kv)


def stage_parser(ck, drv, sample_lines, n_mut, hist):
    r = nlgen.Rng(ck.seed * 7919 + 3)
    texts = list(sample_lines)
    base = [b'{"a": [1, 2.5e+3, -0, 1E-2], "b" : {"c":"x\\ny\\u00e9\\"q"}, "d": [], "e":{} , "t": true, "n": null, "f":false}',
            b' [ ] ', b'{}', b'0', b'-', b'01', b'1.', b'.5', b'1e', b'1e+', b'"\\x"', b'"a\tb"', b'[1,]', b'{"a":1,}', b'{"a" 1}',
            b'{"a":1 "b":2}', b'[1 2]', b'nul', b'true false', b'{"a":inf}', b'{"a":NaN}', b'{"a":Infinity}', b'"\\u12"', b'"\\u00zz"',
            b'\xff', b'"\xc3\xa9"', b'{"k":"v"} x', b'', b'   ', b'[[[[[[[[[[1]]]]]]]]]]', b'{"a":{"a":{"a":[{"a":1}]}}}', b'-0.0e-0', b'1.5E+10',
            b'"\\/"', b'"\\b\\f\\n\\r\\t"', b'{"dup":1,"dup":2}', b'1e5 ', b'\t[\n1\r,\n2 ]\n']
    texts += base
    pool = [t for t in texts if t]
    alphabet = b'{}[]":,\\ 0123456789.eE+-tfnulrsa\t\x01'
    for _ in range(n_mut):
        t = bytearray(r.choice(pool))
        for _ in range(r.rint(1, 3)):
            k = r.below(4)
            pos = r.below(len(t) + 1)
            if k == 0 and t:
                del t[min(pos, len(t) - 1)]
            elif k == 1:
                t.insert(pos, alphabet[r.below(len(alphabet))])
            elif k == 2 and t:
                t[min(pos, len(t) - 1)] = alphabet[r.below(len(alphabet))]
            else:
                t = t[:pos]
        texts.append(bytes(t))
    ops = ['P ' + hx(t) for t in texts]
    ans = run_driver(drv, ops, 'parse')
    nbad = 0
    nvalid = 0
    for t, a in zip(texts, ans):
        want = py_parse_canon(t)
        if b'\\u' in t and want != 'none' and a != 'none':
            # surrogate escapes decode differently (python keeps lone surrogates); compare validity only
            want, a = want[:4], a[:4]
        nvalid += want.startswith('some')
        if want != a:
            nbad += 1
            ck.add_violation('parser-disagreement', 'Lean parser: %s; python json: %s; text %r' % (a[:120], want[:120], t[:200]),
                             {'text_hex': hx(t), 'lean': a, 'python': want}, found_input=False)
    hist['parser_crosscheck'] = {'texts': len(texts), 'valid': nvalid, 'disagreements': nbad}
    return len(texts)


# ------------------------------------------------------------------ stage 7: exporter transition system vs. the real export
def _vinfo(r):
    b = r['bounds']
    binf = lambda x, clamp: 1 if (isinstance(x, str) or x[1] == clamp) else 0
    return (py_nat(r['type']), binf(b[0], '-1.79769e+308'), binf(b[1], '1.79769e+308'))


def _oinfo(r):
    csv = lambda l: ','.join(str(py_nat(x)) for x in l) if l else '-'
    return '%d %s %s %s' % (py_nat(r['sense']), csv(r['lin_terms']['vars']), csv(r['qp_terms']['vars1']), csv(r['qp_terms']['vars2']))


def exporter_ops(c, recs):
    """reconstruct the event sequence of the Lean exporter model (ModelExporter.lean) from the real export (event order =
    file order; which constraints were reformulated / unused and the final variable data are read from the final records)
    -> (driver ops, expected canonical non-link records, expected delivered, number of link records)"""
    def refs(nodes):
        out = []
        for nd in nodes:
            (k, v), = nd.items()
            a, b = (py_nat(v[0]), py_nat(v[1])) if isinstance(v, list) else (py_nat(v), py_nat(v))
            out.append('%s:%d:%d' % (hx(k), a, b))
        return ','.join(out) or '-'
    groups = [(r['CON_TYPE'], py_nat(r['CON_GROUP_index'])) for r in recs if 'CON_GROUP' in r]
    ops = ['EX reset', 'EX types ' + ' '.join(hx(t) for t, _ in groups)]
    ops += ['EX grp %s %d' % (hx(t), g) for t, g in groups]
    d = c.d
    ops.append('EX addnodes ' + ' '.join(hx(n) for n in ('src_vars()', 'src_cons()', 'src_objs()', 'dest_objs()')))
    for r in recs:
        if 'CON_TYPE' in r and 'final' in r:
            ops.append('EX name %s %d %s' % (hx(r['CON_TYPE']), py_nat(r['index']), hx(r.get('name', ''))))
    upd = next((k for k, r in enumerate(recs) if r.get('COMMENT', '').startswith('Updated')), None)
    if upd is None:
        return None
    cur, exp, late_links, nlinks = {}, [], [], 0
    curobj = {}
    nl_vars_added = False
    for r in recs[:upd]:
        if not nl_vars_added and 'VAR_index' not in r and 'COMMENT' not in r:
            # ConvertVars: all NL variables were just added -> src_vars().Add(n)
            n_nl = sum(1 for x in recs[:upd] if 'VAR_index' in x and py_nat(x['is_from_nl']) == 1)
            if n_nl:
                ops.append('EX a %s %d' % (hx('src_vars()'), n_nl))
            nl_vars_added = True
        if 'NL_CON_TYPE' in r:
            lg = 1 if r['NL_CON_TYPE'] == 'logical' else 0
            ops.append('EX nc %d' % lg)                          # ExportAlgCon / ExportLogCon
            exp.append('NC %d %d' % (py_nat(r['index']), lg))
            ops.append('EX a %s 1' % hx('src_cons()'))          # ConvertAlgCon / ConvertLogicalCon: src_cons().Add()
        elif 'NL_OBJECTIVE_index' in r:
            ops.append('EX no')                                  # ExportObj
            exp.append('NO %d' % py_nat(r['NL_OBJECTIVE_index']))
            ops.append('EX a %s 1' % hx('src_objs()'))          # Convert(objective): src_objs().Add(), dest_objs().Add()
            ops.append('EX a %s 1' % hx('dest_objs()'))
        elif 'NL_COMMON_EXPR_index' in r:
            ops.append('EX nd')                                  # ExportCommonExpr
            exp.append('ND %d' % py_nat(r['NL_COMMON_EXPR_index']))
        elif 'OBJECTIVE_index' in r:
            oi = _oinfo(r)
            curobj[py_nat(r['OBJECTIVE_index'])] = oi
            ops.append('EX ao ' + oi)                            # AddObjective -> ExportObjective
            exp.append('O %d %s' % (py_nat(r['OBJECTIVE_index']), oi))
        if 'VAR_index' in r:
            i, b, inf = py_nat(r['VAR_index']), py_nat(r['is_from_nl']), _vinfo(r)
            cur[i] = inf
            ops.append('EX v %d %d %d %d' % ((b,) + inf))
            exp.append('V %d %d %d %d %d' % ((i, b) + inf))
        elif 'CON_TYPE' in r and 'data' in r:
            ops.append('EX s ' + hx(r['CON_TYPE']))
            exp.append('N %s %d' % (hx(r['CON_TYPE']), py_nat(r['index'])))
        elif 'link_index' in r:
            ops.append('EX l %s %d %s %s' % (hx(r['link_type']), py_nat(r['link_index'][1]), refs(r['src_nodes']), refs(r['dest_nodes'])))
            nlinks += 1
    if not nl_vars_added:
        n_nl = sum(1 for x in recs[:upd] if 'VAR_index' in x and py_nat(x['is_from_nl']) == 1)
        if n_nl:
            ops.append('EX a %s %d' % (hx('src_vars()'), n_nl))
    tail = recs[upd:]
    for r in tail:
        if 'VAR_index' in r:
            i, b, inf = py_nat(r['VAR_index']), py_nat(r['is_from_nl']), _vinfo(r)
            if cur.get(i) != inf:
                ops.append('EX sv %d %d %d %d' % ((i,) + inf))
            exp.append('V %d %d %d %d %d' % ((i, b) + inf))
        elif 'OBJECTIVE_index' in r:
            i, oi = py_nat(r['OBJECTIVE_index']), _oinfo(r)
            if curobj.get(i) != oi:
                ops.append('EX so %d %s' % (i, oi))              # rewritten in place after its creation (conic reformulation)
            exp.append('O %d %s' % (i, oi))
        elif 'CON_TYPE' in r and 'final' in r:
            ty, i = r['CON_TYPE'], py_nat(r['index'])
            u, b, f = py_nat(r['unused']), py_nat(r['bridged']), py_nat(r['final'])
            if u:
                ops.append('EX u %s %d' % (hx(ty), i))
            elif b:
                ops.append('EX b %s %d' % (hx(ty), i))
            exp.append('S %s %d %s %d %d %d' % (hx(ty), i, hx(r.get('name', '')), u, b, f))
        elif 'CON_GROUP' in r:
            exp.append('G %s %d' % (hx(r['CON_TYPE']), py_nat(r['CON_GROUP_index'])))
        elif 'link_index' in r:
            late_links.append('EX l %s %d %s %s' % (hx(r['link_type']), py_nat(r['link_index'][1]), refs(r['src_nodes']), refs(r['dest_nodes'])))
            nlinks += 1
        elif 'CON_TYPE' in r and 'data' in r:
            return None          # a constraint stored during the push: outside the model
    ops.append('EX f')
    ops += late_links
    ops.append('EX dump')
    dl = ['D %s %d %s' % (hx(ty), g, hx(nm)) for ty, g, nm in d['cons']]
    return ops, ';'.join(exp), ';'.join(dl), nlinks


def stage_exporter(ck, drv, cases, hist):
    ops, meta = [], []
    for c, pyrecs in cases:
        try:
            r = exporter_ops(c, pyrecs)
        except (KeyError, TypeError, IndexError, ValueError):
            r = None
        if r is None:
            hist['exporter_skipped'] = hist.get('exporter_skipped', 0) + 1
            continue
        o, exp, dl, nl = r
        meta.append((c, len(ops) + len(o) - 1, exp, dl, nl, len(o)))
        ops += o
    if not ops:
        return 0
    ans = run_driver(drv, ops, 'exporter')
    he = hist.setdefault('exporter_model', {'runs': 0, 'events': 0, 'disagreements': 0})
    for c, pos, exp, dl, nl, nev in meta:
        a = ans[pos]
        he['runs'] += 1
        he['events'] += nev
        want = 'rej=0 fin=1 | %s | %s | links=%d' % (exp, dl, nl)
        if a != want:
            he['disagreements'] += 1
            parts, wparts = a.split(' | '), want.split(' | ')
            which = [n for n, (x, y) in zip(('guards/finished', 'records', 'delivered', 'links'), zip(parts + [''] * 4, wparts)) if x != y]
            # a guard rejected by the model on a real event sequence, or delivered != API log, is a failing input for the property
            ck.add_violation('exporter:model-differs:%s' % '+'.join(which),
                             'the exporter transition system (ModelExporter.lean) run on the event sequence of this real export gives %s where the real run has %s' %
                             (a[:160], want[:160]), replay_obj(c, {'model': a[:2000], 'real': want[:2000]}), found_input=('guards/finished' in which or 'delivered' in which))
    return he['runs']


# ------------------------------------------------------------------ stage 6: the validator on corrupted exports (differential)
def stage_mutation(ck, drv, cases, nmut, hist):
    """corrupt real exports (drop / duplicate / swap lines, change an integer, flip a flag) and require that the Lean
    validator and the independent python oracle agree on accept/reject; exercises the rejecting arms of checkGraph"""
    r = nlgen.Rng(ck.seed * 104729 + 11)
    ops, meta = [], []
    for c in cases:
        for _ in range(nmut):
            L = list(c.lines)
            k = r.below(6)
            idx = [n for n, l in enumerate(L) if b'"CON_GROUP"' not in l] or list(range(len(L)))
            i = idx[r.below(len(idx))]
            if k == 0:
                del L[i]; kind = 'drop-line'
            elif k == 1:
                L.insert(r.below(len(L) + 1), L[i]); kind = 'duplicate-line'
            elif k == 2:
                j = idx[r.below(len(idx))]; L[i], L[j] = L[j], L[i]; kind = 'swap-lines'
            elif k == 3:
                nums = [m for m in re.finditer(rb'(?<![\w.+-])\d+(?![\w.+-])', L[i])]
                if not nums:
                    continue
                m = nums[r.below(len(nums))]
                L[i] = L[i][:m.start()] + str(int(m.group()) + r.choice([1, 1, 2, 7, -1])).encode() + L[i][m.end():]
                kind = 'change-integer'
            elif k == 4:
                flags = [m for m in re.finditer(rb'"(final|bridged|unused|is_from_nl|type|sense)": (\d)', L[i])]
                if not flags:
                    continue
                m = flags[r.below(len(flags))]
                L[i] = L[i][:m.start(2)] + (b'0' if m.group(2) != b'0' else b'1') + L[i][m.end(2):]
                kind = 'flip-flag'
            else:
                cands = [n for n, l in enumerate(L) if b'"link_index"' in l or b'"OBJECTIVE_index"' in l or b'"VAR_index"' in l]
                if not cands:
                    continue
                del L[cands[r.below(len(cands))]]; kind = 'drop-var-obj-link-record'
            c2 = Case()
            c2.lines, c2.d = L, c.d
            o = driver_ops(c2)
            meta.append((c, c2, kind, len(ops), len(o)))
            ops += o
    if not ops:
        return 0
    ans = run_driver(drv, ops, 'mut')
    hm = hist.setdefault('mutation', {'cases': 0, 'rejected': 0, 'disagreements': 0, 'kinds': {}, 'lean_reasons': {}})
    for c, c2, kind, a0, n in meta:
        a = ans[a0:a0 + n]
        lv, verdict = a[1:1 + len(c2.lines)], a[-1]
        pyrecs = [py_parse_line(l) for l in c2.lines]
        lean_ok = verdict == 'ok'
        pyv = py_oracle([x for x in pyrecs if x is not None], c2.d) if all(x is not None for x in pyrecs) else ['line-invalid']
        if lean_ok and any(not v.startswith('rec ') for v in lv):
            lean_ok = False
        hm['cases'] += 1
        hm['kinds'][kind] = hm['kinds'].get(kind, 0) + 1
        if not lean_ok:
            hm['rejected'] += 1
            for rs in verdict.split()[1:]:
                rs = re.sub(r'@\d+$', '', rs)
                hm['lean_reasons'][rs] = hm['lean_reasons'].get(rs, 0) + 1
        if lean_ok != (not pyv):
            hm['disagreements'] += 1
            ck.add_violation('validator-disagreement', 'on a corrupted export (%s) the Lean validator says %s, the python oracle %s' % (kind, verdict, pyv),
                             replay_obj(c, {'mutation': kind, 'lines': [l.decode('latin-1') for l in c2.lines][:400]}), found_input=False)
    return hm['cases']


# ------------------------------------------------------------------ stage 5: exporter configuration (file handling)
def stage_config(ck, exe, tab, hist):
    """the option absent, an unopenable path, an existing file (must be truncated)"""
    cdir = os.path.join(BUILD, 'c20config')
    shutil.rmtree(cdir, ignore_errors=True)
    os.makedirs(cdir)
    r = nlgen.Rng(ck.seed * 31 + 5)
    m, feats = c20gen.gen_model(r, size='small', names='benign')
    stub = os.path.join(cdir, 'm')
    m.write(stub, names=True)
    n = 0
    # 1. no option: the model is converted, no file appears
    res = recsolver.run(exe, stub, options=['cvt:bigM=1e5'], graph=False, timeout=120)
    conv = any(e.get('ev') == 'end' for e in res['log'])
    others = [f for f in os.listdir(cdir) if f not in ('m.nl', 'm.col', 'm.row', 'm.sol', 'm.reclog')]
    if conv and others:
        ck.add_violation('config:file-without-option', 'files %s appeared without cvt:writegraph' % others, {'files': others})
    n += 1
    # 2. unopenable path: the run must fail (nothing delivered), not convert silently without export
    res2 = recsolver.run(exe, stub, options=['cvt:bigM=1e5', 'cvt:writegraph=' + os.path.join(cdir, 'no_such_dir', 'g.jsonl')], graph=False, timeout=120)
    conv2 = any(e.get('ev') == 'end' for e in res2['log'])
    msg = (res2['sol'] or '') + res2['err'] + res2['out']
    hist['config_unopenable'] = 'converted' if conv2 else ('error-reported' if 'graph export file' in msg else 'failed-other')
    if conv and conv2:
        ck.add_violation('config:unopenable-export-ignored', 'cvt:writegraph names a file that cannot be opened but the model was converted without an export',
                         {'options': ['cvt:writegraph=<dir that does not exist>/g.jsonl']})
    n += 1
    # 3. an existing file is replaced, not appended to
    g = os.path.join(cdir, 'g.jsonl')
    open(g, 'w').write('this is not json\n' * 3)
    res3 = recsolver.run(exe, stub, options=['cvt:bigM=1e5', 'cvt:writegraph=' + g], graph=False, timeout=120)
    txt = open(g, 'rb').read()
    if any(e.get('ev') == 'end' for e in res3['log']) and b'this is not json' in txt:
        ck.add_violation('config:export-appended-to-old-file', 'the export was appended to an existing file', {'first_line': txt[:80].decode('latin-1')})
    n += 1
    return n


# ------------------------------------------------------------------ entry
N_THEOREMS = 46


def run(ck):
    quick = ck.tier == 'quick'
    if os.environ.get('VERIF_COVERAGE') == '1':
        return run_coverage(ck)
    gen = os.path.join(LEAN, 'MpVerif', 'Gen', 'C20Json.lean')
    rc, out, err = sh([sys.executable, os.path.join(VERIF, 'translators', 'gen_c20json.py'), REPO, gen, os.path.join(BUILD, 'tr_c20')], timeout=600)
    ck.log((out.strip() or err.strip())[-300:])
    translator_ok = rc == 0
    if translator_ok:
        proof_ok, failing = ck.proof_stage('MpVerif.C20.Props', 'MpVerif/C20/Props.lean', 'C20_', ['MpVerif/C20/*.lean', 'MpVerif/Gen/C20Json.lean'],
                                           expect_min=N_THEOREMS)
    else:
        proof_ok, failing = False, ['translator gen_c20json: ' + (out + err).strip()[-300:]]
        ck.cov.update({'obligations': N_THEOREMS, 'discharged': 0, 'checker_cmd': 'translators/gen_c20json.py failed'})
    ck.log('proof stage: ok=%s failing=%s' % (proof_ok, failing[:8]))
    if ck.tier == 'thorough' and proof_ok:
        bad = ck.leanchecker(['MpVerif.C20.Props'])
        if bad:
            failing += ['leanchecker rejected %s' % m for m in bad]
            proof_ok = False
    drv = ck.driver('drv_c20')
    tab = type_table()
    exe = recsolver.build(ck)
    hist = {'feature': {}, 'names': {}, 'accept': {}, 'outcome': {}, 'record': {}, 'delivered_type': {}, 'stored_type': {},
            'link_type': {}}
    nh = stage_harness(ck, drv, 5000 if quick else 100000, 5000 if quick else 100000, hist)
    ck.log('harness: %d op sequences; %s %s' % (nh, hist.get('harness_json'), hist.get('harness_links')))
    sample_lines = []
    ncases, nval, nlines = stage_validation(ck, exe, drv, tab, 600 if quick else 15000, hist, sample_lines)
    ncfg = stage_config(ck, exe, tab, hist)
    nexp = stage_exporter(ck, drv, hist.pop('_expcases', []), hist)
    ck.log('exporter model vs real exports: %s' % hist.get('exporter_model'))
    nmut = stage_mutation(ck, drv, hist.pop('_okcases', [])[:30 if quick else 60], 4 if quick else 20, hist)
    ck.log('mutation differential: %s' % {k: v for k, v in hist.get('mutation', {}).items() if k != 'kinds'})
    npar = stage_parser(ck, drv, sample_lines[:1000 if quick else 5000], 6000 if quick else 40000, hist)
    ck.log('parser cross-check: %s' % hist['parser_crosscheck'])
    ck.log('validation: %d runs, %d converted+validated, %d export lines; outcomes %s' % (ncases, nval, nlines, hist['outcome']))
    ck.cov['evaluations'] = nlines + nh + npar + ncfg + nmut + nexp
    ck.cov['traces_validated_against_impl'] = nval
    ck.cov['distinct_nontrivial'] = len(hist.pop('_distinct', set()))
    ck.cov['rule'] = 'one recsolver run of the real converter per generated (model, acceptance set, name mode, options); ' \
                     'traces_validated = runs whose model was converted and whose export + API log went through the Lean validator; ' \
                     'distinct_nontrivial = those among them with at least one reformulated (bridged) constraint, distinct by ' \
                     'sha256 of (.nl, .col, .row, acceptance set, options)'
    ck.cov['exhaustive'] = False
    ck.cov['histogram'] = hist
    try:
        cj = json.load(open(os.path.join(VERIF, 'design_notes', 'coverage', 'C20.after.json')))
        ck.cov['anchor_line_cov'] = cj['anchor_line_cov']
        ck.cov['anchor_branch_cov'] = cj['anchor_branch_cov']
        ck.cov['anchor_cov_note'] = 'measured by the last VERIF_COVERAGE=1 run (quick-tier stream, seed %s): design_notes/coverage/C20.md' % cj.get('seed')
    except Exception:
        pass
    ck.assumptions += [
        'NL model sizes (variables, algebraic/logical constraints) are those of the generated model; the number of selected objectives follows obj:no / obj:multi',
        'the RecModelAPI log is the independent record of what the solver API received (types, groups, names, counts); numeric values are not compared',
        'export type names are derived from the STORE_CONSTRAINT_TYPE__* macros of the current tree',
        'runs whose conversion fails (or crashes) are checked line by line only']
    ck.cov['trusted_base'] += ['translators/gen_c20json.py + clang-14 typed AST (integral casts in EscapeJSON treated as value preserving: bytes, small counts, indices); MpVerif/C20/GenBase.lean (meaning of the combinators the generated terms are built from)',
                               'MpVerif/C20/ModelGraph.lean `classify` as the reading of the record shapes; `parse` as the definition of valid JSON (cross-checked with python json on every run)',
                               'harness/recsolver (recording driver) incl. RECSOLVER_LINKS final link extents; harness/h_c20.cc']
    if not proof_ok:
        for f in failing:
            ck.add_violation('obligation:%s' % f, 'proof obligation no longer checks: %s' % f,
                             {'theorem': f, 'module': 'MpVerif.C20.Props'}, found_input=False)


def replay(ck, path):
    """re-run one stored case (a replay/*.json or corpus/C20/*.json file) against the current tree"""
    o = json.load(open(path))
    o = o.get('replay', o)
    drv = ck.driver('drv_c20')
    tab = type_table()
    exe = recsolver.build(ck)
    cdir = os.path.join(BUILD, 'c20replay')
    tmp = os.path.join(BUILD, 'c20replay.json')
    json.dump(o, open(tmp, 'w'))
    c = load_corpus_case(exe, tab, cdir, 0, tmp)
    if c.lines is None:
        print('no export file written; rc=%s err=%s' % (c.rc, c.err[-300:]))
        return 1
    ans = run_driver(drv, driver_ops(c), 'replay')
    lv, verdict = ans[1:1 + len(c.lines)], ans[-1]
    sig, what = classify_case(c, lv, verdict if c.converted else 'ok')
    print('converted=%s lean=%s signature=%s %s' % (c.converted, verdict, sig, what))
    pyrecs = [py_parse_line(l) for l in c.lines]
    if all(x is not None for x in pyrecs) and c.links_final:
        stale, missing = link_staleness(c, pyrecs)
        print('stale link records: %s; registered entries without record: %s' % (stale[:3], missing[:3]))
        if missing:
            ck.add_violation('link-entry-missing:%s' % missing[0][0], 'registered link entry without export record: %s' % (missing[:3],), o)
        for key, exp, fin in stale[:1]:
            ck.add_violation('link-entry-stale:%s:%s' % (key[0], exp[0][0][0]), 'link entry %s #%s exported as %s, final extent %s' % (key[0], key[1], exp, fin), o)
    if sig:
        ck.add_violation(sig, what, o)
    return ck.finish()


# ------------------------------------------------------------------ coverage mode (VERIF_COVERAGE=1; not part of quick/thorough)
ANCHOR_FILES = ['include/mp/util-json-write.h', 'include/mp/util-json-write.hpp', 'include/mp/utils-file.h', 'src/utils_file.cc',
                'include/mp/valcvt.h', 'include/mp/flat/constr_keeper.h', 'include/mp/flat/converter_model.h',
                'include/mp/flat/converter.h', 'include/mp/flat/problem_flattener.h', 'src/std_constr.cc']
MECH_FUNCS = ['EnsureUnset', 'MakeScalarIfUnset', 'EnsureArray', 'EnsureDictionary', 'EnsureCanWrite', 'InsertElementSeparator',
              'MiniJSONWriter<fmt::BasicMemoryWriter<char> >::Close', 'DoWriteString', 'DoWriteScalar', 'EscapeJSON', 'operator++', 'operator[]',
              'ValuePresolverImpl::Add', 'ExportRemainingEntries', 'FinishExportingLinkEntries', 'AllEntriesExported', 'ExportLinkEntry',
              'WriteNodes', 'IsLastRegisteredEntry', 'ExportConstraint', 'ExportConStatus', 'AddAllUnbridged', 'LogConstraintGroup',
              'ExportCommonExpr', 'ExportObj', 'ExportAlgCon', 'ExportLogCon', 'ExportVars', 'ExportObjective', 'OpenGraphExporter',
              'CloseGraphExporter', 'FileAppender', 'PushObjectivesTo', 'PushVariablesTo', 'CopyLink::AddEntry', 'Many2ManyLink::AddEntry']


def cov_build(ck, cdir):
    """compile recsolver + h_c20 + the mp library with --coverage -O0 into cdir (plain names, so that .gcda sit next to .gcno)"""
    from concurrent.futures import ThreadPoolExecutor
    os.makedirs(cdir, exist_ok=True)
    inc = ['-I' + os.path.join(REPO, 'include'), '-I' + os.path.join(REPO, 'src'), '-I' + os.path.join(VERIF, 'harness'),
           '-I' + recsolver.RDIR]
    defs = ['-DNDEBUG', '-DMP_DATE=20240320', '-DMP_SYSINFO="Linux x86_64"', '-DMP_USE_ATOMIC', '-DMP_USE_HASH', '-DMP_USE_UNIQUE_PTR', '-DAMPL_MP_VERIF']
    base = ['g++', '-std=c++17', '-w', '-O0', '--coverage'] + defs + inc
    rec = [os.path.join(recsolver.RDIR, f) for f in ['recmain.cc', 'recmodelmgr.cc', 'recmodelapi.cc', 'recbackend.cc']]
    lib = [os.path.join(REPO, s) for s in ck.LIBMP_SRC]
    har = [os.path.join(VERIF, 'harness', 'h_c20.cc')]
    stamp = hashlib.sha256()
    for src in rec + lib + har:
        stamp.update(open(src, 'rb').read())
    for f in ANCHOR_FILES:
        stamp.update(open(os.path.join(REPO, f), 'rb').read())
    tag = stamp.hexdigest()[:12]
    tagf = os.path.join(cdir, 'stamp')

    def objname(src):
        return os.path.join(cdir, os.path.basename(src).replace('.', '_') + '.o')
    if not (os.path.exists(tagf) and open(tagf).read() == tag and os.path.exists(os.path.join(cdir, 'recsolver'))):
        def one(src):
            rc, out, err = sh(base + ['-c', src, '-o', objname(src)], timeout=3600)
            if rc != 0:
                raise RuntimeError('coverage compile failed for %s: %s' % (src, err[-2000:]))
        with ThreadPoolExecutor(max_workers=8) as ex:
            list(ex.map(one, rec + lib + har))
        for name, srcs in (('recsolver', rec + lib), ('h_c20', har + lib)):
            rc, out, err = sh(['g++', '--coverage'] + [objname(s) for s in srcs] + ['-o', os.path.join(cdir, name), '-ldl'], timeout=1800)
            if rc != 0:
                raise RuntimeError('coverage link failed: %s' % err[-2000:])
        open(tagf, 'w').write(tag)
    for f in glob.glob(os.path.join(cdir, '*.gcda')):
        os.remove(f)
    return os.path.join(cdir, 'recsolver'), os.path.join(cdir, 'h_c20'), [objname(s) for s in rec + lib + har]


def cov_collect(cdir, objs):
    """run gcov-12 (JSON) on every .gcda and merge per anchored file: line -> count, line -> branches, functions"""
    lines, branches, funcs = {}, {}, {}
    for o in objs:
        gcda = o[:-2] + '.gcda'
        if not os.path.exists(gcda):
            continue
        rc, out, err = sh(['gcov-12', '-b', '-c', '-m', '--json-format', '--stdout', gcda], cwd=cdir, timeout=1800)
        if rc != 0:
            continue
        for doc in out.split('\n'):
            if not doc.startswith('{'):
                continue
            j = json.loads(doc)
            for f in j.get('files', []):
                fn = os.path.normpath(f['file'] if os.path.isabs(f['file']) else os.path.join(cdir, f['file']))
                rel = None
                for a in ANCHOR_FILES:
                    if fn.endswith('/' + a):
                        rel = a
                if rel is None:
                    continue
                L, B, Fn = lines.setdefault(rel, {}), branches.setdefault(rel, {}), funcs.setdefault(rel, {})
                for ln in f['lines']:
                    n = ln['line_number']
                    L[n] = L.get(n, 0) + ln['count']
                    br = [b for b in ln.get('branches', []) if not b.get('throw')]
                    if br:
                        cur = B.setdefault(n, [0] * len(br))
                        if len(cur) == len(br):
                            for k, b in enumerate(br):
                                cur[k] += b['count']
                        elif sum(b['count'] for b in br) > 0:      # another instantiation with a different shape: keep "any taken" info
                            B[n] = [c or b['count'] for c, b in zip(cur + [0] * len(br), br + [{'count': 0}] * len(cur))][:max(len(cur), len(br))]
                for fu in f['functions']:
                    key = (fu['start_line'], fu['end_line'])
                    e = Fn.setdefault(key, {'names': {}, 'count': 0})
                    nm = fu.get('demangled_name', fu['name'])
                    e['names'][nm] = e['names'].get(nm, 0) + fu['execution_count']
                    e['count'] += fu['execution_count']
    return lines, branches, funcs


def fn_label(nm):
    """Class::method of a demangled name (template arguments dropped)"""
    flat, depth = '', 0
    for ch in nm.split('(')[0] if not nm.startswith('void ') and 'operator' in nm and False else nm:
        if ch == '<':
            depth += 1
        elif ch == '>':
            depth -= 1
        elif depth == 0:
            flat += ch
    flat = flat.replace('mp::', '').replace('pre::', '')
    m = re.search(r'([\w~]+::)?(operator\W+|[\w~]+)\s*\(', flat)
    return (m.group(0)[:-1].strip() if m else flat[:80])


def con_type_of(nm):
    """constraint type argument of ConstraintKeeper<Converter, Backend, Constraint>::f"""
    m = re.search(r'.*mp::RecModelAPI, (mp::.*)>::\w+\(', nm)
    if not m:
        return nm[-80:]
    t = m.group(1).replace('mp::', '')
    ids = re.findall(r'(\w+Id)\b', t)
    t = re.sub(r'std::(vector|array)<[^<>]*(<[^<>]*>)?[^<>]*>', 'v', t)
    return (ids[-1] if ids else t)[:100]


def short_fn(nm):
    nm = re.sub(r'\[with .*', '', nm)
    m = re.search(r'([\w:~<>\+\[\]=, \*&]*?)(\w+::)?(operator\S+|~?\w+)\s*\(', nm)
    return nm[:140]


def run_coverage(ck):
    cdir = os.path.join(BUILD, 'cov')
    ck.log('coverage build (-O0 --coverage) ...')
    exe, hexe, objs = cov_build(ck, cdir)
    drv = ck.driver('drv_c20')
    tab = type_table()
    hist = {'feature': {}, 'names': {}, 'accept': {}, 'outcome': {}, 'record': {}, 'delivered_type': {}, 'stored_type': {}, 'link_type': {}}
    # the quick-tier input stream
    arms = {}
    for mode in ('json', 'links'):
        p = subprocess.run([hexe, mode, str(ck.seed), '5000'], capture_output=True, text=True)
        ops = [l.split(' | ')[0] for l in p.stdout.split('\n') if l]
        ops = [('WA' + o[1:]) if mode == 'json' else ('XA' + o[1:]) for o in ops]
        for a_ in run_driver(drv, ops, 'arms'):
            for t in a_.split():
                key = ('step/escChar: ' if mode == 'json' else 'addEntry/addRange: ') + t
                arms[key] = arms.get(key, 0) + 1
    sample_lines = []
    ncases, nval, nlines = stage_validation(ck, exe, drv, tab, 600, hist, sample_lines)
    ck.log('coverage stream: %d runs, %d validated; outcomes %s' % (ncases, nval, hist['outcome']))
    hist.pop('_expcases', None)
    hist.pop('_okcases', None)
    stage_config(ck, exe, tab, hist)
    lines, branches, funcs = cov_collect(cdir, objs)
    rep = {'seed': ck.seed, 'runs': ncases, 'files': {}}
    md = ['# C20 — coverage of the anchored code by the quick-tier input stream', '',
          'Measured with `VERIF_COVERAGE=1 ./check C20` (g++-12 `--coverage -O0`, gcov-12 `-b -c`, recsolver + h_c20 + libmp built in `build/cov`; '
          'header-only template code is counted through the TUs that instantiate it; lines/branches merged over all TUs and instantiations; '
          'exception-only branches excluded).  Seed %d, %d recsolver runs + 2 x 5000 harness op sequences.' % (ck.seed, ncases), '',
          '| file | lines | covered | line % | branches | taken | branch % |', '|---|---|---|---|---|---|---|']
    tl = tc = tb = tt = 0
    for f in ANCHOR_FILES:
        L, B = lines.get(f, {}), branches.get(f, {})
        nl, cl = len(L), sum(1 for v in L.values() if v > 0)
        nb, bt = sum(len(v) for v in B.values()), sum(1 for v in B.values() for c in v if c > 0)
        tl += nl; tc += cl; tb += nb; tt += bt
        rep['files'][f] = {'lines': nl, 'lines_covered': cl, 'branches': nb, 'branches_taken': bt}
        md.append('| %s | %d | %d | %s | %d | %d | %s |' % (f, nl, cl, ('%.1f' % (100.0 * cl / nl)) if nl else 'n/a (no code instantiated)',
                                                         nb, bt, ('%.1f' % (100.0 * bt / nb)) if nb else 'n/a'))
    md.append('| **all anchored files** | %d | %d | **%.1f** | %d | %d | **%.1f** |' % (tl, tc, 100.0 * tc / max(tl, 1), tb, tt, 100.0 * tt / max(tb, 1)))
    rep['anchor_line_cov'] = round(100.0 * tc / max(tl, 1), 1)
    rep['anchor_branch_cov'] = round(100.0 * tt / max(tb, 1), 1)
    md += ['', '`support/modelexplore/modelexplore.py` is a python reader of the file, not part of the exporter: not measured.', '',
           '## Mechanism functions', '', '| file:lines | function | instantiations run / all | uncovered lines | branches never taken (line: arm) |', '|---|---|---|---|---|']
    mech = {}
    for f in ANCHOR_FILES:
        src = open(os.path.join(REPO, f), errors='replace').read().split('\n')
        for (a, b), e in sorted(funcs.get(f, {}).items()):
            nm = sorted(e['names'])[0]
            if not any(m in nm for m in MECH_FUNCS):
                continue
            L, B = lines.get(f, {}), branches.get(f, {})
            unc = [n for n in range(a, b + 1) if L.get(n) == 0]
            nb = ['%d:%s' % (n, ','.join(str(k) for k, c in enumerate(B[n]) if c == 0)) for n in range(a, b + 1) if n in B and any(c == 0 for c in B[n])]
            ran = sum(1 for v in e['names'].values() if v > 0)
            label = fn_label(nm)
            mech['%s:%d' % (f, a)] = {'function': label, 'inst_run': ran, 'inst_all': len(e['names']), 'uncovered_lines': unc, 'branches_never_taken': nb,
                                      'not_run': sorted(con_type_of(k) for k, v in e['names'].items() if v == 0)[:100]}
            md.append('| %s:%d-%d | `%s` | %d / %d | %s | %s |' % (f.split('/')[-1], a, b, label, ran, len(e['names']),
                                                               ' '.join(map(str, unc)) or '–', ' '.join(nb) or '–'))
    rep['mechanism'] = mech
    never = {}
    for k, v in mech.items():
        if v['inst_run'] < v['inst_all'] and ('ExportConstraint' in v['function'] or 'ExportConStatus' in v['function'] or 'AddAllUnbridged' in v['function']):
            never[v['function']] = v['not_run']
    md += ['', '## Constraint types whose keeper functions never ran (template instantiations with count 0)', '']
    for fn, lst in never.items():
        md.append('* `%s`: %s' % (fn, ', '.join(lst) or '(none)'))
    expected = ['step/escChar: %s/%s/%s' % (o, k, n) for o, ks in (('key', ['unset', 'dict', 'array']), ('elem', ['unset', 'array', 'dict']),
                                                                    ('scalar', ['unset', 'array', 'dict']), ('scalar-nonfinite', ['unset']),
                                                                    ('string', ['unset', 'array', 'dict']), ('close', ['unset', 'scalar', 'array', 'dict']))
                for k in ks for n in (['first'] if k == 'unset' else ['later'])]
    expected += ['step/escChar: esc:' + e for e in ('quote', 'backslash', 'lf', 'cr', 'tab', 'u00XX', 'plain')]
    expected += ['addEntry/addRange: ' + e for e in ('first-entry/range-first', 'first-entry/range-new(exports-pending)', 'not-last-registered:push/range-new(exports-pending)',
                                                     'copy:extend-in-place', 'copy:push/range-extended', 'm2m:extend-dst', 'm2m:extend-src', 'm2m:push/range-extended',
                                                     'finish:exports', 'finish:nothing-left')]
    md += ['', '## Model arms taken by the quick-tier correspondence streams (Lean `step`/`escChar`, `addEntry`/`addRange`/`exportRemaining`)', '',
           '| arm | times |', '|---|---|']
    for k_ in sorted(set(list(arms) + expected)):
        md.append('| %s | %s |' % (k_, arms.get(k_, '**0**')))
    md += ['', 'Record shapes decoded by `classify` in the validation stream: %s' % json.dumps(hist['record']), '',
           'Rejecting arms of `checkGraph` are exercised by the mutation differential (stage 6 of the check); reasons seen in the last quick run are in the evidence (`histogram.mutation.lean_reasons`).']
    rep['model_arms'] = arms
    os.makedirs(os.path.join(VERIF, 'design_notes', 'coverage'), exist_ok=True)
    label = os.environ.get('VERIF_COVERAGE_LABEL', 'last')
    open(os.path.join(VERIF, 'design_notes', 'coverage', 'C20.%s.auto.md' % label), 'w').write('\n'.join(md) + '\n')
    json.dump(rep, open(os.path.join(VERIF, 'design_notes', 'coverage', 'C20.%s.json' % label), 'w'), indent=1)
    ck.log('anchor line coverage %.1f%%, branch coverage %.1f%%' % (rep['anchor_line_cov'], rep['anchor_branch_cov']))
    ck.cov.update({'obligations': 0, 'discharged': 0, 'evaluations': nlines, 'distinct_nontrivial': len(hist.pop('_distinct', set())),
                   'rule': 'coverage measurement run', 'traces_validated_against_impl': nval, 'checker_cmd': 'VERIF_COVERAGE=1 ./check C20'})
    ck.level = 'exploration'

"""C08 — matrix-based ("easy") model API writes the given LP/QP and un-permutes solutions.

Stages: (1) Lean theorems about the model MpVerif.C08 (+ axiom audit); (2) correspondence: generated
matrix models -> real NLModel/NLSolver (C++ API and C wrapper) -> .nl/.col/.row -> real mp::ReadNLFile
into mp::Problem, and .sol -> NLSolver::ReadSolution, compared line by line with the Lean driver's
prediction; (3) property oracle in python, independent of the Lean model, evaluated on what the real
code returned.
"""
import os, sys, json, random, subprocess, re, shutil
from fractions import Fraction
from common import *

N_THEOREMS = 25

# ------------------------------------------------------------------------------------------- cases
# A case is a dict; numbers are ints k meaning k/8, or 'I' / '-I'.

def csr(rows):
    start, idx, val = [], [], []
    for r in rows:
        start.append(len(idx))
        for (c, v) in r:
            idx.append(c); val.append(v)
    return start, idx, val


def case_line(c):
    t = ['C', c['id'], c.get('session', 0), c['api'], c['text'], c['comments'], c['flags'], c['n']]
    t.append(1 if c['types'] is not None else 0)
    if c['types'] is not None:
        t += c['types']
    t += c['lb'] + c['ub']
    t += [c['sense'], c['c0'], 1 if c['c'] is not None else 0]
    if c['c'] is not None:
        t += c['c']
    qs, qi, qv = csr(c['Q'])
    t += [c['qfmt'], len(qi)] + qs + qi + qv
    as_, ai, av = csr(c['A'])
    t += [c['m']] + c['rlb'] + c['rub'] + [len(ai)] + as_ + ai + av
    t.append(len(c['ws']))
    for (i, v) in c['ws']:
        t += [i, v]
    t.append(len(c['dws']))
    for (i, v) in c['dws']:
        t += [i, v]
    t.append(len(c['sufs']))
    for s in c['sufs']:
        t += [s['name'], s['kind'], len(s['values'])] + s['values']
    t.append(1 if c['cn'] is not None else 0)
    if c['cn'] is not None:
        t += [x or '~' for x in c['cn']]
    t.append(1 if c['rn'] is not None else 0)
    if c['rn'] is not None:
        t += [x or '~' for x in c['rn']]
    t.append(c['objname'] or '~')
    t += [c['solfmt'], len(c['solx'])] + c['solx'] + [len(c['soly'])] + c['soly'] + [c['code'], len(c['ssuf'])]
    for s in c['ssuf']:
        t += [s['name'], s['kind'], len(s['entries'])]
        for (i, v) in s['entries']:
            t += [i, v]
    return ' '.join(str(x) for x in t)


def base_case(cid, n, m):
    return {'id': cid, 'session': 0, 'api': 0, 'text': 1, 'comments': 1, 'flags': 1, 'n': n, 'types': None, 'lb': [0] * n, 'ub': [80] * n,
            'sense': 0, 'c0': 0, 'c': [0] * n, 'qfmt': 1, 'Q': [[] for _ in range(n)], 'm': m, 'rlb': ['-I'] * m, 'rub': [80] * m,
            'A': [[] for _ in range(m)], 'ws': [], 'dws': [], 'sufs': [], 'cn': None, 'rn': None, 'objname': 'obj',
            'solfmt': 0, 'solx': [8 * (i + 1) for i in range(n)], 'soly': [8] * m, 'code': 0, 'ssuf': []}


def corpus_cases():
    """fixed cases run first: the worked example of the library, and one witness per Lean counterexample theorem"""
    out = []
    # the 6-variable MIQP of nl-writer2/examples/cpp/easyAPI_1_MIQP
    c = base_case('ex6', 6, 2)
    c.update(types=[0, 1, 1, 1, 0, 0], lb=[0, -24, 0, -8, -8, -16], ub=[0, 160, 8, 'I', -8, 80], c0=26, c=[0, 8, 0, 0, 0, 0], qfmt=2,
             Q=[[], [], [], [(3, 80), (5, 96)], [(4, 112)], []], rlb=[120, 80], rub=[120, 'I'],
             A=[[(1, 8), (2, 8), (3, 8), (5, 8)], [(1, 8), (2, -8), (3, -8), (5, 8)]],
             cn=['x1_4', 'x2_6', 'x3_5', 'x4_3', 'x5_1', 'x6_2'], rn=['C1', 'C2'], objname='obj[1]',
             solx=[-8, 80, -8, 0, 8, 40], soly=[8, 0])
    out.append(c)
    for api in (0, 1):
        for text in (1, 0):
            d = dict(c); d['id'] = 'ex6a%dt%d' % (api, text); d['api'] = api; d['text'] = text
            out.append(d)
    # C08_counterexample_types: two general-integer columns, triangular Hessian with 3 nonzeros
    c = base_case('cxtypes', 2, 1)
    c.update(types=[1, 1], lb=[0, 0], ub=[40, 40], c0=8, Q=[[(0, 16), (1, 8)], [(1, 16)]], A=[[(0, 8), (1, 8)]], cn=['x', 'y'], rn=['r'])
    out.append(c)
    # C08_counterexample_unreadable: minimize x0^2 (one Hessian nonzero, no offset)
    c = base_case('cxsum', 2, 0)
    c.update(Q=[[(0, 16)], []])
    out.append(c)
    d = dict(c); d['id'] = 'cxsumb'; d['text'] = 0
    out.append(d)
    # C08_counterexample_block: x0*x1 only (off-diagonal, row variable not flagged)
    c = base_case('cxblock', 4, 0)
    c.update(Q=[[(1, 8)], [(2, 8)], [(3, 8)], []], c=[8, 0, 8, 0], types=[1, 0, 0, 0])
    out.append(c)
    # C08_counterexample_objvalue_null: no linear coefficients
    c = base_case('cxnull', 2, 0)
    c.update(c=None, c0=8, Q=[[(0, 16)], [(1, 16)]])
    out.append(c)
    # C wrapper: dual warm start lands in the primal warm start
    c = base_case('cxcdual', 2, 2)
    c.update(api=1, A=[[(0, 8)], [(1, 8)]], ws=[(0, 24)], dws=[(1, 16)])
    out.append(c)
    # a history: three models with different sizes and permutations through ONE NLSolver / PreprocessData
    # (C++ API), then the same through the C wrapper: the exported permutation must be that of the last model
    for tag, api, sess in (('h', 0, 9001), ('hc', 1, 9002)):
        c = base_case(tag + '1', 3, 1)
        c.update(session=sess, api=api, types=[1, 0, 1], lb=[0, 0, 0], ub=[40, 80, 8], c=[8, 0, 0], A=[[(0, 8), (1, 8)]],
                 ssuf=[{'name': 'sstatus', 'kind': 0, 'entries': [(0, 8), (1, 16), (2, 24)]}])
        out.append(c)
        c = base_case(tag + '2', 4, 0)
        c.update(session=sess, api=api, types=[0, 1, 0, 0], lb=[0, 0, 0, 0], ub=[40, 8, 80, 80], c=[0, 0, 16, 0],
                 Q=[[], [], [], [(3, 16)]], c0=8, solx=[8, 16, 24, 32], ssuf=[{'name': 'sstatus', 'kind': 0, 'entries': [(0, 8), (3, 16)]}])
        out.append(c)
        c = base_case(tag + '3', 2, 1)
        c.update(session=sess, api=api, types=[1, 0], lb=[0, 0], ub=[40, 80], c=[8, 16], A=[[(1, 8)]], solx=[24, 40])
        out.append(c)
    # healthy QP: diagonal Hessian on three columns
    c = base_case('okdiag', 4, 1)
    c.update(types=[1, 0, 1, 1], lb=[0, -8, 0, 0], ub=[8, 8, 8, 24], Q=[[(0, 16)], [(1, 8)], [], [(3, 24)]], c=[8, 0, -8, 0], A=[[(0, 8), (2, 16)]],
             ws=[(2, 8), (0, 8)], dws=[(0, -8)], sufs=[{'name': 'priority', 'kind': 0, 'values': [8, 0, 16, 24]}], cn=['a', 'b', 'c', 'd'], rn=['r0'],
             ssuf=[{'name': 'sstatus', 'kind': 0, 'entries': [(0, 8), (3, 24)]}])
    out.append(c)
    return out


VALS = [-24, -16, -12, -8, -4, -1, 1, 2, 4, 8, 8, 12, 16, 24, 40]
NAMES = ['sosno', 'ref', 'priority', 'sstatus', 'foo', 'bar_1', 'z']


def gen_case(rng, cid, tier, hist):
    big = tier == 'thorough'
    n = rng.choice([1, 2, 2, 3, 3, 4, 4, 5, 6, 7] + ([8, 10, 12] if big else []))
    m = rng.choice([0, 1, 1, 2, 2, 3, 4] + ([6] if big else []))
    c = base_case(cid, n, m)
    c['api'] = 1 if rng.random() < 0.3 else 0
    c['text'] = 1 if rng.random() < 0.6 else 0
    c['comments'] = rng.randint(0, 1)
    c['flags'] = rng.randint(0, 1)
    # ---- columns
    tmode = rng.choice(['null', 'cont', 'mixed', 'mixed', 'mixed', 'allint'])
    if tmode == 'null':
        c['types'] = None
    else:
        c['types'] = [0 if tmode == 'cont' else 1 if tmode == 'allint' else rng.randint(0, 1) for _ in range(n)]
    lb, ub = [], []
    for j in range(n):
        k = rng.random()
        if k < 0.35:
            l, u = 0, 8                       # [0,1]: binary if integer
        elif k < 0.45:
            l, u = rng.choice([(0, 16), (8, 8), (-8, 8), (0, 'I'), (0, 9), (1, 8)])   # near-binary
        else:
            l = rng.choice(['-I', -80, -8, 0, 0, 4])
            u = rng.choice(['I', 80, 8, 16, 24])
        lb.append(l); ub.append(u)
    c['lb'], c['ub'] = lb, ub
    # ---- objective
    c['sense'] = rng.randint(0, 1)
    c['c0'] = 0 if rng.random() < 0.4 else rng.choice(VALS)
    c['c'] = None if rng.random() < 0.15 else [0 if rng.random() < 0.4 else rng.choice(VALS) for _ in range(n)]
    c['qfmt'] = rng.choice([1, 2])
    qmode = rng.choice(['none', 'none', 'diag', 'diag', 'distinctcols', 'offdiag', 'upper', 'square', 'dups', 'colonly', 'random'])
    Q = [[] for _ in range(n)]
    v = lambda: rng.choice(VALS + [0]) if rng.random() < 0.1 else rng.choice(VALS)
    if qmode == 'diag':
        for j in rng.sample(range(n), rng.randint(1, n)):
            Q[j].append((j, v()))
    elif qmode == 'distinctcols':      # every column index at most once (the header count is then right)
        cols = rng.sample(range(n), rng.randint(1, n))
        for col in cols:
            Q[rng.choice([col, rng.randrange(n)])].append((col, v()))
    elif qmode == 'offdiag':
        for _ in range(rng.randint(1, 4)):
            i, j = rng.randrange(n), rng.randrange(n)
            if i != j:
                Q[min(i, j)].append((max(i, j), v()))
    elif qmode == 'upper':
        sub = sorted(rng.sample(range(n), rng.randint(1, min(n, 4))))
        for a in sub:
            for b in sub:
                if a <= b and rng.random() < 0.8:
                    Q[a].append((b, v()))
    elif qmode == 'square':
        sub = sorted(rng.sample(range(n), rng.randint(1, min(n, 3))))
        for a in sub:
            for b in sub:
                if a <= b:
                    w = v()
                    Q[a].append((b, w))
                    if a != b:
                        Q[b].append((a, w))
    elif qmode == 'dups':
        for _ in range(rng.randint(2, 5)):
            i, j = rng.randrange(n), rng.randrange(n)
            w = v()
            Q[i].append((j, w))
            if rng.random() < 0.6:
                Q[i].append((j, v()))
    elif qmode == 'colonly':
        j = rng.randrange(n)
        for i in rng.sample(range(n), rng.randint(1, n)):
            Q[i].append((j, v()))
    elif qmode == 'random':
        for _ in range(rng.randint(1, 8)):
            Q[rng.randrange(n)].append((rng.randrange(n), v()))
    # most of the time avoid the unreadable 1- and 2-argument sum nodes (finding C08-sum-arity) so that the
    # read-back lines are exercised
    nnz = sum(len(r) for r in Q)
    if 0 < nnz + (1 if c['c0'] else 0) < 3 and rng.random() < 0.8:
        if c['c0'] == 0 and rng.random() < 0.5:
            c['c0'] = rng.choice(VALS)
        free = [j for j in range(n) if all(col != j for r in Q for (col, _) in r)]
        while sum(len(r) for r in Q) + (1 if c['c0'] else 0) < 3:
            if free:
                j = free.pop(); Q[j].append((j, v()))
            else:
                j = rng.randrange(n); Q[j].append((j, v()))
    for r in Q:
        if rng.random() < 0.8:
            r.sort(key=lambda e: e[0])
    c['Q'] = Q
    # ---- rows
    A = []
    for i in range(m):
        k = rng.random()
        if k < 0.15:
            row = []
        else:
            cols = rng.sample(range(n), rng.randint(1, n))
            if rng.random() < 0.7:
                cols.sort()
            row = [(j, rng.choice(VALS)) for j in cols]
        A.append(row)
    c['A'] = A
    rl, ru = [], []
    for i in range(m):
        k = rng.choice(['le', 'ge', 'eq', 'range', 'free'])
        a, b = sorted([rng.choice(VALS), rng.choice(VALS)])
        if k == 'le': rl.append('-I'); ru.append(b)
        elif k == 'ge': rl.append(a); ru.append('I')
        elif k == 'eq': rl.append(a); ru.append(a)
        elif k == 'range': rl.append(a); ru.append(b)
        else: rl.append('-I'); ru.append('I')
    c['rlb'], c['rub'] = rl, ru
    # ---- warm starts
    if rng.random() < 0.6:
        js = rng.sample(range(n), rng.randint(1, n))
        c['ws'] = [(j, rng.choice(VALS)) for j in js]
    if m and rng.random() < 0.5:
        lim = min(n, m) if c['api'] == 1 else m      # C wrapper routes these into the primal warm start: keep indices valid there
        c['dws'] = [(i, rng.choice(VALS)) for i in rng.sample(range(lim), rng.randint(1, lim))]
    # ---- suffixes
    sufs = []
    for _ in range(rng.choice([0, 0, 1, 1, 2, 3])):
        kind = rng.choice([0, 0, 0, 1, 1, 2, 3, 4, 4, 5, 6, 7])
        size = n if kind % 4 == 0 else m if kind % 4 == 1 else 1
        name = rng.choice(NAMES)
        if kind & 4:
            vals = [0 if rng.random() < 0.4 else rng.choice(VALS) for _ in range(size)]
        else:
            vals = [0 if rng.random() < 0.4 else 8 * rng.randint(-3, 9) for _ in range(size)]
            if rng.random() < 0.15:
                vals = [x if rng.random() < 0.5 else rng.choice([4, -4, 12, 2, -12, 20]) for x in vals]   # non-integral -> std::round
        sufs.append({'name': name, 'kind': kind, 'values': vals})
    c['sufs'] = sufs
    # ---- names
    if rng.random() < 0.6:
        c['cn'] = [rng.choice(['x', 'y', 'var', 'longer_name']) + '%d' % j + ('[%d]' % j if rng.random() < 0.3 else '') for j in range(n)]
    if rng.random() < 0.5:
        c['rn'] = ['r%d' % i + rng.choice(['', '_c', '[a]']) for i in range(m)]
    c['objname'] = rng.choice(['obj', 'obj[1]', 'TotalCost', 'z'])
    # ---- solution file (values in NL order)
    c['solfmt'] = rng.choice([0, 2])
    k = rng.random()
    nx = n if k < 0.8 else 0 if k < 0.9 else rng.randint(0, n)
    c['solx'] = [rng.choice(VALS + [0]) for _ in range(nx)]
    c['soly'] = [rng.choice(VALS + [0]) for _ in range(m if rng.random() < 0.8 else 0)]
    c['code'] = rng.choice([0, 0, 100, 200, 300, 400, 502, -1])
    ss, seen = [], set()
    for _ in range(rng.choice([0, 0, 1, 2])):
        kind = rng.choice([0, 0, 0, 1, 2, 3, 4, 4, 5])
        name = rng.choice(NAMES)
        if (name, kind & 3) in seen:
            continue
        seen.add((name, kind & 3))
        size = n if kind % 4 == 0 else m if kind % 4 == 1 else 1
        if size == 0:
            continue
        idx = sorted(rng.sample(range(size), rng.randint(1, size)))
        ss.append({'name': name, 'kind': kind, 'entries': [(i, rng.choice(VALS) if kind & 4 else 8 * rng.randint(1, 6)) for i in idx]})
    c['ssuf'] = ss
    for key, val in (('qmode', qmode), ('types', tmode), ('n', n), ('m', m), ('api', 'c' if c['api'] else 'c++'),
                     ('format', 'text' if c['text'] else 'binary'), ('solfmt', 'mp::WriteSolFile' if c['solfmt'] == 2 else 'own-text')):
        h = hist.setdefault(key, {})
        h[str(val)] = h.get(str(val), 0) + 1
    return c


# ------------------------------------------------------------------------------------------- oracle
def fr(tok):
    """harness number token (scaled by 1024) -> Fraction / +-inf"""
    if tok == 'I': return float('inf')
    if tok == '-I': return float('-inf')
    return Fraction(int(tok), 1024)


def inp(k):
    if k == 'I': return float('inf')
    if k == '-I': return float('-inf')
    return Fraction(k, 8)


def parse_sexpr(s):
    toks = s.replace('(', ' ( ').replace(')', ' ) ').split()
    pos = [0]

    def rd():
        t = toks[pos[0]]; pos[0] += 1
        if t == '(':
            op = toks[pos[0]]; pos[0] += 1
            args = []
            while toks[pos[0]] != ')':
                args.append(rd())
            pos[0] += 1
            return (op, args)
        return t
    return rd()


def poly_of(e):
    """polynomial {sorted tuple of var positions: coef} of an expression tree"""
    if isinstance(e, str):
        if e == 'nil': return {}
        if e[0] == 'n': return {(): fr(e[1:])}
        if e[0] == 'v': return {(int(e[1:]),): Fraction(1)}
        raise ValueError('unexpected node ' + e)
    op, args = e
    if op == '+':
        r = {}
        for a in args:
            for k, v in poly_of(a).items():
                r[k] = r.get(k, 0) + v
        return r
    if op == '*':
        a, b = poly_of(args[0]), poly_of(args[1])
        r = {}
        for k1, v1 in a.items():
            for k2, v2 in b.items():
                k = tuple(sorted(k1 + k2))
                r[k] = r.get(k, 0) + v1 * v2
        return r
    raise ValueError('unexpected op ' + op)


def clean(p):
    return {k: v for k, v in p.items() if v != 0}


def vars_of(e, acc):
    if isinstance(e, str):
        if e[0] == 'v': acc.add(int(e[1:]))
    else:
        for a in e[1]:
            vars_of(a, acc)
    return acc


def round_ha(fq):
    import math
    return math.floor(fq + Fraction(1, 2)) if fq >= 0 else -math.floor(-fq + Fraction(1, 2))


def oracle(c, lines):
    """the property itself, evaluated on what the real code returned for case c. Returns list of (sig, what)."""
    bad = []
    n, m = c['n'], c['m']
    L = {}
    for l in lines:
        p = l.split(' ')
        L.setdefault(p[1] if p[1] != 'sol' else 'sol ' + p[2], []).append(p)
    def one(k):
        return L[k][0] if k in L else None
    perm = [int(x) for x in one('perm')[2:]]
    inv = [int(x) for x in one('inv')[2:]]
    if c.get('session') and (len(perm) != n or len(inv) != n):
        bad.append(('history:exported-permutation-size', 'after a second model through the same PreprocessData the exported permutation has %d/%d entries for %d columns: %s / %s' % (len(perm), len(inv), n, perm, inv)))
        return bad
    if sorted(perm) != list(range(n)) or len(inv) != n or any(inv[perm[j]] != j for j in range(n)):
        bad.append(('perm:not-a-bijection', 'reported permutation %s / inverse %s' % (perm, inv)))
        return bad
    if one('load')[2:] != ['1', '1']:
        bad.append(('load:failed', 'LoadModel / WriteNL failed'))
        return bad
    is_int = [bool(c['types'] and c['types'][j]) for j in range(n)]
    qent = [(i, col, Fraction(v, 8)) for i, row in enumerate(c['Q']) for (col, v) in row]
    nlset = set([i for i, _, _ in qent] + [col for _, col, _ in qent])
    hdr = one('hdr'); H = {hdr[i]: hdr[i + 1] for i in range(2, len(hdr), 2)}
    rb = one('readback')
    # ---- header class counts = sizes of the blocks of the reported order
    # input class of the open finding C08-nlvo: the Hessian's column indices are not exactly the set of
    # variables of the quadratic part, each once (duplicate column index, or a row variable that is never a column index)
    cols = [col for _, col, _ in qent]
    cause = 'nlvo' if (len(cols) != len(set(cols)) or set(cols) != nlset) else 'header'
    lead = sorted(perm[j] for j in nlset) == list(range(len(nlset)))
    if int(H['nlvo']) != len(nlset):
        bad.append((cause + ':nlvo-count', 'header says %s variables nonlinear in the objective, the quadratic part has %d (Hessian: %d nonzeros, %d distinct column indices)' % (H['nlvo'], len(nlset), len(qent), len(set(cols)))))
    if not lead:
        bad.append((cause + ':nonlinear-var-outside-block', 'variables of the quadratic part %s sit at NL positions %s, not in a leading block' % (sorted(nlset), sorted(perm[j] for j in nlset))))
    if int(H['nlvoi']) != sum(1 for j in nlset if is_int[j]):
        bad.append((cause + ':nlvoi-count', 'header nonlinear integer count %s, integer columns in the quadratic part %d' % (H['nlvoi'], sum(1 for j in nlset if is_int[j]))))
    lin_int = [j for j in range(n) if is_int[j] and j not in nlset]
    lin_bin = [j for j in lin_int if c['lb'][j] == 0 and c['ub'][j] == 8]
    if int(H['nbv']) != len(lin_bin) or int(H['niv']) != len(lin_int) - len(lin_bin):
        bad.append((cause + ':linear-integer-count', 'header nbv=%s niv=%s, linear binary columns %d, other linear integer columns %d' % (H['nbv'], H['niv'], len(lin_bin), len(lin_int) - len(lin_bin))))
    # positions inside the blocks: nonlinear continuous, nonlinear integer, linear continuous, binary, integer
    def cls(j):
        if j in nlset: return 1 if is_int[j] else 0
        if not is_int[j]: return 2
        return 3 if j in lin_bin else 4
    seq = [cls(inv[i]) for i in range(n)]
    if seq != sorted(seq):
        bad.append((cause + ':block-order', 'classes by NL position %s are not in NL order (0 nl cont, 1 nl int, 2 lin cont, 3 binary, 4 integer)' % seq))
    if H['nvars'] != str(n) or H['ncons'] != str(m) or H['nobjs'] != '1':
        bad.append(('header:sizes', str(H)))
    if rb[2] != 'ok':
        arity = len(qent) + (1 if c['c0'] != 0 else 0)
        if qent and arity < 3 and rb[2] == 'read-error:too-few-arguments':
            bad.append(('readback:sum-too-few-args', 'the written NL file is rejected by mp::ReadNLFile: sum node with %d argument(s)' % arity))
        else:
            bad.append(('readback:error', 'the written NL file is rejected by mp::ReadNLFile: %s' % rb[2]))
    else:
        V = {int(p[2]): p for p in L.get('var', [])}
        if len(V) != n:
            bad.append(('readback:var-count', '%d variables read back' % len(V)))
            return bad
        ws = {}
        for (j, v) in c['ws']: ws[j] = Fraction(v, 8)
        dws = {}
        for (i, v) in c['dws']: dws[i] = Fraction(v, 8)
        wrong_types = []
        for j in range(n):
            p = V[perm[j]]
            if fr(p[3]) != inp(c['lb'][j]) or fr(p[4]) != inp(c['ub'][j]):
                bad.append(('bounds:wrong-at-position', 'column %d bounds [%s,%s] read back as [%s,%s] at position %d' % (j, c['lb'][j], c['ub'][j], p[3], p[4], perm[j])))
            if (p[5] == 'int') != is_int[j]:
                wrong_types.append(j)
            if fr(p[7]) != ws.get(j, 0):
                sig = 'c-api:dual-warmstart-into-primal' if c['api'] == 1 and c['dws'] else 'warmstart:primal'
                bad.append((sig, 'column %d initial value read back %s, given %s' % (j, fr(p[7]), ws.get(j, 0))))
        if wrong_types:
            bad.append((cause + ':types-mislabelled', 'columns %s read back with the wrong integrality (header nlvo=%s nlvoi=%s nbv=%s niv=%s, %d vars)' %
                        (wrong_types, H['nlvo'], H['nlvoi'], H['nbv'], H['niv'], n)))
        # objective as a function
        ob = one('obj')
        if (ob[3] == 'max') != (c['sense'] == 1):
            bad.append(('objective:sense', ob[3]))
        k = ob.index('nl')
        got = {}
        for e in ob[5:k]:
            i, v = e.split(':')
            got[(inv[int(i)],)] = got.get((inv[int(i)],), 0) + fr(v)
        tree = parse_sexpr(' '.join(ob[k + 1:]))
        for mono, v in poly_of(tree).items():
            mm = tuple(sorted(inv[i] for i in mono))
            got[mm] = got.get(mm, 0) + v
        want = {(): Fraction(c['c0'], 8)}
        if c['c'] is not None:
            for j in range(n):
                want[(j,)] = Fraction(c['c'][j], 8)
        for (i, col, v) in qent:
            mm = tuple(sorted((i, col)))
            want[mm] = want.get(mm, 0) + v / 2
        if clean(got) != clean(want):
            bad.append(('objective:function-differs', 'objective read back (in caller variables) %s, given %s' % (clean(got), clean(want))))
        # rows
        R = {int(p[2]): p for p in L.get('row', [])}
        for i in range(m):
            p = R.get(i)
            if p is None:
                bad.append(('rows:missing', 'row %d' % i)); continue
            if fr(p[3]) != inp(c['rlb'][i]) or fr(p[4]) != inp(c['rub'][i]):
                bad.append(('rows:range', 'row %d range [%s,%s] read back [%s,%s]' % (i, c['rlb'][i], c['rub'][i], p[3], p[4])))
            if fr(p[6]) != dws.get(i, 0):
                sig = 'c-api:dual-warmstart-into-primal' if c['api'] == 1 and c['dws'] else 'warmstart:dual'
                bad.append((sig, 'row %d initial dual read back %s, given %s' % (i, fr(p[6]), dws.get(i, 0))))
            got = {}
            for e in p[8:]:
                if e == 'nl':
                    bad.append(('rows:nonlinear', 'row %d has a nonlinear part' % i)); break
                j, v = e.split(':')
                got[inv[int(j)]] = got.get(inv[int(j)], 0) + fr(v)
            want = {}
            for (j, v) in c['A'][i]:
                want[j] = want.get(j, 0) + Fraction(v, 8)
            if clean(got) != clean(want):
                bad.append(('rows:coefficients', 'row %d read back %s, given %s' % (i, clean(got), clean(want))))
        # Jacobian column sizes (k segment) follow their columns
        cs = one('colsizes')
        sizes = [int(t) for t in cs[2:]] if cs else None
        cnt = [sum(1 for row in c['A'] for (jj, _) in row if jj == j) for j in range(n)]
        if sizes is None or len(sizes) != max(n - 1, 0) or any(sizes[i] != cnt[inv[i]] for i in range(len(sizes))):
            bad.append(('rows:column-sizes', 'k segment column sizes %s, expected %s by NL position' % (sizes, [cnt[inv[i]] for i in range(max(n - 1, 0))])))
        # suffixes
        want = {}
        for s in c['sufs']:
            key = (s['name'], s['kind'] & 3)
            if key in want:
                continue
            vals = [Fraction(v, 8) for v in s['values']]
            if not (s['kind'] & 4):
                vals = [Fraction(round_ha(v)) if v != 0 else v for v in vals]
            want[key] = (s['kind'] & 7, vals, any(Fraction(v, 8) != 0 for v in s['values']))
        got = {}
        for p in L.get('suf', []):
            got[(p[2], int(p[3]) & 3)] = (int(p[3]), 0, {int(e.split(':')[0]): fr(e.split(':')[1]) for e in p[4:]})
        for key, (kind, vals, written) in want.items():
            g = got.pop(key, None)
            nz = {j: v for j, v in enumerate(vals) if v != 0}
            if g is None:
                if written and nz:
                    bad.append(('suffix:lost', 'suffix %s kind %d not read back' % key))
                continue
            if key[1] == 0:
                back = {inv[i]: v for i, v in g[2].items()}
            else:
                back = dict(g[2])
            if back != nz or g[0] != kind:
                bad.append(('suffix:values', 'suffix %s kind %d read back kind %d %s, given %s' % (key[0], kind, g[0], back, nz)))
        for key in got:
            bad.append(('suffix:extra', 'suffix %s read back but never given' % (key,)))
    # names
    cf = one('colfile')
    if c['cn'] is None:
        if cf[2] != '0': bad.append(('names:col-file', 'a .col file although no names were given'))
    else:
        names = cf[3:]
        if cf[2] != '1' or len(names) != n or any(names[perm[j]] != (c['cn'][j] or '~') for j in range(n)):
            bad.append(('names:col', '.col has %s, names given %s, permutation %s' % (names, c['cn'], perm)))
    rf = one('rowfile')
    if c['rn'] is None:
        if rf[2] != '0': bad.append(('names:row-file', 'a .row file although no names were given'))
    else:
        if rf[2] != '1' or rf[3:] != [x or '~' for x in c['rn']] + [c['objname'] or '~']:
            bad.append(('names:row', '.row has %s' % rf[3:]))
    # solution
    sx = one('sol x')
    if sx is None:
        bad.append(('sol:missing', 'no solution returned')); return bad
    x = [fr(t) for t in sx[3:]]
    given = [Fraction(v, 8) for v in c['solx']]
    if given:
        exp = [given[perm[j]] if perm[j] < len(given) else 0 for j in range(n)]
        if x != exp:
            bad.append(('sol:primal-order', 'x returned %s, the file had (NL order) %s, permutation %s' % (x, given, perm)))
    elif x:
        bad.append(('sol:primal-order', 'x returned %s for a file without primal values' % x))
    y = [fr(t) for t in one('sol y')[3:]]
    if y != [Fraction(v, 8) for v in c['soly']]:
        bad.append(('sol:dual', 'y returned %s' % y))
    if int(one('sol code')[3]) != c['code']:
        bad.append(('sol:code', one('sol code')[3]))
    got = {(p[3], int(p[4]) & 3): p for p in L.get('sol suf', [])}
    for s in c['ssuf']:
        p = got.pop((s['name'], s['kind'] & 3), None)
        if p is None:
            bad.append(('sol:suffix-lost', s['name'])); continue
        vals = {int(e.split(':')[0]): fr(e.split(':')[1]) for e in p[6:]}
        if s['kind'] & 3 == 0:
            exp = {inv[i]: Fraction(v, 8) for (i, v) in s['entries']}
        else:
            exp = {i: Fraction(v, 8) for (i, v) in s['entries']}
        if vals != exp or int(p[4]) != s['kind']:
            bad.append(('sol:suffix-order', 'suffix %s returned %s, file had %s, inverse permutation %s' % (s['name'], vals, s['entries'], inv)))
    for key in got:
        bad.append(('sol:suffix-extra', str(key)))
    so = one('sol obj')
    if len(x) == n:
        if so is None:
            bad.append(('sol:objective-missing', ''))
        elif so[3] == 'crash':
            sig = 'computeobj:null-coefficients' if c['c'] is None else 'computeobj:crash'
            bad.append((sig, 'NLModel::ComputeObjValue crashed (linear coefficients %s)' % ('NULL' if c['c'] is None else 'given')))
        else:
            val = Fraction(c['c0'], 8)
            if c['c'] is not None:
                val += sum(Fraction(c['c'][j], 8) * x[j] for j in range(n))
            val += sum(v / 2 * x[i] * x[col] for (i, col, v) in qent)
            if fr(so[3]) != val:
                bad.append(('sol:objective-value', 'recomputed objective %s, exact value at the returned point %s' % (fr(so[3]), val)))
    sf = one('samefile')
    if sf is not None and sf[2] != '1':
        bad.append(('write:not-deterministic', 'NLModel::WriteNL and NLSolver::LoadModel wrote different files for the same model'))
    return bad


# ------------------------------------------------------------------------------------------- running
def group(text):
    """split an output stream into {case id: [lines]} (suffix lines sorted: they come out of std::set / hash order)"""
    res, order = {}, []
    for l in text.split('\n'):
        if not l:
            continue
        cid = l.split(' ', 1)[0]
        if cid not in res:
            res[cid] = []; order.append(cid)
        res[cid].append(l)
    for cid in res:
        ls = res[cid]
        sufs = sorted(x for x in ls if x.split(' ')[1] == 'suf' or x.split(' ')[1:3] == ['sol', 'suf'])
        res[cid] = [x for x in ls if x not in sufs] + sufs
    return res, order


def build_harness(ck, asserts=False):
    F = ('-O1', '-g') if asserts else ('-O1', '-g', '-DNDEBUG')
    objs = ck.libmp_objects(flags=('-O1', '-g', '-DNDEBUG')) + ck.libnlw2_objects(flags=F)
    h = ck.objects([os.path.join(VERIF, 'harness', 'h_easy.cc')], flags=('-O1', '-g', '-DNDEBUG'), tag='c08')
    return ck.link('h_easy_dbg' if asserts else 'h_easy', h + objs)


def run_harness(exe, cases, tag):
    wd = os.path.join(BUILD, 'c08', tag)
    shutil.rmtree(wd, ignore_errors=True)
    os.makedirs(wd, exist_ok=True)
    cf = os.path.join(wd, 'cases.txt')
    with open(cf, 'w') as f:
        for c in cases:
            f.write(case_line(c) + '\n')
    p = subprocess.run([exe, cf, os.path.join(wd, 'w')], capture_output=True, text=True, timeout=3000)
    return cf, p.stdout, p.returncode, p.stderr[-1500:]


def run(ck):
    ck.level = 'proof'
    proof_ok, failing = ck.proof_stage('MpVerif.C08.Props', 'MpVerif/C08/Props.lean', 'C08_', ['MpVerif/C08/*.lean'], expect_min=N_THEOREMS)
    ck.log('proof stage: ok=%s failing=%s' % (proof_ok, failing[:10]))
    if ck.tier == 'thorough' and proof_ok:
        badm = ck.leanchecker(['MpVerif.C08.Props'])
        if badm:
            failing += ['leanchecker rejected %s' % x for x in badm]
            proof_ok = False
    # ---- cases
    rng = random.Random(ck.seed * 1000003 + 8)
    hist = {}
    cases = corpus_cases()
    ncorp = len(cases)
    ngen = 40000 if ck.tier == 'thorough' else 4000
    i = 0
    nsess = 0
    while i < ngen:
        if rng.random() < 0.12:
            # a history: 2-4 models through one NLSolver (and one PreprocessData), solution read after each
            nsess += 1
            k = rng.choice([2, 2, 3, 4])
            api = 1 if rng.random() < 0.3 else 0
            for _ in range(k):
                c = gen_case(rng, 'g%d' % i, ck.tier, hist)
                c['session'] = nsess
                if rng.random() < 0.8:
                    c['api'] = api
                    if api == 1 and c['dws']:
                        c['dws'] = [(r_, v_) for (r_, v_) in c['dws'] if r_ < c['m']]
                cases.append(c); i += 1
            h = hist.setdefault('history_length', {}); h[str(k)] = h.get(str(k), 0) + 1
        else:
            cases.append(gen_case(rng, 'g%d' % i, ck.tier, hist)); i += 1
    byid = {c['id']: c for c in cases}
    pos_of = {c['id']: k_ for k_, c in enumerate(cases)}

    def replay_lines(c):
        """the case line, preceded by the earlier cases of its session (a history is replayed as a whole)"""
        if not c.get('session'):
            return case_line(c)
        return '\n'.join(case_line(x) for x in cases[:pos_of[c['id']] + 1] if x.get('session') == c['session'])
    exe = build_harness(ck)
    drv = ck.driver('drv_c08')
    cf, impl, rc, err = run_harness(exe, cases, 'main')
    with open(cf) as f:
        mp_ = subprocess.run([drv], stdin=f, capture_output=True, text=True, timeout=3000)
    G, order = group(impl)
    M, _ = group(mp_.stdout)
    if rc != 0 or len(order) != len(cases) or any(not G[c][-1].endswith(' end') and not any(x.endswith(' end') for x in G[c]) for c in order):
        done = set(c for c in order if any(x.endswith(' end') for x in G[c]))
        first = next((c for c in cases if c['id'] not in done), None)
        ck.add_violation('harness:crash', 'the real code crashed / stopped on case %s (exit %s): %s' % (first and first['id'], rc, err[-400:]),
                         {'case': first and case_line(first), 'stderr': err, 'how': 'harness/h_easy.cc <file with this case line> <dir>'})
    n_lines = n_cases_agree = n_clean = 0
    sigcount = {}
    nontrivial = set()
    for c in cases:
        cid = c['id']
        if cid not in G or not any(x.endswith(' end') for x in G[cid]):
            continue
        obad = oracle(c, G[cid])
        if not obad:
            n_clean += 1
        for sig in set(s_ for s_, _ in obad):
            sigcount[sig] = sigcount.get(sig, 0) + 1
        for sig, what in obad:
            ck.add_violation(sig, '%s [case %s]' % (what, cid),
                             {'case': replay_lines(c), 'case_id': cid, 'observed': G[cid][:40], 'expected': what,
                              'how': './check C08 --replay <this file>  (runs harness/h_easy.cc on the case line against $MP_REPO)'})
        ml = M.get(cid, [])
        n_lines += len(G[cid])
        if ml == G[cid]:
            n_cases_agree += 1
        else:
            diff = next(((a, b) for a, b in zip(G[cid] + ['<none>'] * len(ml), ml + ['<none>'] * len(G[cid])) if a != b), ('?', '?'))
            kind = diff[0].split(' ')[1] if ' ' in diff[0] else 'line'
            # a disagreement with a failing oracle on a signature that is not a known finding is already reported above
            ck.add_violation('corr:%s' % kind, 'Lean model and real code disagree on case %s: real "%s" / model "%s"%s' %
                             (cid, diff[0][:300], diff[1][:300], '' if obad else ' (property oracle is satisfied on this case: model drift or a change outside the oracle)'),
                             {'case': replay_lines(c), 'case_id': cid, 'impl_line': diff[0], 'model_line': diff[1], 'correspondence': 'drv_c08 vs harness/h_easy.cc'},
                             found_input=bool(obad))
        nontrivial.add((c['n'], c['m'], tuple(len(r) for r in c['Q']), c['api'], c['text'], len(c['sufs']), len(c['ws'])))
        if len(ck.cov['samples']) < 6 and cid.startswith('g'):
            ck.sample(case_line(c)[:300])
    # ---- regression inputs of the defects fixed by repo_patches/C08-easy-api-fixes.diff: the oracle must be silent on them
    regress = {}
    for cid in ('cxtypes', 'cxsum', 'cxsumb', 'cxblock', 'cxnull', 'cxcdual'):
        if cid in G:
            regress[cid] = not oracle(byid[cid], G[cid])
    ck.cov['regression_inputs_of_fixed_defects_clean'] = regress
    # ---- assert-enabled build of nl-solver.cc on the corpus (debug builds abort on a wrong assertion)
    try:
        exed = build_harness(ck, asserts=True)
        dbg_cases = [c for c in cases[:ncorp]] + cases[ncorp:ncorp + 40]
        _, dout, drc, derr = run_harness(exed, dbg_cases, 'dbg')
        Gd, od = group(dout)
        if drc != 0:
            done = set(c for c in od if any(x.endswith(' end') for x in Gd[c]))
            first = next((c for c in dbg_cases if c['id'] not in done), None)
            m_ = re.search(r'Assertion `([^\']*)\' failed', derr)
            qn = sum(len(r) for r in first['Q']) if first else 0
            if m_ and 'i<nlv_obj_.size()' in m_.group(1) and first and qn > first['n']:
                sig = 'debug-assert:hessian-nnz-exceeds-cols'
            else:
                sig = 'debug-assert:other'
            ck.add_violation(sig, 'with assertions enabled nl-solver.cc aborts on a valid model (case %s, %d Hessian nonzeros, %d columns): %s' %
                             (first and first['id'], qn, first['n'] if first else -1, m_.group(0) if m_ else derr[-300:]),
                             {'case': first and case_line(first), 'stderr': derr[-600:], 'how': 'build nl-writer2 without -DNDEBUG and load this model'})
        ck.cov['debug_build_cases'] = len(od)
    except Exception as e:
        ck.notes.append('assert-enabled build not run: %r' % (e,))
    # ---- obligations
    if not proof_ok:
        for fdecl in failing:
            ck.add_violation('obligation:%s' % fdecl.split(' ')[0], 'proof obligation no longer checks: %s' % fdecl,
                             {'theorem': fdecl, 'module': 'MpVerif.C08.Props', 'searched': '%d cases on the real code' % len(cases)}, found_input=False)
    ck.cov['evaluations'] = len(order)
    ck.cov['distinct_nontrivial'] = len(nontrivial)
    ck.cov['rule'] = 'distinct (n, m, Hessian row sizes, api, format, #suffixes, #warm-start entries) shapes of generated matrix models, each written by the real easy API, read back by the real mp::ReadNLFile and answered with a .sol file'
    ck.cov['traces_validated_against_impl'] = n_cases_agree
    ck.cov['correspondence'] = {'cases': len(order), 'cases_identical_model_vs_impl': n_cases_agree, 'lines_compared': n_lines}
    ck.cov['oracle_signatures_seen'] = sigcount
    ck.cov['cases_where_oracle_is_fully_satisfied'] = n_clean
    ck.cov['generator_histogram'] = hist
    ck.cov['corpus_cases'] = ncorp
    ck.cov['exhaustive'] = False
    ck.log('cases=%d identical=%d lines=%d property-clean=%d oracle signatures (cases)=%s' % (len(order), n_cases_agree, n_lines, n_clean, sigcount))
    ck.assumptions += [
        'numeric data are dyadic rationals of small height (exact in double); the decimal codec of the NL/SOL text formats is outside the model (C03/C05)',
        'CSR input is well formed (start_ has one entry per row, nondecreasing, <= num_nz; indices in range); no NaN; lb <= ub',
        'the NL reader side is mp::ReadNLFile + NLProblemBuilder<mp::Problem> built with -DNDEBUG (release defines)',
    ]
    ck.cov['trusted_base'] += ['harness/h_easy.cc canonical printing (numbers scaled by 1024, expression trees as s-expressions) and the python oracle in checks/c08.py',
                               'Lean model MpVerif/C08/Model.lean is hand-written; its agreement with nl-solver.cc / nl-model-c.cc / the reader is sampled by the correspondence on every run']


def replay(ck, path):
    obj = json.load(open(path))
    line = obj['replay'].get('case')
    exe = build_harness(ck)
    wd = os.path.join(BUILD, 'c08', 'replay')
    os.makedirs(wd, exist_ok=True)
    cf = os.path.join(wd, 'case.txt')
    open(cf, 'w').write(line + '\n')
    p = subprocess.run([exe, cf, os.path.join(wd, 'w'), 'keep'], capture_output=True, text=True)
    print(p.stdout + p.stderr)
    print('files kept under', os.path.join(wd, 'w'))
    return 0

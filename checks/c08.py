"""C08 — matrix-based ("easy") model API writes the given LP/QP and un-permutes solutions.

Stages: (1) Lean theorems about the model MpVerif.C08 (+ axiom audit); (2) correspondence: generated
matrix models -> real NLModel/NLSolver (C++ API and C wrapper) -> .nl/.col/.row -> real mp::ReadNLFile
into mp::Problem, and .sol -> NLSolver::ReadSolution, compared line by line with the Lean driver's
prediction; (3) property oracle in python, independent of the Lean model, evaluated on what the real
code returned.
"""
import os, sys, json, random, subprocess, re, shutil, glob
from fractions import Fraction
from common import *

N_THEOREMS = 51

# ------------------------------------------------------------------------------------------- cases
# A case is a dict; numbers are ints k meaning k/8, or 'I' / '-I'.

def csr(rows):
    start, idx, val = [], [], []
    for r in rows:
        start.append(len(idx))
        for (c, v) in r:
            idx.append(c); val.append(v)
    return start, idx, val


def case_line(c):
    t = ['C', c['id'], c.get('session', 0), c.get('mode', 0), c['api'], c['text'], c['comments'], c['flags'], c['n']]
    t.append(1 if c['types'] is not None else 0)
    if c['types'] is not None:
        t += c['types']
    t += c['lb'] + c['ub']
    t += [c['sense'], c['c0'], 1 if c['c'] is not None else 0]
    if c['c'] is not None:
        t += c['c']
    qs, qi, qv = csr(c['Q'])
    t += [c['qfmt'], len(qi)] + qs + qi + qv
    as_, ai, av = csr(c['A'])
    t += [c['m']] + c['rlb'] + c['rub'] + [len(ai)] + as_ + ai + av
    t.append(len(c['ws']))
    for (i, v) in c['ws']:
        t += [i, v]
    t.append(len(c['dws']))
    for (i, v) in c['dws']:
        t += [i, v]
    t.append(len(c['sufs']))
    for s in c['sufs']:
        t += [s['name'], s['kind'], len(s['values'])] + s['values']
    t.append(1 if c['cn'] is not None else 0)
    if c['cn'] is not None:
        t += [x or '~' for x in c['cn']]
    t.append(1 if c['rn'] is not None else 0)
    if c['rn'] is not None:
        t += [x or '~' for x in c['rn']]
    t.append(c['objname'] or '~')
    t += [c['solfmt'], len(c['solx'])] + c['solx'] + [len(c['soly'])] + c['soly'] + [c['code'], len(c['ssuf'])]
    for s in c['ssuf']:
        t += [s['name'], s['kind'], len(s['entries'])]
        for (i, v) in s['entries']:
            t += [i, v]
    return ' '.join(str(x) for x in t)


def base_case(cid, n, m):
    return {'id': cid, 'session': 0, 'mode': 0, 'api': 0, 'text': 1, 'comments': 1, 'flags': 1, 'n': n, 'types': None, 'lb': [0] * n, 'ub': [80] * n,
            'sense': 0, 'c0': 0, 'c': [0] * n, 'qfmt': 1, 'Q': [[] for _ in range(n)], 'm': m, 'rlb': ['-I'] * m, 'rub': [80] * m,
            'A': [[] for _ in range(m)], 'ws': [], 'dws': [], 'sufs': [], 'cn': None, 'rn': None, 'objname': 'obj',
            'solfmt': 0, 'solx': [8 * (i + 1) for i in range(n)], 'soly': [8] * m, 'code': 0, 'ssuf': []}


def corpus_cases():
    """fixed cases run first: the worked example of the library, and one witness per Lean counterexample theorem"""
    out = []
    # the 6-variable MIQP of nl-writer2/examples/cpp/easyAPI_1_MIQP
    c = base_case('ex6', 6, 2)
    c.update(types=[0, 1, 1, 1, 0, 0], lb=[0, -24, 0, -8, -8, -16], ub=[0, 160, 8, 'I', -8, 80], c0=26, c=[0, 8, 0, 0, 0, 0], qfmt=2,
             Q=[[], [], [], [(3, 80), (5, 96)], [(4, 112)], []], rlb=[120, 80], rub=[120, 'I'],
             A=[[(1, 8), (2, 8), (3, 8), (5, 8)], [(1, 8), (2, -8), (3, -8), (5, 8)]],
             cn=['x1_4', 'x2_6', 'x3_5', 'x4_3', 'x5_1', 'x6_2'], rn=['C1', 'C2'], objname='obj[1]',
             solx=[-8, 80, -8, 0, 8, 40], soly=[8, 0])
    out.append(c)
    for api in (0, 1):
        for text in (1, 0):
            d = dict(c); d['id'] = 'ex6a%dt%d' % (api, text); d['api'] = api; d['text'] = text
            out.append(d)
    # C08_counterexample_types: two general-integer columns, triangular Hessian with 3 nonzeros
    c = base_case('cxtypes', 2, 1)
    c.update(types=[1, 1], lb=[0, 0], ub=[40, 40], c0=8, Q=[[(0, 16), (1, 8)], [(1, 16)]], A=[[(0, 8), (1, 8)]], cn=['x', 'y'], rn=['r'])
    out.append(c)
    # C08_counterexample_unreadable: minimize x0^2 (one Hessian nonzero, no offset)
    c = base_case('cxsum', 2, 0)
    c.update(Q=[[(0, 16)], []])
    out.append(c)
    d = dict(c); d['id'] = 'cxsumb'; d['text'] = 0
    out.append(d)
    # C08_counterexample_block: x0*x1 only (off-diagonal, row variable not flagged)
    c = base_case('cxblock', 4, 0)
    c.update(Q=[[(1, 8)], [(2, 8)], [(3, 8)], []], c=[8, 0, 8, 0], types=[1, 0, 0, 0])
    out.append(c)
    # C08_counterexample_objvalue_null: no linear coefficients
    c = base_case('cxnull', 2, 0)
    c.update(c=None, c0=8, Q=[[(0, 16)], [(1, 16)]])
    out.append(c)
    # C wrapper: dual warm start lands in the primal warm start
    c = base_case('cxcdual', 2, 2)
    c.update(api=1, A=[[(0, 8)], [(1, 8)]], ws=[(0, 24)], dws=[(1, 16)])
    out.append(c)
    # a history: three models with different sizes and permutations through ONE NLSolver / PreprocessData
    # (C++ API), then the same through the C wrapper: the exported permutation must be that of the last model
    for tag, api, sess in (('h', 0, 9001), ('hc', 1, 9002)):
        c = base_case(tag + '1', 3, 1)
        c.update(session=sess, api=api, types=[1, 0, 1], lb=[0, 0, 0], ub=[40, 80, 8], c=[8, 0, 0], A=[[(0, 8), (1, 8)]],
                 ssuf=[{'name': 'sstatus', 'kind': 0, 'entries': [(0, 8), (1, 16), (2, 24)]}],
                 cn=['ia', 'cb', 'bc'], rn=['R0'])                     # named model first ...
        out.append(c)
        c = base_case(tag + '2', 4, 0)
        c.update(session=sess, api=api, types=[0, 1, 0, 0], lb=[0, 0, 0, 0], ub=[40, 8, 80, 80], c=[0, 0, 16, 0],
                 Q=[[], [], [], [(3, 16)]], c0=8, solx=[8, 16, 24, 32], ssuf=[{'name': 'sstatus', 'kind': 0, 'entries': [(0, 8), (3, 16)]}],
                 cn=['p', 'q', 'r', 's'])                               # ... then column names only (the .row must disappear) ...
        out.append(c)
        c = base_case(tag + '3', 2, 1)
        c.update(session=sess, api=api, types=[1, 0], lb=[0, 0], ub=[40, 80], c=[8, 16], A=[[(1, 8)]], solx=[24, 40])
        out.append(c)                                                   # ... then no names at all (the .col must disappear)
    # healthy QP: diagonal Hessian on three columns
    c = base_case('okdiag', 4, 1)
    c.update(types=[1, 0, 1, 1], lb=[0, -8, 0, 0], ub=[8, 8, 8, 24], Q=[[(0, 16)], [(1, 8)], [], [(3, 24)]], c=[8, 0, -8, 0], A=[[(0, 8), (2, 16)]],
             ws=[(2, 8), (0, 8)], dws=[(0, -8)], sufs=[{'name': 'priority', 'kind': 0, 'values': [8, 0, 16, 24]}], cn=['a', 'b', 'c', 'd'], rn=['r0'],
             ssuf=[{'name': 'sstatus', 'kind': 0, 'entries': [(0, 8), (3, 24)]}])
    out.append(c)
    return out


VALS = [-24, -16, -12, -8, -4, -1, 1, 2, 4, 8, 8, 12, 16, 24, 40]
NAMES = ['sosno', 'ref', 'priority', 'sstatus', 'foo', 'bar_1', 'z']


def gen_case(rng, cid, tier, hist):
    big = tier == 'thorough'
    n = rng.choice([1, 2, 2, 3, 3, 4, 4, 5, 6, 7] + ([8, 10, 12] if big else []))
    m = rng.choice([0, 1, 1, 2, 2, 3, 4] + ([6] if big else []))
    c = base_case(cid, n, m)
    c['api'] = 1 if rng.random() < 0.3 else 0
    c['text'] = 1 if rng.random() < 0.6 else 0
    c['comments'] = rng.randint(0, 1)
    c['flags'] = rng.randint(0, 1)
    # ---- columns
    tmode = rng.choice(['null', 'cont', 'mixed', 'mixed', 'mixed', 'allint'])
    if tmode == 'null':
        c['types'] = None
    else:
        c['types'] = [0 if tmode == 'cont' else 1 if tmode == 'allint' else rng.randint(0, 1) for _ in range(n)]
    lb, ub = [], []
    for j in range(n):
        k = rng.random()
        if k < 0.35:
            l, u = 0, 8                       # [0,1]: binary if integer
        elif k < 0.45:
            l, u = rng.choice([(0, 16), (8, 8), (-8, 8), (0, 'I'), (0, 9), (1, 8)])   # near-binary
        else:
            l = rng.choice(['-I', -80, -8, 0, 0, 4])
            u = rng.choice(['I', 80, 8, 16, 24])
        lb.append(l); ub.append(u)
    c['lb'], c['ub'] = lb, ub
    # ---- objective
    c['sense'] = rng.randint(0, 1)
    c['c0'] = 0 if rng.random() < 0.4 else rng.choice(VALS)
    c['c'] = None if rng.random() < 0.15 else [0 if rng.random() < 0.4 else rng.choice(VALS) for _ in range(n)]
    c['qfmt'] = rng.choice([1, 2])
    qmode = rng.choice(['none', 'none', 'diag', 'diag', 'distinctcols', 'offdiag', 'upper', 'square', 'dups', 'colonly', 'random'])
    Q = [[] for _ in range(n)]
    v = lambda: rng.choice(VALS + [0]) if rng.random() < 0.1 else rng.choice(VALS)
    if qmode == 'diag':
        for j in rng.sample(range(n), rng.randint(1, n)):
            Q[j].append((j, v()))
    elif qmode == 'distinctcols':      # every column index at most once (the header count is then right)
        cols = rng.sample(range(n), rng.randint(1, n))
        for col in cols:
            Q[rng.choice([col, rng.randrange(n)])].append((col, v()))
    elif qmode == 'offdiag':
        for _ in range(rng.randint(1, 4)):
            i, j = rng.randrange(n), rng.randrange(n)
            if i != j:
                Q[min(i, j)].append((max(i, j), v()))
    elif qmode == 'upper':
        sub = sorted(rng.sample(range(n), rng.randint(1, min(n, 4))))
        for a in sub:
            for b in sub:
                if a <= b and rng.random() < 0.8:
                    Q[a].append((b, v()))
    elif qmode == 'square':
        sub = sorted(rng.sample(range(n), rng.randint(1, min(n, 3))))
        for a in sub:
            for b in sub:
                if a <= b:
                    w = v()
                    Q[a].append((b, w))
                    if a != b:
                        Q[b].append((a, w))
    elif qmode == 'dups':
        for _ in range(rng.randint(2, 5)):
            i, j = rng.randrange(n), rng.randrange(n)
            w = v()
            Q[i].append((j, w))
            if rng.random() < 0.6:
                Q[i].append((j, v()))
    elif qmode == 'colonly':
        j = rng.randrange(n)
        for i in rng.sample(range(n), rng.randint(1, n)):
            Q[i].append((j, v()))
    elif qmode == 'random':
        for _ in range(rng.randint(1, 8)):
            Q[rng.randrange(n)].append((rng.randrange(n), v()))
    # most of the time avoid the unreadable 1- and 2-argument sum nodes (finding C08-sum-arity) so that the
    # read-back lines are exercised
    nnz = sum(len(r) for r in Q)
    if 0 < nnz + (1 if c['c0'] else 0) < 3 and rng.random() < 0.8:
        if c['c0'] == 0 and rng.random() < 0.5:
            c['c0'] = rng.choice(VALS)
        free = [j for j in range(n) if all(col != j for r in Q for (col, _) in r)]
        while sum(len(r) for r in Q) + (1 if c['c0'] else 0) < 3:
            if free:
                j = free.pop(); Q[j].append((j, v()))
            else:
                j = rng.randrange(n); Q[j].append((j, v()))
    for r in Q:
        if rng.random() < 0.8:
            r.sort(key=lambda e: e[0])
    c['Q'] = Q
    # ---- rows
    A = []
    for i in range(m):
        k = rng.random()
        if k < 0.15:
            row = []
        else:
            cols = rng.sample(range(n), rng.randint(1, n))
            if rng.random() < 0.7:
                cols.sort()
            row = [(j, rng.choice(VALS)) for j in cols]
        A.append(row)
    c['A'] = A
    rl, ru = [], []
    for i in range(m):
        k = rng.choice(['le', 'ge', 'eq', 'range', 'free'])
        a, b = sorted([rng.choice(VALS), rng.choice(VALS)])
        if k == 'le': rl.append('-I'); ru.append(b)
        elif k == 'ge': rl.append(a); ru.append('I')
        elif k == 'eq': rl.append(a); ru.append(a)
        elif k == 'range': rl.append(a); ru.append(b)
        else: rl.append('-I'); ru.append('I')
    c['rlb'], c['rub'] = rl, ru
    # ---- warm starts
    if rng.random() < 0.6:
        js = rng.sample(range(n), rng.randint(1, n))
        c['ws'] = [(j, rng.choice(VALS)) for j in js]
    if m and rng.random() < 0.5:
        lim = min(n, m) if c['api'] == 1 else m      # C wrapper routes these into the primal warm start: keep indices valid there
        c['dws'] = [(i, rng.choice(VALS)) for i in rng.sample(range(lim), rng.randint(1, lim))]
    # ---- suffixes
    sufs = []
    for _ in range(rng.choice([0, 0, 1, 1, 2, 3])):
        kind = rng.choice([0, 0, 0, 1, 1, 2, 3, 4, 4, 5, 6, 7])
        size = n if kind % 4 == 0 else m if kind % 4 == 1 else 1
        name = rng.choice(NAMES)
        if kind & 4:
            vals = [0 if rng.random() < 0.4 else rng.choice(VALS) for _ in range(size)]
        else:
            vals = [0 if rng.random() < 0.4 else 8 * rng.randint(-3, 9) for _ in range(size)]
            if rng.random() < 0.15:
                vals = [x if rng.random() < 0.5 else rng.choice([4, -4, 12, 2, -12, 20]) for x in vals]   # non-integral -> std::round
        sufs.append({'name': name, 'kind': kind, 'values': vals})
    c['sufs'] = sufs
    # ---- names
    if rng.random() < 0.6:
        c['cn'] = [rng.choice(['x', 'y', 'var', 'longer_name']) + '%d' % j + ('[%d]' % j if rng.random() < 0.3 else '') for j in range(n)]
    if rng.random() < 0.5:
        c['rn'] = ['r%d' % i + rng.choice(['', '_c', '[a]']) for i in range(m)]
    c['objname'] = rng.choice(['obj', 'obj[1]', 'TotalCost', 'z'])
    # ---- solution file (values in NL order)
    c['solfmt'] = rng.choice([0, 2])
    k = rng.random()
    nx = n if k < 0.8 else 0 if k < 0.9 else rng.randint(0, n)
    c['solx'] = [rng.choice(VALS + [0]) for _ in range(nx)]
    c['soly'] = [rng.choice(VALS + [0]) for _ in range(m if rng.random() < 0.8 else 0)]
    c['code'] = rng.choice([0, 0, 100, 200, 300, 400, 502, -1])
    ss, seen = [], set()
    for _ in range(rng.choice([0, 0, 1, 2])):
        kind = rng.choice([0, 0, 0, 1, 2, 3, 4, 4, 5])
        name = rng.choice(NAMES)
        if (name, kind & 3) in seen:
            continue
        seen.add((name, kind & 3))
        size = n if kind % 4 == 0 else m if kind % 4 == 1 else 1
        if size == 0:
            continue
        idx = sorted(rng.sample(range(size), rng.randint(1, size)))
        ss.append({'name': name, 'kind': kind, 'entries': [(i, rng.choice(VALS) if kind & 4 else 8 * rng.randint(1, 6)) for i in idx]})
    c['ssuf'] = ss
    k = rng.random()
    # Solve() spawns the fake solver through std::system: fewer of them in the quick tier
    c['mode'] = (0 if k < 0.8 else 1 if k < 0.94 else 2) if tier == 'thorough' else (0 if k < 0.92 else 1 if k < 0.98 else 2)
    if c['ssuf'] and rng.random() < 0.06:
        sfx = rng.choice(c['ssuf'])
        size = n if sfx['kind'] % 4 == 0 else m if sfx['kind'] % 4 == 1 else 1
        sfx['entries'] = sfx['entries'] + [(size + rng.randint(0, 2), 8)]
        c['solfmt'] = 0
        h = hist.setdefault('sol_suffix_bad_index', {}); h['yes'] = h.get('yes', 0) + 1
    for key, val in (('mode', ['LoadModel+ReadSolution', 'Solve(fake solver)', 'Solve(auto stub)'][c['mode']]), ('qmode', qmode), ('types', tmode), ('n', n), ('m', m), ('api', 'c' if c['api'] else 'c++'),
                     ('format', 'text' if c['text'] else 'binary'), ('solfmt', 'mp::WriteSolFile' if c['solfmt'] == 2 else 'own-text')):
        h = hist.setdefault(key, {})
        h[str(val)] = h.get(str(val), 0) + 1
    return c


# ------------------------------------------------------------------------------------------- oracle
def fr(tok):
    """harness number token (scaled by 1024) -> Fraction / +-inf"""
    if tok == 'I': return float('inf')
    if tok == '-I': return float('-inf')
    return Fraction(int(tok), 1024)


def inp(k):
    if k == 'I': return float('inf')
    if k == '-I': return float('-inf')
    return Fraction(k, 8)


def parse_sexpr(s):
    toks = s.replace('(', ' ( ').replace(')', ' ) ').split()
    pos = [0]

    def rd():
        t = toks[pos[0]]; pos[0] += 1
        if t == '(':
            op = toks[pos[0]]; pos[0] += 1
            args = []
            while toks[pos[0]] != ')':
                args.append(rd())
            pos[0] += 1
            return (op, args)
        return t
    return rd()


def poly_of(e):
    """polynomial {sorted tuple of var positions: coef} of an expression tree"""
    if isinstance(e, str):
        if e == 'nil': return {}
        if e[0] == 'n': return {(): fr(e[1:])}
        if e[0] == 'v': return {(int(e[1:]),): Fraction(1)}
        raise ValueError('unexpected node ' + e)
    op, args = e
    if op == '+':
        r = {}
        for a in args:
            for k, v in poly_of(a).items():
                r[k] = r.get(k, 0) + v
        return r
    if op == '*':
        a, b = poly_of(args[0]), poly_of(args[1])
        r = {}
        for k1, v1 in a.items():
            for k2, v2 in b.items():
                k = tuple(sorted(k1 + k2))
                r[k] = r.get(k, 0) + v1 * v2
        return r
    raise ValueError('unexpected op ' + op)


def clean(p):
    return {k: v for k, v in p.items() if v != 0}


def vars_of(e, acc):
    if isinstance(e, str):
        if e[0] == 'v': acc.add(int(e[1:]))
    else:
        for a in e[1]:
            vars_of(a, acc)
    return acc


def round_ha(fq):
    import math
    return math.floor(fq + Fraction(1, 2)) if fq >= 0 else -math.floor(-fq + Fraction(1, 2))


def oracle(c, lines):
    """the property itself, evaluated on what the real code returned for case c. Returns list of (sig, what)."""
    bad = []
    n, m = c['n'], c['m']
    L = {}
    for l in lines:
        p = l.split(' ')
        L.setdefault(p[1] if p[1] != 'sol' else 'sol ' + p[2], []).append(p)
    def one(k):
        return L[k][0] if k in L else None
    perm = [int(x) for x in one('perm')[2:]]
    inv = [int(x) for x in one('inv')[2:]]
    if c.get('session') and (len(perm) != n or len(inv) != n):
        bad.append(('history:exported-permutation-size', 'after a second model through the same PreprocessData the exported permutation has %d/%d entries for %d columns: %s / %s' % (len(perm), len(inv), n, perm, inv)))
        return bad
    if sorted(perm) != list(range(n)) or len(inv) != n or any(inv[perm[j]] != j for j in range(n)):
        bad.append(('perm:not-a-bijection', 'reported permutation %s / inverse %s' % (perm, inv)))
        return bad
    if one('load')[2:] != ['1', '1']:
        bad.append(('load:failed', 'LoadModel / WriteNL failed'))
        return bad
    is_int = [bool(c['types'] and c['types'][j]) for j in range(n)]
    qent = [(i, col, Fraction(v, 8)) for i, row in enumerate(c['Q']) for (col, v) in row]
    nlset = set([i for i, _, _ in qent] + [col for _, col, _ in qent])
    hdr = one('hdr'); H = {hdr[i]: hdr[i + 1] for i in range(2, len(hdr), 2)}
    rb = one('readback')
    # ---- header class counts = sizes of the blocks of the reported order
    # input class of the open finding C08-nlvo: the Hessian's column indices are not exactly the set of
    # variables of the quadratic part, each once (duplicate column index, or a row variable that is never a column index)
    cols = [col for _, col, _ in qent]
    cause = 'nlvo' if (len(cols) != len(set(cols)) or set(cols) != nlset) else 'header'
    lead = sorted(perm[j] for j in nlset) == list(range(len(nlset)))
    if int(H['nlvo']) != len(nlset):
        bad.append((cause + ':nlvo-count', 'header says %s variables nonlinear in the objective, the quadratic part has %d (Hessian: %d nonzeros, %d distinct column indices)' % (H['nlvo'], len(nlset), len(qent), len(set(cols)))))
    if not lead:
        bad.append((cause + ':nonlinear-var-outside-block', 'variables of the quadratic part %s sit at NL positions %s, not in a leading block' % (sorted(nlset), sorted(perm[j] for j in nlset))))
    if int(H['nlvoi']) != sum(1 for j in nlset if is_int[j]):
        bad.append((cause + ':nlvoi-count', 'header nonlinear integer count %s, integer columns in the quadratic part %d' % (H['nlvoi'], sum(1 for j in nlset if is_int[j]))))
    lin_int = [j for j in range(n) if is_int[j] and j not in nlset]
    lin_bin = [j for j in lin_int if c['lb'][j] == 0 and c['ub'][j] == 8]
    if int(H['nbv']) != len(lin_bin) or int(H['niv']) != len(lin_int) - len(lin_bin):
        bad.append((cause + ':linear-integer-count', 'header nbv=%s niv=%s, linear binary columns %d, other linear integer columns %d' % (H['nbv'], H['niv'], len(lin_bin), len(lin_int) - len(lin_bin))))
    # positions inside the blocks: nonlinear continuous, nonlinear integer, linear continuous, binary, integer
    def cls(j):
        if j in nlset: return 1 if is_int[j] else 0
        if not is_int[j]: return 2
        return 3 if j in lin_bin else 4
    seq = [cls(inv[i]) for i in range(n)]
    if seq != sorted(seq):
        bad.append((cause + ':block-order', 'classes by NL position %s are not in NL order (0 nl cont, 1 nl int, 2 lin cont, 3 binary, 4 integer)' % seq))
    if H['nvars'] != str(n) or H['ncons'] != str(m) or H['nobjs'] != '1':
        bad.append(('header:sizes', str(H)))
    if rb[2] != 'ok':
        arity = len(qent) + (1 if c['c0'] != 0 else 0)
        if qent and arity < 3 and rb[2] == 'read-error:too-few-arguments':
            bad.append(('readback:sum-too-few-args', 'the written NL file is rejected by mp::ReadNLFile: sum node with %d argument(s)' % arity))
        else:
            bad.append(('readback:error', 'the written NL file is rejected by mp::ReadNLFile: %s' % rb[2]))
    else:
        V = {int(p[2]): p for p in L.get('var', [])}
        if len(V) != n:
            bad.append(('readback:var-count', '%d variables read back' % len(V)))
            return bad
        ws = {}
        for (j, v) in c['ws']: ws[j] = Fraction(v, 8)
        dws = {}
        for (i, v) in c['dws']: dws[i] = Fraction(v, 8)
        wrong_types = []
        for j in range(n):
            p = V[perm[j]]
            if fr(p[3]) != inp(c['lb'][j]) or fr(p[4]) != inp(c['ub'][j]):
                bad.append(('bounds:wrong-at-position', 'column %d bounds [%s,%s] read back as [%s,%s] at position %d' % (j, c['lb'][j], c['ub'][j], p[3], p[4], perm[j])))
            if (p[5] == 'int') != is_int[j]:
                wrong_types.append(j)
            if fr(p[7]) != ws.get(j, 0):
                sig = 'c-api:dual-warmstart-into-primal' if c['api'] == 1 and c['dws'] else 'warmstart:primal'
                bad.append((sig, 'column %d initial value read back %s, given %s' % (j, fr(p[7]), ws.get(j, 0))))
        if wrong_types:
            bad.append((cause + ':types-mislabelled', 'columns %s read back with the wrong integrality (header nlvo=%s nlvoi=%s nbv=%s niv=%s, %d vars)' %
                        (wrong_types, H['nlvo'], H['nlvoi'], H['nbv'], H['niv'], n)))
        # objective as a function
        ob = one('obj')
        if (ob[3] == 'max') != (c['sense'] == 1):
            bad.append(('objective:sense', ob[3]))
        k = ob.index('nl')
        got = {}
        for e in ob[5:k]:
            i, v = e.split(':')
            got[(inv[int(i)],)] = got.get((inv[int(i)],), 0) + fr(v)
        tree = parse_sexpr(' '.join(ob[k + 1:]))
        for mono, v in poly_of(tree).items():
            mm = tuple(sorted(inv[i] for i in mono))
            got[mm] = got.get(mm, 0) + v
        want = {(): Fraction(c['c0'], 8)}
        if c['c'] is not None:
            for j in range(n):
                want[(j,)] = Fraction(c['c'][j], 8)
        for (i, col, v) in qent:
            mm = tuple(sorted((i, col)))
            want[mm] = want.get(mm, 0) + v / 2
        if clean(got) != clean(want):
            bad.append(('objective:function-differs', 'objective read back (in caller variables) %s, given %s' % (clean(got), clean(want))))
        # rows
        R = {int(p[2]): p for p in L.get('row', [])}
        for i in range(m):
            p = R.get(i)
            if p is None:
                bad.append(('rows:missing', 'row %d' % i)); continue
            if fr(p[3]) != inp(c['rlb'][i]) or fr(p[4]) != inp(c['rub'][i]):
                bad.append(('rows:range', 'row %d range [%s,%s] read back [%s,%s]' % (i, c['rlb'][i], c['rub'][i], p[3], p[4])))
            if fr(p[6]) != dws.get(i, 0):
                sig = 'c-api:dual-warmstart-into-primal' if c['api'] == 1 and c['dws'] else 'warmstart:dual'
                bad.append((sig, 'row %d initial dual read back %s, given %s' % (i, fr(p[6]), dws.get(i, 0))))
            got = {}
            for e in p[8:]:
                if e == 'nl':
                    bad.append(('rows:nonlinear', 'row %d has a nonlinear part' % i)); break
                j, v = e.split(':')
                got[inv[int(j)]] = got.get(inv[int(j)], 0) + fr(v)
            want = {}
            for (j, v) in c['A'][i]:
                want[j] = want.get(j, 0) + Fraction(v, 8)
            if clean(got) != clean(want):
                bad.append(('rows:coefficients', 'row %d read back %s, given %s' % (i, clean(got), clean(want))))
        # Jacobian column sizes (k segment) follow their columns
        cs = one('colsizes')
        sizes = [int(t) for t in cs[2:]] if cs else None
        cnt = [sum(1 for row in c['A'] for (jj, _) in row if jj == j) for j in range(n)]
        if sizes is None or len(sizes) != max(n - 1, 0) or any(sizes[i] != cnt[inv[i]] for i in range(len(sizes))):
            bad.append(('rows:column-sizes', 'k segment column sizes %s, expected %s by NL position' % (sizes, [cnt[inv[i]] for i in range(max(n - 1, 0))])))
        # suffixes
        want = {}
        for s in c['sufs']:
            key = (s['name'], s['kind'] & 3)
            if key in want:
                continue
            vals = [Fraction(v, 8) for v in s['values']]
            if not (s['kind'] & 4):
                vals = [Fraction(round_ha(v)) if v != 0 else v for v in vals]
            want[key] = (s['kind'] & 7, vals, any(Fraction(v, 8) != 0 for v in s['values']))
        got = {}
        for p in L.get('suf', []):
            got[(p[2], int(p[3]) & 3)] = (int(p[3]), 0, {int(e.split(':')[0]): fr(e.split(':')[1]) for e in p[4:]})
        for key, (kind, vals, written) in want.items():
            g = got.pop(key, None)
            nz = {j: v for j, v in enumerate(vals) if v != 0}
            if g is None:
                if written and nz:
                    bad.append(('suffix:lost', 'suffix %s kind %d not read back' % key))
                continue
            if key[1] == 0:
                back = {inv[i]: v for i, v in g[2].items()}
            else:
                back = dict(g[2])
            if back != nz or g[0] != kind:
                bad.append(('suffix:values', 'suffix %s kind %d read back kind %d %s, given %s' % (key[0], kind, g[0], back, nz)))
        for key in got:
            bad.append(('suffix:extra', 'suffix %s read back but never given' % (key,)))
    # names
    cf = one('colfile')
    if c['cn'] is None:
        if cf[2] != '0': bad.append(('names:col-file', 'a .col file although no names were given'))
    else:
        names = cf[3:]
        if cf[2] != '1' or len(names) != n or any(names[perm[j]] != (c['cn'][j] or '~') for j in range(n)):
            bad.append(('names:col', '.col has %s, names given %s, permutation %s' % (names, c['cn'], perm)))
    rf = one('rowfile')
    if c['rn'] is None:
        if rf[2] != '0': bad.append(('names:row-file', 'a .row file although no names were given'))
    else:
        if rf[2] != '1' or rf[3:] != [x or '~' for x in c['rn']] + [c['objname'] or '~']:
            bad.append(('names:row', '.row has %s' % rf[3:]))
    # solution
    sx = one('sol x')
    if sx is None:
        bad.append(('sol:missing', 'no solution returned')); return bad
    x = [fr(t) for t in sx[3:]]
    given = [Fraction(v, 8) for v in c['solx']]
    if given:
        exp = [given[perm[j]] if perm[j] < len(given) else 0 for j in range(n)]
        if x != exp:
            bad.append(('sol:primal-order', 'x returned %s, the file had (NL order) %s, permutation %s' % (x, given, perm)))
    elif x:
        bad.append(('sol:primal-order', 'x returned %s for a file without primal values' % x))
    y = [fr(t) for t in one('sol y')[3:]]
    if y != [Fraction(v, 8) for v in c['soly']]:
        bad.append(('sol:dual', 'y returned %s' % y))
    if int(one('sol code')[3]) != c['code']:
        bad.append(('sol:code', one('sol code')[3]))
    got = {(p[3], int(p[4]) & 3): p for p in L.get('sol suf', [])}
    stopped = False
    for s in c['ssuf']:
        size = n if s['kind'] % 4 == 0 else m if s['kind'] % 4 == 1 else 1
        if any(i >= size for (i, _) in s['entries']):
            stopped = True       # a suffix with an out-of-range index must not be delivered; the reader stops there
        if stopped:
            if (s['name'], s['kind'] & 3) in got:
                bad.append(('sol:bad-suffix-delivered', 'suffix %s (entries %s, %d items) was delivered although the file is rejected from there on' % (s['name'], s['entries'], size)))
                got.pop((s['name'], s['kind'] & 3))
            continue
        p = got.pop((s['name'], s['kind'] & 3), None)
        if p is None:
            bad.append(('sol:suffix-lost', s['name'])); continue
        vals = {int(e.split(':')[0]): fr(e.split(':')[1]) for e in p[6:]}
        if s['kind'] & 3 == 0:
            exp = {inv[i]: Fraction(v, 8) for (i, v) in s['entries']}
        else:
            exp = {i: Fraction(v, 8) for (i, v) in s['entries']}
        if vals != exp or int(p[4]) != s['kind']:
            bad.append(('sol:suffix-order', 'suffix %s returned %s, file had %s, inverse permutation %s' % (s['name'], vals, s['entries'], inv)))
    for key in got:
        bad.append(('sol:suffix-extra', str(key)))
    so = one('sol obj')
    if len(x) == n:
        if so is None:
            bad.append(('sol:objective-missing', ''))
        elif so[3] == 'crash':
            sig = 'computeobj:null-coefficients' if c['c'] is None else 'computeobj:crash'
            bad.append((sig, 'NLModel::ComputeObjValue crashed (linear coefficients %s)' % ('NULL' if c['c'] is None else 'given')))
        else:
            val = Fraction(c['c0'], 8)
            if c['c'] is not None:
                val += sum(Fraction(c['c'][j], 8) * x[j] for j in range(n))
            val += sum(v / 2 * x[i] * x[col] for (i, col, v) in qent)
            if fr(so[3]) != val:
                bad.append(('sol:objective-value', 'recomputed objective %s, exact value at the returned point %s' % (fr(so[3]), val)))
    se = one('sol err')
    anybad = any(i >= (n if s_['kind'] % 4 == 0 else m if s_['kind'] % 4 == 1 else 1) for s_ in c['ssuf'] for (i, _) in s_['entries'])
    if se is None or (se[3] == '1') != (anybad or c.get('_err_before', False)):
        bad.append(('sol:error-flag', 'NLSolver error message after reading the solution: %s, solution file has a suffix with an out-of-range index: %s' % (se and se[3], anybad)))
    gt = one('getters')
    if gt is None or gt[2] != '1':
        bad.append(('getters:differ', 'an accessor of NLModel / NLSolver (C++ or C) does not return what was set'))
    sf = one('samefile')
    if sf is not None and sf[2] != '1':
        bad.append(('write:not-deterministic', 'NLModel::WriteNL and NLSolver::LoadModel wrote different files for the same model'))
    return bad



# ------------------------------------------------------------------------------------------- coverage mode
ANCHOR_FILES = ['nl-writer2/src/nl-solver.cc', 'nl-writer2/include/mp/nl-model.h', 'nl-writer2/include/mp/nl-solver.h',
                'nl-writer2/include/mp/nl-solver.hpp', 'nl-writer2/src/nl-model-c.cc', 'nl-writer2/src/nl-solver-c.cc',
                'include/mp/nl-reader.h']
# functions named in anchors.mechanism / anchors.state (+ the reader functions the model mirrors)
MECH_FUNCS = ['FillNonlinearVars', 'PermuteVars', 'FillObjNonzeros', 'FillColSizes', 'FillHeader', 'ExportPreproData',
              'FeedObjGradient', 'FeedObjExpression', 'FeedVarBounds', 'FeedConBounds', 'FeedLinearConExpr', 'FeedColumnSizes',
              'FeedInitialGuesses', 'FeedInitialDualGuesses', 'FeedSuffixes', 'FeedRowAndObjNames', 'FeedColNames',
              'ComputeObjValue', 'OnPrimalSolution', 'OnDualSolution', 'OnSuffix', 'OnIntSuffix', 'OnDblSuffix', 'NItemsMax',
              'LoadModel', 'ReadSolution', 'WriteNL', 'AddVariables', 'ReadNumArgs', 'AddSuffix', 'SufSize',
              'NLW2_SetDualWarmstart_C', 'NLW2_SetWarmstart_C', 'NLW2_AddSuffix_C', 'NLW2_WrapNLSOL_Solution_C', 'NLW2_ReadSolution_C',
              'NLW2_LoadNLModel_C', 'NLW2_SolveNLModel_C', 'NLW2_ComputeObjValue_C']


def parse_gcov(path):
    """-> (lines {no: count or None(not executable)}, branches {no: [taken counts]} without exception edges (template
    instantiations / several TUs summed element-wise), funcs [(first line, demangled name, calls)])"""
    lines, occ, funcs = {}, {}, []
    cur = None
    curlist = None
    pending_funcs = []
    for raw in open(path, errors='replace'):
        m = re.match(r'^\s*([0-9]+\*?|#####|=====|-):\s*([0-9]+):(.*)$', raw)
        if m:
            no = int(m.group(2))
            if no == 0:
                continue
            cur = no
            if no not in lines:
                c = m.group(1)
                lines[no] = None if c == '-' else 0 if c in ('#####', '=====') else int(c.rstrip('*'))
            curlist = []
            occ.setdefault(no, []).append(curlist)
            for nm, calls in pending_funcs:
                funcs.append((no, nm, calls))
            pending_funcs = []
            continue
        m = re.match(r'^function (.*) called (\d+) returned', raw)
        if m:
            pending_funcs.append((m.group(1), int(m.group(2))))
            continue
        m = re.match(r'^branch\s+\d+ (taken (\d+)|never executed)(.*)$', raw)
        if m and curlist is not None and '(throw)' not in m.group(3):
            curlist.append(int(m.group(2)) if m.group(2) else 0)
    branches = {}
    for no, lists in occ.items():
        lists = [l for l in lists if l]
        if not lists:
            continue
        L = max(len(l) for l in lists)
        same = [l for l in lists if len(l) == L]
        branches[no] = [sum(l[i] for l in same) for i in range(L)]
    agg = {}
    for no, nm, calls in funcs:
        agg[(no, nm)] = agg.get((no, nm), 0) + calls
    return lines, branches, [(no, nm, calls) for (no, nm), calls in agg.items()]


# for these files only the functions that belong to the easy API (or that the model mirrors) count for the totals
COUNTED_ONLY = {
    'include/mp/nl-reader.h': ['AddVariables', 'DoAddVars', 'ReadNumArgs'],
    'nl-writer2/src/nl-solver-c.cc': ['NLW2_MakeNLSolver_C', 'NLW2_DestroyNLSolver_C', 'NLW2_SetFileStub_C', 'NLW2_GetFileStub_C', 'NLW2_SetNLOptions_C',
                                      'NLW2_GetNLOptions_C', 'NLW2_GetErrorMessage_C', 'NLW2_WrapNLSOL_Solution_C', 'NLW2_SolveNLModel_C',
                                      'NLW2_LoadNLModel_C', 'NLW2_RunSolver_C', 'NLW2_ReadSolution_C'],
}


def _calls_by_name(funcs):
    d = {}
    for _, nm, calls in funcs:
        k = nm.split('(')[0][-80:]
        d[k] = d.get(k, 0) + calls
    return d


def coverage(ck, cases, label):
    """VERIF_COVERAGE=1: instrumented build of the harness + nl-writer2, quick-tier stream, gcov on the anchored files"""
    cdir = os.path.join(BUILD, 'c08cov')
    shutil.rmtree(cdir, ignore_errors=True)
    os.makedirs(cdir)
    inc = ['-I' + os.path.join(REPO, 'include'), '-I' + os.path.join(REPO, 'src'), '-I' + os.path.join(REPO, 'nl-writer2', 'include'),
           '-I' + os.path.join(VERIF, 'harness')]
    srcs = [os.path.join(REPO, s_) for s_ in ck.LIBNLW2_SRC] + [os.path.join(VERIF, 'harness', 'h_easy.cc')]
    from concurrent.futures import ThreadPoolExecutor

    def comp(src):
        o = os.path.join(cdir, os.path.basename(src).replace('.', '_') + '.o')
        rc, out, err = sh(['g++', '-std=c++17', '-w', '-O0', '-g', '--coverage', '-DNDEBUG', '-DAMPL_MP_VERIF'] + inc + ['-c', src, '-o', o], timeout=3000)
        if rc != 0:
            raise RuntimeError(err[-2000:])
        return o
    with ThreadPoolExecutor(max_workers=8) as ex:
        objs = list(ex.map(comp, srcs))
    exe = os.path.join(cdir, 'h_easy_cov')
    rc, out, err = sh(['g++', '--coverage'] + objs + ck.libmp_objects(flags=('-O1', '-g', '-DNDEBUG')) + ['-o', exe, '-ldl'], timeout=3000)
    if rc != 0:
        raise RuntimeError(err[-2000:])
    cf, out, rc, err = run_harness(exe, cases, 'cov')
    gcdas = sorted(glob.glob(os.path.join(cdir, '*.gcda')))
    sh(['gcov-12', '-b', '-c', '-m'] + gcdas, cwd=cdir, timeout=3000)
    res = {'label': label, 'cases': len(cases), 'harness_exit': rc, 'files': {}}
    md = []
    tot_l = tot_lc = tot_b = tot_bc = 0
    for af in ANCHOR_FILES:
        g = os.path.join(cdir, os.path.basename(af) + '.gcov')
        if not os.path.exists(g):
            res['files'][af] = {'note': 'no executable code instantiated / no gcov output'}
            md.append('### %s\nno gcov output (no executable line instantiated in the instrumented TUs)\n' % af)
            continue
        lines, branches, funcs = parse_gcov(g)
        src = open(os.path.join(REPO, af), errors='replace').read().split('\n')
        ex_l = [n for n, c_ in lines.items() if c_ is not None]
        cov_l = [n for n in ex_l if lines[n] > 0]
        nb = sum(len(v) for v in branches.values()); nbc = sum(1 for v in branches.values() for t in v if t > 0)
        # function extents: from its first line to the line before the next function
        fstarts = sorted(set(no for no, _, _ in funcs))
        mech = {}
        for no, nm, calls in funcs:
            short = next((f for f in MECH_FUNCS if re.search(r'\b%s\b' % re.escape(f), nm.split('(')[0])), None)
            if not short:
                continue
            nxt = next((x for x in fstarts if x > no), max(lines) + 1)
            rng_ = [n for n in ex_l if no <= n < nxt]
            e = mech.setdefault((short, no), {'calls': 0, 'lines': len(rng_), 'uncovered_lines': [], 'branches': 0, 'branches_taken': 0, 'untaken': []})
            e['calls'] += calls
            e['insts'] = e.get('insts', 0) + 1
            e['uncovered_lines'] = [n for n in rng_ if lines[n] == 0]
            e['branches'] = sum(len(branches.get(n, [])) for n in rng_)
            e['branches_taken'] = sum(1 for n in rng_ for t in branches.get(n, []) if t > 0)
            e['untaken'] = [n for n in rng_ if any(t == 0 for t in branches.get(n, [])) and lines[n] > 0]
        if af in COUNTED_ONLY:
            sel = set()
            for no, nm, calls in funcs:
                if any(re.search(r'\b%s\b' % re.escape(f), nm.split('(')[0]) for f in COUNTED_ONLY[af]):
                    nxt = next((x for x in fstarts if x > no), max(lines) + 1)
                    sel.update(n for n in ex_l if no <= n < nxt)
            fl, flc = len(sel), sum(1 for n in sel if lines[n] > 0)
            fb = sum(len(branches.get(n, [])) for n in sel); fbc = sum(1 for n in sel for t in branches.get(n, []) if t > 0)
        else:
            fl, flc, fb, fbc = len(ex_l), len(cov_l), nb, nbc
        tot_l += fl; tot_lc += flc; tot_b += fb; tot_bc += fbc
        res['files'][af] = {'lines': len(ex_l), 'lines_covered': len(cov_l), 'branches': nb, 'branches_taken': nbc,
                            'counted_lines': fl, 'counted_lines_covered': flc,
                            'uncalled_functions': sorted(k_ for k_, v_ in _calls_by_name(funcs).items() if v_ == 0)[:60]}
        md.append('### %s\nlines %d/%d (%.1f%%), branches %d/%d (%.1f%%)%s\n' % (af, len(cov_l), len(ex_l), 100.0 * len(cov_l) / max(1, len(ex_l)), nbc, nb, 100.0 * nbc / max(1, nb),
                  ' — totals count only the easy-API / mirrored functions of this file (%s): lines %d/%d, branches %d/%d' % (', '.join(COUNTED_ONLY[af]), flc, fl, fbc, fb) if af in COUNTED_ONLY else ''))
        md.append('| mechanism function (line) | calls | uncovered lines | branches taken | lines with an untaken branch |\n|---|---|---|---|---|')
        for (short, no), e in sorted(mech.items(), key=lambda kv: kv[0][1]):
            md.append('| %s (%d) | %d | %s | %d/%d | %s |' % (short, no, e['calls'], e['uncovered_lines'] or '-', e['branches_taken'], e['branches'], e['untaken'] or '-'))
            for n in e['uncovered_lines'][:12]:
                md.append('|  | | `%d: %s` | | |' % (n, src[n - 1].strip()[:90].replace('|', '\\|')))
        unc = res['files'][af]['uncalled_functions']
        if unc and af not in COUNTED_ONLY:
            md.append('\nnever-called functions in this file: ' + ', '.join('`%s`' % u for u in unc[:40]))
        md.append('')
    res['anchor_line_cov'] = round(100.0 * tot_lc / max(1, tot_l), 1)
    res['anchor_branch_cov'] = round(100.0 * tot_bc / max(1, tot_b), 1)
    return res, '\n'.join(md)


def model_arms(cases):
    """which `if` / `match` arms of the Lean model functions (Model.lean) the correspondence stream takes, by the input
    condition that selects the arm (the driver evaluates exactly these functions on every case)"""
    A = {}

    def hit(k, cond=True):
        A.setdefault(k, 0)
        if cond:
            A[k] += 1
    prev_n = {}
    for c in cases:
        n, m = c['n'], c['m']
        qent = [(i, col, v) for i, row in enumerate(c['Q']) for (col, v) in row]
        nl = set([i for i, _, _ in qent] + [col for _, col, _ in qent])
        hit('isInt: types = none', c['types'] is None); hit('isInt: types = some', c['types'] is not None)
        for j in range(n):
            it = bool(c['types'] and c['types'][j]); b = c['lb'][j] == 0 and c['ub'][j] == 8
            k = (-2 if j in nl else 0) + ((2 if (j not in nl and not b) else 1) if it else 0)
            hit('key = %d' % k)
            hit('isBin01 true on an integer column', it and b); hit('isBin01 false on an integer column', it and not b)
            for bn, nm in ((c['lb'][j], 'lb'), (c['ub'][j], 'ub')):
                hit('Bnd.%s %s' % ('ninf' if bn == '-I' else 'pinf' if bn == 'I' else 'fin', nm))
            hit('decodeIsInt: linear integer block (first arm)', it and j not in nl)
            hit('decodeIsInt: nonlinear integer block', it and j in nl)
            hit('decodeIsInt: continuous (both tests false)', not it)
        hit('qEntries / feedObjExpr: nnz = 0', not qent); hit('feedObjExpr: nnz > 0', bool(qent))
        hit('feedObjExpr: c0 != 0 inside the sum', bool(qent) and c['c0'] != 0); hit('feedObjExpr: c0 = 0 inside the sum', bool(qent) and c['c0'] == 0)
        hit('numPad > 0 (sum padded to 3 arguments)', bool(qent) and len(qent) + (1 if c['c0'] else 0) < 3)
        hit('driver: constant objective printed as nil (c0 = 0, nnz = 0)', not qent and c['c0'] == 0)
        hit('cCoef: c = none', c['c'] is None); hit('cCoef: c = some', c['c'] is not None)
        hit('walkDesc: empty Hessian row', any(not r for r in c['Q']) and bool(qent)); hit('walkDesc: nonempty row', bool(qent))
        hit('supp false for some column (sparse gradient)', any((c['c'] is None or c['c'][j] == 0) and j not in nl for j in range(n)))
        hit('feedLinearConExpr: last row (end = nnz)', m > 0); hit('feedLinearConExpr: inner row (end = start[i+1])', m > 1)
        hit('feedLinearConExpr: empty row', any(not r for r in c['A']))
        hit('feedInitialGuesses nonempty', bool(c['ws'])); hit('feedInitialDualGuesses nonempty', bool(c['dws']))
        seen = set()
        for s_ in c['sufs']:
            key_ = (s_['name'], s_['kind'] & 3)
            hit('sufSet: duplicate (name, kind&3) dropped', key_ in seen); seen.add(key_)
            hit('feedSuffix: variable suffix (through vperm)', s_['kind'] % 4 == 0); hit('feedSuffix: non-variable suffix', s_['kind'] % 4 != 0)
            hit('feedSuffix: double suffix', bool(s_['kind'] & 4)); hit('feedSuffix: integer suffix (roundHA)', not s_['kind'] & 4)
            hit('roundHA: negative argument', not s_['kind'] & 4 and any(v < 0 for v in s_['values']))
            hit('roundHA: non-integral argument', not s_['kind'] & 4 and any(v % 8 for v in s_['values']))
            hit('feedSuffix: all values zero (suffix not written)', all(v == 0 for v in s_['values']))
            for kk in range(4):
                hit('sufSize / nmax arm kind%%4 = %d' % kk, s_['kind'] % 4 == kk)
        hit('feedColNames none', c['cn'] is None); hit('feedColNames some', c['cn'] is not None)
        hit('feedRowObjNames none', c['rn'] is None); hit('feedRowObjNames some', c['rn'] is not None)
        hit('onPrimalPd: no primal values', not c['solx']); hit('onPrimalPd: values', bool(c['solx']))
        hit('onPrimalPd: fewer values than columns', 0 < len(c['solx']) < n)
        for s_ in c['ssuf']:
            size = n if s_['kind'] % 4 == 0 else m if s_['kind'] % 4 == 1 else 1
            hit('onSuffixPd: variable suffix (through vperm_inv)', s_['kind'] % 4 == 0); hit('onSuffixPd: non-variable suffix', s_['kind'] % 4 != 0)
            hit('solSuffixOk false (index out of range)', any(i >= size for (i, _) in s_['entries']))
        hit('stickyErr: error flag already set by an earlier model of the session', c.get('_err_before', False))
        hit('computeObjValue evaluated (full primal vector returned)', len(c['solx']) == n)
        hit('api = C wrapper', c['api'] == 1); hit('api = C++', c['api'] == 0)
        if c.get('session'):
            pn = prev_n.get(c['session'])
            hit('exportPrepro: first model of a session (resize pads from empty)', pn is None)
            hit('exportPrepro: previous model had more columns (resize truncates)', pn is not None and pn > n)
            hit('exportPrepro: previous model had fewer columns (resize pads)', pn is not None and pn < n)
            hit('exportPrepro: previous model had the same size', pn is not None and pn == n)
            prev_n[c['session']] = n
        else:
            hit('exportPrepro: fresh PreprocessData (session 0)')
    return A

# ------------------------------------------------------------------------------------------- running
def group(text):
    """split an output stream into {case id: [lines]} (suffix lines sorted: they come out of std::set / hash order)"""
    res, order = {}, []
    for l in text.split('\n'):
        if not l:
            continue
        cid = l.split(' ', 1)[0]
        if cid not in res:
            res[cid] = []; order.append(cid)
        res[cid].append(l)
    for cid in res:
        ls = res[cid]
        sufs = sorted(x for x in ls if x.split(' ')[1] == 'suf' or x.split(' ')[1:3] == ['sol', 'suf'])
        res[cid] = [x for x in ls if x not in sufs] + sufs
    return res, order


def build_harness(ck, asserts=False):
    F = ('-O1', '-g') if asserts else ('-O1', '-g', '-DNDEBUG')
    objs = ck.libmp_objects(flags=('-O1', '-g', '-DNDEBUG')) + ck.libnlw2_objects(flags=F)
    h = ck.objects([os.path.join(VERIF, 'harness', 'h_easy.cc')], flags=('-O1', '-g', '-DNDEBUG'), tag='c08')
    return ck.link('h_easy_dbg' if asserts else 'h_easy', h + objs)


def run_harness(exe, cases, tag):
    wd = os.path.join(BUILD, 'c08', tag)
    shutil.rmtree(wd, ignore_errors=True)
    os.makedirs(wd, exist_ok=True)
    cf = os.path.join(wd, 'cases.txt')
    with open(cf, 'w') as f:
        f.write('P\n')      # failure-path probes (no model data)
        for c in cases:
            f.write(case_line(c) + '\n')
    p = subprocess.run([exe, cf, os.path.join(wd, 'w')], capture_output=True, text=True, timeout=3000)
    return cf, p.stdout, p.returncode, p.stderr[-1500:]


def run(ck):
    ck.level = 'proof'
    # (1) regenerate the definitions extracted from the current source (written only when changed)
    gen = os.path.join(LEAN, 'MpVerif', 'Gen', 'C08Easy.lean')
    rc, out, err = sh([sys.executable, os.path.join(VERIF, 'translators', 'gen_easy_c08.py'), REPO, gen, os.path.join(BUILD, 'tr')], timeout=900)
    ck.log((out.strip() or err.strip())[-300:])
    translator_ok = rc == 0
    if translator_ok:
        proof_ok, failing = ck.proof_stage('MpVerif.C08.Props', 'MpVerif/C08/Props.lean', 'C08_', ['MpVerif/C08/*.lean', 'MpVerif/Gen/C08Easy.lean'], expect_min=N_THEOREMS)
    else:
        proof_ok, failing = False, ['translator: ' + (out + err).strip()[-400:]]
        ck.cov.update({'obligations': N_THEOREMS, 'discharged': 0, 'checker_cmd': 'translators/gen_easy_c08.py failed (construct it cannot translate)'})
    ck.cov['generated_from_source'] = 'lean/MpVerif/Gen/C08Easy.lean: 42 semantic definitions (NLProblemBuilder::AddVariables, NLReader::ReadNumArgs + MIN_ITER_ARGS and BasicProblem::AddVars of the reader side from include/mp/nl-reader.h, StringFileWriter destructor condition, CSR row-walk components of four functions, reverse-mapping loop, VPerm/VPermInv fields, PermuteVars loop body, ComputeObjValue terms, FeedObjExpression coefficient, NItemsMax, OnSuffix / OnPrimalSolution / FeedSuffixes index arithmetic) + 33 function skeletons, regenerated on every run by translators/gen_easy_c08.py'
    ck.log('proof stage: ok=%s failing=%s' % (proof_ok, failing[:10]))
    if ck.tier == 'thorough' and proof_ok:
        badm = ck.leanchecker(['MpVerif.C08.Props'])
        if badm:
            failing += ['leanchecker rejected %s' % x for x in badm]
            proof_ok = False
    # ---- cases
    rng = random.Random(ck.seed * 1000003 + 8)
    hist = {}
    cases = corpus_cases()
    ncorp = len(cases)
    ngen = 40000 if ck.tier == 'thorough' else 4000
    i = 0
    nsess = 0
    while i < ngen:
        if rng.random() < 0.12:
            # a history: 2-4 models through one NLSolver (and one PreprocessData), solution read after each
            nsess += 1
            k = rng.choice([2, 2, 3, 4])
            api = 1 if rng.random() < 0.3 else 0
            prev = None
            for _ in range(k):
                c = gen_case(rng, 'g%d' % i, ck.tier, hist)
                c['session'] = nsess
                # one working stub per session: alternate named / partially named / unnamed models so that name files
                # of an earlier model must be replaced or removed
                if prev is None:
                    want = rng.choice([(1, 1), (1, 1), (1, 0), (0, 1), (0, 0)])
                else:
                    want = tuple((0 if (p_ and rng.random() < 0.6) else rng.randint(0, 1)) for p_ in prev)
                c['cn'] = ['%s%d' % (rng.choice(['x', 'v', 'col_']), j_) for j_ in range(c['n'])] if want[0] else None
                c['rn'] = ['%s%d' % (rng.choice(['r', 'con_']), i_) for i_ in range(c['m'])] if want[1] else None
                hk = hist.setdefault('history_name_files', {})
                if prev is not None:
                    for kind_, p_, w_ in (('col', prev[0], want[0]), ('row', prev[1], want[1])):
                        key_ = '%s:%s->%s' % (kind_, 'named' if p_ else 'none', 'named' if w_ else 'none')
                        hk[key_] = hk.get(key_, 0) + 1
                prev = want
                if c['mode'] == 2:
                    c['mode'] = 1      # the automatic stub belongs to a fresh solver
                if rng.random() < 0.8:
                    c['api'] = api
                    if api == 1 and c['dws']:
                        c['dws'] = [(r_, v_) for (r_, v_) in c['dws'] if r_ < c['m']]
                cases.append(c); i += 1
            h = hist.setdefault('history_length', {}); h[str(k)] = h.get(str(k), 0) + 1
        else:
            cases.append(gen_case(rng, 'g%d' % i, ck.tier, hist)); i += 1
    byid = {c['id']: c for c in cases}
    covdir = os.path.join(VERIF, 'design_notes', 'coverage')
    if os.environ.get('VERIF_COVERAGE'):
        os.makedirs(covdir, exist_ok=True)
        res, md = coverage(ck, cases, os.environ.get('VERIF_COVERAGE_LABEL', 'after'))
        json.dump(res, open(os.path.join(covdir, 'C08.json'), 'w'), indent=1)
        open(os.path.join(covdir, 'C08.gcov.md'), 'w').write('# C08 — gcov tables of the last VERIF_COVERAGE run (%s, %d cases, seed %d)\n\nanchor line coverage %.1f%%, branch coverage %.1f%%\n\n%s' %
                                                                (ck.tier, len(cases), ck.seed, res['anchor_line_cov'], res['anchor_branch_cov'], md))
        ck.log('coverage: anchored lines %.1f%%, branches %.1f%%' % (res['anchor_line_cov'], res['anchor_branch_cov']))
    try:
        cj = json.load(open(os.path.join(covdir, 'C08.json')))
        ck.cov['anchor_line_cov'] = cj['anchor_line_cov']
        ck.cov['anchor_branch_cov'] = cj['anchor_branch_cov']
        ck.cov['anchor_cov_note'] = 'measured in the last VERIF_COVERAGE=1 run (gcov -b on anchors.files; nl-reader.h counted only for the reader functions the model mirrors); see design_notes/coverage/C08.md'
    except Exception:
        pass
    pos_of = {c['id']: k_ for k_, c in enumerate(cases)}
    sticky = {}     # NLSolver::err_msg_ is never cleared: per solver object (session, api)
    for c in cases:
        if c.get('session'):
            key_ = (c['session'], c['api'])
            c['_err_before'] = sticky.get(key_, False)
            badnow = any(i >= (c['n'] if s_['kind'] % 4 == 0 else c['m'] if s_['kind'] % 4 == 1 else 1) for s_ in c['ssuf'] for (i, _) in s_['entries'])
            sticky[key_] = sticky.get(key_, False) or badnow

    def replay_lines(c):
        """the case line, preceded by the earlier cases of its session (a history is replayed as a whole)"""
        if not c.get('session'):
            return case_line(c)
        return '\n'.join(case_line(x) for x in cases[:pos_of[c['id']] + 1] if x.get('session') == c['session'])
    exe = build_harness(ck)
    drv = ck.driver('drv_c08')
    cf, impl, rc, err = run_harness(exe, cases, 'main')
    with open(cf) as f:
        mp_ = subprocess.run([drv], stdin=f, capture_output=True, text=True, timeout=3000)
    G, order = group(impl)
    order = [x for x in order if x != 'probe']
    M, _ = group(mp_.stdout)
    if rc != 0 or len(order) != len(cases) or any(not G[c][-1].endswith(' end') and not any(x.endswith(' end') for x in G[c]) for c in order):
        done = set(c for c in order if any(x.endswith(' end') for x in G[c]))
        first = next((c for c in cases if c['id'] not in done), None)
        ck.add_violation('harness:crash', 'the real code crashed / stopped on case %s (exit %s): %s' % (first and first['id'], rc, err[-400:]),
                         {'case': first and case_line(first), 'stderr': err, 'how': 'harness/h_easy.cc <file with this case line> <dir>'})
    n_lines = n_cases_agree = n_clean = 0
    PROBE = ['probe cpp presol code -2 nx 0 err 1', 'probe cpp badstub load 0 werr 1 err 1 code -2 nx 0 perm 2',
             'probe c presol code -2 nx 0 err 1', 'probe c badstub load 0 werr 1 err 1 code -2 nx 0 perm 2']
    if G.get('probe') != PROBE:
        ck.add_violation('probe:failure-path', 'ReadSolution before a model is loaded / LoadModel with an unwritable stub must report failure (no solution, error message): got %s' % (G.get('probe'),),
                         {'case': 'P', 'observed': G.get('probe'), 'expected': PROBE, 'how': 'harness/h_easy.cc with a file containing the single line P'})
    if M.get('probe') != G.get('probe'):
        ck.add_violation('corr:probe', 'Lean model and real code disagree on the failure probes: %s / %s' % (G.get('probe'), M.get('probe')),
                         {'case': 'P', 'impl': G.get('probe'), 'model': M.get('probe')}, found_input=G.get('probe') != PROBE)
    sigcount = {}
    nontrivial = set()
    for c in cases:
        cid = c['id']
        if cid not in G or not any(x.endswith(' end') for x in G[cid]):
            continue
        obad = oracle(c, G[cid])
        if not obad:
            n_clean += 1
        for sig in set(s_ for s_, _ in obad):
            sigcount[sig] = sigcount.get(sig, 0) + 1
        for sig, what in obad:
            ck.add_violation(sig, '%s [case %s]' % (what, cid),
                             {'case': replay_lines(c), 'case_id': cid, 'observed': G[cid][:40], 'expected': what,
                              'how': './check C08 --replay <this file>  (runs harness/h_easy.cc on the case line against $MP_REPO)'})
        ml = M.get(cid, [])
        n_lines += len(G[cid])
        if ml == G[cid]:
            n_cases_agree += 1
        else:
            diff = next(((a, b) for a, b in zip(G[cid] + ['<none>'] * len(ml), ml + ['<none>'] * len(G[cid])) if a != b), ('?', '?'))
            kind = diff[0].split(' ')[1] if ' ' in diff[0] else 'line'
            # a disagreement with a failing oracle on a signature that is not a known finding is already reported above
            ck.add_violation('corr:%s' % kind, 'Lean model and real code disagree on case %s: real "%s" / model "%s"%s' %
                             (cid, diff[0][:300], diff[1][:300], '' if obad else ' (property oracle is satisfied on this case: model drift or a change outside the oracle)'),
                             {'case': replay_lines(c), 'case_id': cid, 'impl_line': diff[0], 'model_line': diff[1], 'correspondence': 'drv_c08 vs harness/h_easy.cc'},
                             found_input=bool(obad))
        nontrivial.add((c['n'], c['m'], tuple(len(r) for r in c['Q']), c['api'], c['text'], len(c['sufs']), len(c['ws'])))
        if len(ck.cov['samples']) < 6 and cid.startswith('g'):
            ck.sample(case_line(c)[:300])
    # ---- regression inputs of the defects fixed by repo_patches/C08-easy-api-fixes.diff: the oracle must be silent on them
    regress = {}
    for cid in ('cxtypes', 'cxsum', 'cxsumb', 'cxblock', 'cxnull', 'cxcdual'):
        if cid in G:
            regress[cid] = not oracle(byid[cid], G[cid])
    ck.cov['regression_inputs_of_fixed_defects_clean'] = regress
    # ---- assert-enabled build of nl-solver.cc on the corpus (debug builds abort on a wrong assertion)
    try:
        exed = build_harness(ck, asserts=True)
        dbg_cases = [c for c in cases[:ncorp]] + cases[ncorp:ncorp + 40]
        _, dout, drc, derr = run_harness(exed, dbg_cases, 'dbg')
        Gd, od = group(dout)
        if drc != 0:
            done = set(c for c in od if any(x.endswith(' end') for x in Gd[c]))
            first = next((c for c in dbg_cases if c['id'] not in done), None)
            m_ = re.search(r'Assertion `([^\']*)\' failed', derr)
            qn = sum(len(r) for r in first['Q']) if first else 0
            if m_ and 'i<nlv_obj_.size()' in m_.group(1) and first and qn > first['n']:
                sig = 'debug-assert:hessian-nnz-exceeds-cols'
            else:
                sig = 'debug-assert:other'
            ck.add_violation(sig, 'with assertions enabled nl-solver.cc aborts on a valid model (case %s, %d Hessian nonzeros, %d columns): %s' %
                             (first and first['id'], qn, first['n'] if first else -1, m_.group(0) if m_ else derr[-300:]),
                             {'case': first and case_line(first), 'stderr': derr[-600:], 'how': 'build nl-writer2 without -DNDEBUG and load this model'})
        ck.cov['debug_build_cases'] = len(od)
    except Exception as e:
        ck.notes.append('assert-enabled build not run: %r' % (e,))
    # ---- obligations
    if not proof_ok:
        for fdecl in failing:
            ck.add_violation('obligation:%s' % fdecl.split(' ')[0], 'proof obligation no longer checks: %s' % fdecl,
                             {'theorem': fdecl, 'module': 'MpVerif.C08.Props', 'searched': '%d cases on the real code' % len(cases)}, found_input=False)
    ck.cov['evaluations'] = len(order)
    ck.cov['distinct_nontrivial'] = len(nontrivial)
    ck.cov['rule'] = 'distinct (n, m, Hessian row sizes, api, format, #suffixes, #warm-start entries) shapes of generated matrix models, each written by the real easy API, read back by the real mp::ReadNLFile and answered with a .sol file'
    ck.cov['traces_validated_against_impl'] = n_cases_agree
    ck.cov['correspondence'] = {'cases': len(order), 'cases_identical_model_vs_impl': n_cases_agree, 'lines_compared': n_lines}
    ck.cov['oracle_signatures_seen'] = sigcount
    ck.cov['cases_where_oracle_is_fully_satisfied'] = n_clean
    ck.cov['generator_histogram'] = hist
    arms = model_arms(cases)
    ck.cov['model_arms_exercised'] = arms
    ck.cov['model_arms_never_taken'] = sorted(k_ for k_, v_ in arms.items() if v_ == 0)
    ck.cov['corpus_cases'] = ncorp
    ck.cov['exhaustive'] = False
    ck.log('cases=%d identical=%d lines=%d property-clean=%d oracle signatures (cases)=%s' % (len(order), n_cases_agree, n_lines, n_clean, sigcount))
    ck.assumptions += [
        'numeric data are dyadic rationals of small height (exact in double); the decimal codec of the NL/SOL text formats is outside the model (C03/C05)',
        'CSR input is well formed (start_ has one entry per row, nondecreasing, <= num_nz; indices in range); no NaN; lb <= ub',
        'the NL reader side is mp::ReadNLFile + NLProblemBuilder<mp::Problem> built with -DNDEBUG (release defines)',
    ]
    ck.cov['trusted_base'] += ['harness/h_easy.cc canonical printing (numbers scaled by 1024, expression trees as s-expressions) and the python oracle in checks/c08.py',
                               'Lean model MpVerif/C08/Model.lean is hand-written; its agreement with nl-solver.cc / nl-model-c.cc / the reader is sampled by the correspondence on every run']


def replay(ck, path):
    obj = json.load(open(path))
    line = obj['replay'].get('case')
    exe = build_harness(ck)
    wd = os.path.join(BUILD, 'c08', 'replay')
    os.makedirs(wd, exist_ok=True)
    cf = os.path.join(wd, 'case.txt')
    open(cf, 'w').write(line + '\n')
    p = subprocess.run([exe, cf, os.path.join(wd, 'w'), 'keep'], capture_output=True, text=True)
    print(p.stdout + p.stderr)
    print('files kept under', os.path.join(wd, 'w'))
    return 0

"""C02: structure-aware generator of NL inputs (text, binary native, binary byte-swapped),
mutations (truncation, hostile counts / indices / opcodes / lengths, byte noise) and header hostility.

Every random choice comes from the `random.Random(seed)` handed in.  The generator knows the NL
grammar from the format description only (it shares no code with the Lean model); the opcode classes
come from the table dumped from the current sources (translators/dump_opcodes.cc).
"""
import struct, random

INT_MAX = 2147483647
HOSTILE_INTS = [0, 1, 2, 3, 7, 8, 9, 10, 82, 83, 255, 256, 65535, 65536, 32767, 32768, INT_MAX - 1, INT_MAX,
                INT_MAX + 1, 4294967295, 4294967296, 5000000000, 4294967306, 99999999999999999999, -1, -2,
                -INT_MAX - 1, -INT_MAX - 2, 18446744073709551615, 18446744073709551616, 42949672960]
DBL_TEXT = ['0', '1', '-1', '1.5', '-0', '0.0', '.5', '5.', '1e3', '1E-3', '-2.5e+2', '1e400', '1e-400', 'inf', '-inf',
            'Infinity', 'nan', '0x1p3', '0x.8p1', '1e', '007', '+3', '3.25', '1234567890123456789', '0.1',
            '4.9e-324', '2e-324', '1e-330', '9007199254740993', '123456789012345678901234567890', '-0.0e5']
DBL_VALS = [0.0, 1.0, -1.0, 1.5, -0.0, 0.5, 1000.0, 1e-3, -250.0, float('inf'), float('-inf'), 8.0, 3.25, 0.1, 5e-324,
            1.7976931348623157e308, 2.0 ** 53 + 2, -7.0, 100.0, 2.0]


class Table:
    """opcode table dumped from the sources: classes by first_kind"""
    def __init__(self, dump_text):
        self.ops, self.k = [], {}
        for line in dump_text.split('\n'):
            f = line.split()
            if not f:
                continue
            if f[0] == 'op':
                self.ops.append((int(f[2]), int(f[3])))
            elif f[0] == 'k':
                self.k[f[1]] = int(f[2])
            elif f[0] == 'max':
                self.max = int(f[1])
        def cls(name):
            return [i for i, (k, fk) in enumerate(self.ops) if fk == self.k[name] and k != 0]
        self.unary, self.binary = cls('FIRST_UNARY'), cls('FIRST_BINARY')
        self.vararg, self.blog = cls('FIRST_VARARG'), cls('FIRST_BINARY_LOGICAL')
        self.rel, self.lcount = cls('FIRST_RELATIONAL'), cls('FIRST_LOGICAL_COUNT')
        self.iterlog, self.pairwise = cls('FIRST_ITERATED_LOGICAL'), cls('FIRST_PAIRWISE')
        self.single = {n: cls(n) for n in ('IF', 'PLTERM', 'SUM', 'COUNT', 'NUMBEROF', 'NUMBEROF_SYM', 'NOT', 'IMPLICATION', 'IFSYM')}
        self.unknown = [i for i, (k, fk) in enumerate(self.ops) if fk == 0]
        self.other = [i for i, (k, fk) in enumerate(self.ops)
                      if fk != 0 and not any(i in c for c in (self.unary, self.binary, self.vararg, self.blog, self.rel,
                                                              self.lcount, self.iterlog, self.pairwise))
                      and not any(i in c for c in self.single.values())]


class W:
    """NL writer with text / binary back ends; records the offsets of every field for targeted mutation"""
    def __init__(self, rng, binary, big):
        self.rng, self.binary, self.big = rng, binary, big
        self.out = bytearray()
        self.fields = []     # (offset, length, kind) kind in idx,count,opcode,len,int,dbl,char,short
        self.bounds = []     # (index into fields, first invalid value) for range-checked fields
        self.fresh = True    # text: directly after a segment/expression letter

    def raw(self, b):
        self.out += b

    def ch(self, c, kind='char'):
        self.fields.append((len(self.out), 1, kind))
        self.out += c.encode() if isinstance(c, str) else bytes([c])
        self.fresh = True

    def _sep(self):
        if not self.binary:
            if not self.fresh or self.rng.random() < 0.1:
                self.out += self.rng.choice([b' ', b' ', b' ', b'  ', b'\t'])
            self.fresh = False

    def uint(self, n, kind='int', bound=None):
        self._sep()
        o = len(self.out)
        if bound is not None:
            self.bounds.append((len(self.fields), bound))
        if self.binary:
            self.out += struct.pack('>i' if self.big else '<i', n if -2**31 <= n < 2**31 else (n & 0x7fffffff))
        else:
            self.out += str(n).encode()
        self.fields.append((o, len(self.out) - o, kind))

    def int32(self, n):
        self.uint(n, 'int')

    def short(self, n):
        self._sep()
        o = len(self.out)
        if self.binary:
            self.out += struct.pack('>h' if self.big else '<h', n)
        else:
            self.out += str(n).encode()
        self.fields.append((o, len(self.out) - o, 'short'))

    def dbl(self, x=None):
        self._sep()
        o = len(self.out)
        if self.binary:
            v = self.rng.choice(DBL_VALS) if x is None else x
            self.out += struct.pack('>d' if self.big else '<d', v)
        else:
            if x is None:
                r = self.rng.random()
                t = self.rng.choice(DBL_TEXT[:16]) if r < 0.8 else (self.rng.choice(DBL_TEXT) if r < 0.95 else repr(self.rng.uniform(-100, 100)))
            else:
                t = repr(float(x)) if x != int(x) else str(int(x))
            self.out += t.encode()
        self.fields.append((o, len(self.out) - o, 'dbl'))

    def name(self, s):
        if self.binary:
            self.uint(len(s), 'len')
            self.out += s
        else:
            self._sep()
            self.out += s

    def string(self, s):
        # 'h' strings: text  <len>:<bytes>\n   binary  <len><bytes>
        if self.binary:
            self.uint(len(s), 'len')
            self.out += s
        else:
            o = len(self.out)
            self.out += str(len(s)).encode()
            self.fields.append((o, len(self.out) - o, 'len'))
            self.out += b':' + s + b'\n'
            self.fresh = True

    def eol(self):
        if not self.binary:
            r = self.rng.random()
            if r < 0.06:
                self.out += b' # c'
            elif r < 0.09:
                self.out += b'\t'
            self.out += b'\n'
            self.fresh = True


class Model:
    """sizes of a random problem"""
    def __init__(self, rng, big_counts=False):
        r = rng
        self.nv = r.choice([0, 1, 1, 2, 2, 3, 3, 4, 5, 6, 8])
        self.nc = r.choice([0, 1, 1, 2, 2, 3, 4])
        self.no = r.choice([0, 1, 1, 1, 2, 3])
        self.nl = r.choice([0, 0, 1, 1, 2])
        self.nf = r.choice([0, 0, 1, 2])
        self.ce = [r.choice([0, 0, 0, 1, 2]) for _ in range(5)] if self.nv else [r.choice([0, 0, 1]) for _ in range(5)]
        self.nce = sum(self.ce)
        self.funcs_defined = set()


def header_text(rng, m, binary, arith, cov):
    """the 10 header lines; sometimes old-style (optional fields omitted)"""
    r = rng
    L = []
    fmtc = 'b' if binary else 'g'
    opt = r.random()
    if opt < 0.55:
        first = fmtc + '3 1 1 0'
    elif opt < 0.65:
        first = fmtc
    elif opt < 0.75:
        first = fmtc + '3 1 3 0 1e-8'       # vbtol
    elif opt < 0.82:
        first = fmtc + str(r.randint(0, 9)) + ''.join(' ' + str(r.choice([0, 1, 2, 3, 5, -1, 7])) for _ in range(r.randint(0, 9)))
    elif opt < 0.88:
        first = fmtc + '2 1.5 7'
    elif opt < 0.93:
        first = fmtc + '9 ' + ' '.join(r.choice(['1', '0', '3', '1e2', '0x10', '2.0', '-0', 'x', '1e18', '9223372036854775000', '-9223372036854775808']) for _ in range(9))
    else:
        first = fmtc + ' 4 1 1 0 2'
    cov['hdr_first_' + ('std' if opt < 0.55 else 'var')] = cov.get('hdr_first_' + ('std' if opt < 0.55 else 'var'), 0) + 1
    L.append(first)
    l2 = ' %d %d %d' % (m.nv, m.nc, m.no)
    q = r.random()
    if q < 0.8:
        l2 += ' 0 0 %d' % m.nl
    elif q < 0.9 and m.nl == 0:
        l2 += r.choice(['', ' 0', ' 0 0'])
    else:
        l2 += ' 1 1 %d' % m.nl
    L.append(l2)
    q = r.random()
    L.append(' %d %d' % (m.nc and r.randint(0, m.nc), m.no and r.randint(0, m.no)) +
             ('' if q < 0.3 else ' 0 0' if q < 0.5 else ' 0 0 0 0' if q < 0.8 else ' 1 1 0 0' if q < 0.9 else ' 2 1'))
    L.append(' 0 0')
    both = r.random() < 0.9
    L.append(' %d %d' % (m.nv and r.randint(0, m.nv), m.nv and r.randint(0, m.nv)) + (' %d' % (m.nv and r.randint(0, m.nv)) if both else ''))
    l6 = ' 0 %d' % m.nf
    if binary:
        fl_ = r.random()
        if arith is not None:
            l6 += ' %d' % arith + (' 1' if fl_ < 0.7 else '')
    else:
        q = r.random()
        l6 += ' 0 1' if q < 0.6 else '' if q < 0.8 else ' 0' if q < 0.9 else ' %d 0' % r.randint(0, 5)
    L.append(l6)
    L.append(' 0 0' + (' 0 0 0' if both else ''))
    L.append(' %d %d' % (r.randint(0, 20), r.randint(0, 20)))
    L.append(' 0 0')
    L.append(' ' + ' '.join(str(c) for c in m.ce))
    return L


def gen_expr(w, rng, m, T, kind, depth, cov):
    """kind: 'n' numeric, 'l' logical, 's' symbolic"""
    r = rng
    def hit(k):
        cov[k] = cov.get(k, 0) + 1
    def const():
        c = r.choice('nnnsl')
        w.ch(c)
        if c == 'n':
            w.dbl()
        elif c == 's':
            w.short(r.choice([0, 1, -1, 7, 32767, -32768]))
        else:
            w.int32(r.choice([0, 1, -1, 100000, INT_MAX, -INT_MAX - 1]))
        w.eol()
        hit('const_' + c)
    def ref():
        n = m.nv + m.nce
        w.ch('v')
        w.uint(r.randrange(n), 'idx', n)
        w.eol()
        hit('ref')
    def op(o):
        w.ch('o')
        w.uint(o, 'opcode', T.max + 1)
        w.eol()
        hit('op%d' % o)
    def args(n, k):
        for _ in range(n):
            gen_expr(w, r, m, T, k, depth - 1, cov)
    def count_expr():
        n = r.randint(1, 3)
        w.uint(n, 'count'); w.eol()
        args(n, 'l')
    leaf = depth <= 0 or r.random() < 0.3
    if kind == 's':
        q = r.random()
        if q < 0.3:
            w.ch('h')
            s = bytes(r.choice(b'abc xyz\n:09\x00\xff') for _ in range(r.choice([0, 1, 3, 5, 12])))
            w.string(s)
            hit('string')
            return
        if q < 0.45 and not leaf:
            op(T.single['IFSYM'][0])
            gen_expr(w, r, m, T, 'l', depth - 1, cov); args(2, 's')
            return
        kind = 'n'
    if kind == 'n':
        if leaf:
            if (m.nv + m.nce) and r.random() < 0.5:
                ref()
            else:
                const()
            return
        q = r.random()
        if q < 0.22:
            op(r.choice(T.unary)); args(1, 'n')
        elif q < 0.44:
            op(r.choice(T.binary)); args(2, 'n')
        elif q < 0.50:
            op(T.single['IF'][0]); args(1, 'l'); args(2, 'n')
        elif q < 0.56 and (m.nv + m.nce):
            op(T.single['PLTERM'][0])
            ns = r.randint(2, 4)
            w.uint(ns, 'count'); w.eol()
            for i in range(2 * ns - 1):
                const()
            ref()
        elif q < 0.63:
            op(r.choice(T.vararg)); n = r.randint(1, 3); w.uint(n, 'count'); w.eol(); args(n, 'n')
        elif q < 0.70:
            op(T.single['SUM'][0]); n = r.randint(3, 4); w.uint(n, 'count'); w.eol(); args(n, 'n')
        elif q < 0.75:
            op(T.single['COUNT'][0]); count_expr()
        elif q < 0.81:
            op(T.single['NUMBEROF'][0]); n = r.randint(1, 3); w.uint(n, 'count'); w.eol(); args(n, 'n')
        elif q < 0.86:
            op(T.single['NUMBEROF_SYM'][0]); n = r.randint(1, 3); w.uint(n, 'count'); w.eol(); args(n, 's')
        elif q < 0.94 and m.nf:
            w.ch('f'); w.uint(r.randrange(m.nf), 'idx', m.nf); n = r.randint(0, 3); w.uint(n, 'count'); w.eol()
            hit('call'); args(n, 's')
        else:
            const()
        return
    # logical
    if leaf:
        const()
        return
    q = r.random()
    if q < 0.12:
        op(T.single['NOT'][0]); args(1, 'l')
    elif q < 0.30:
        op(r.choice(T.blog)); args(2, 'l')
    elif q < 0.52:
        op(r.choice(T.rel)); args(2, 'n')
    elif q < 0.66:
        op(r.choice(T.lcount)); args(1, 'n'); op(T.single['COUNT'][0]); count_expr()
    elif q < 0.74:
        op(T.single['IMPLICATION'][0]); args(3, 'l')
    elif q < 0.87:
        op(r.choice(T.iterlog)); n = r.randint(3, 4); w.uint(n, 'count'); w.eol(); args(n, 'l')
    else:
        op(r.choice(T.pairwise)); n = r.randint(1, 3); w.uint(n, 'count'); w.eol(); args(n, 'n')


def gen_bounds(w, rng, m, is_con, cov):
    w.eol()
    for i in range(m.nc if is_con else m.nv):
        t = rng.choice([0, 1, 2, 3, 4, 5] if (is_con and m.nv) else [0, 1, 2, 3, 4])
        w.ch(str(t))
        cov['bound%d' % t] = cov.get('bound%d' % t, 0) + 1
        if t == 0:
            w.dbl(); w.dbl()
        elif t in (1, 2, 4):
            w.dbl()
        elif t == 5:
            w.int32(rng.choice([0, 1, 2, 3, 7, -1])); w.uint(rng.randint(1, m.nv), 'idx1', m.nv + 1)
        w.eol()


def linear_terms(w, rng, m, n):
    for _ in range(n):
        w.uint(rng.randrange(m.nv), 'idx', m.nv); w.dbl(); w.eol()


def gen_segment(w, rng, m, T, s, cov):
    r = rng
    cov['seg_' + s] = cov.get('seg_' + s, 0) + 1
    if s == 'C':
        w.ch('C', 'seg'); w.uint(r.randrange(m.nc), 'idx', m.nc); w.eol(); gen_expr(w, r, m, T, 'n', r.randint(0, 4), cov)
    elif s == 'L':
        w.ch('L', 'seg'); w.uint(r.randrange(m.nl), 'idx', m.nl); w.eol(); gen_expr(w, r, m, T, 'l', r.randint(0, 4), cov)
    elif s == 'O':
        w.ch('O', 'seg'); w.uint(r.randrange(m.no), 'idx', m.no); w.uint(r.choice([0, 1, 1, 2])); w.eol()
        gen_expr(w, r, m, T, 'n', r.randint(0, 4), cov)
    elif s == 'V':
        w.ch('V', 'seg'); w.uint(m.nv + r.randrange(m.nce), 'idx', m.nv + m.nce)
        nlt = r.choice([0, 0, 1, 2]) if m.nv else 0
        w.uint(nlt, 'count'); w.uint(r.choice([0, 1, 2, 5])); w.eol()
        linear_terms(w, r, m, nlt)
        gen_expr(w, r, m, T, 'n', r.randint(0, 3), cov)
    elif s == 'F':
        i = r.randrange(m.nf)
        m.funcs_defined.add(i)
        w.ch('F', 'seg'); w.uint(i, 'idx', m.nf); w.uint(r.choice([0, 1]), 'int', 2); w.int32(r.choice([-1, 0, 1, 2, 3, -3]))
        w.name(r.choice([b'f', b'sqrt2', b'my_func', b'g\xc3\xa9', b'x' * 40])); w.eol()
    elif s in 'GJ':
        w.ch(s, 'seg'); w.uint(r.randrange(m.no if s == 'G' else m.nc), 'idx', m.no if s == 'G' else m.nc)
        n = r.randint(1, m.nv); w.uint(n, 'count', m.nv + 1); w.eol(); linear_terms(w, r, m, n)
    elif s == 'S':
        kind = r.choice([k for k in range(4) if [m.nv, m.nc + m.nl, m.no, 1][k] > 0])
        items = [m.nv, m.nc + m.nl, m.no, 1][kind]
        fl = r.choice([0, 4])
        w.ch('S', 'seg'); w.uint(kind | fl, 'int', 8); n = r.randint(1, items); w.uint(n, 'count', items + 1)
        w.name(r.choice([b'sstatus', b'priority', b'a', b'zz_9'])); w.eol()
        for _ in range(n):
            w.uint(r.randrange(items), 'idx', items)
            if fl:
                w.dbl()
            else:
                w.int32(r.choice([0, 1, -1, 5, INT_MAX, -INT_MAX - 1]))
            w.eol()
        cov['suffix_kind%d' % (kind | fl)] = cov.get('suffix_kind%d' % (kind | fl), 0) + 1
    elif s == 'b':
        w.ch('b', 'seg'); gen_bounds(w, r, m, False, cov)
    elif s == 'r':
        w.ch('r', 'seg'); gen_bounds(w, r, m, True, cov)
    elif s in 'Kk':
        w.ch(s, 'seg'); w.uint(m.nv - 1, 'count'); w.eol()
        acc = 0
        for _ in range(m.nv - 1):
            acc = acc + r.randint(0, 3) if s == 'k' else r.randint(0, 3)
            w.uint(acc); w.eol()
    elif s in 'xd':
        items = m.nv if s == 'x' else m.nc
        w.ch(s, 'seg'); n = r.randint(0, items); w.uint(n, 'count', items + 1); w.eol()
        for _ in range(n):
            w.uint(r.randrange(items), 'idx', items); w.dbl(); w.eol()


def gen_valid(rng, T, mode, cov):
    """mode: 'text' | 'bin' | 'binswap'.  returns (bytes, field list, header length)"""
    r = rng
    m = Model(r)
    binary = mode != 'text'
    big = mode == 'binswap'
    arith = None
    if binary:
        a_ = r.choice([1, 1, None])     # drawn in both byte orders so that twins stay in step
        arith = 2 if big else a_
    hl = header_text(r, m, binary, arith, cov)
    hdr = ('\n'.join(hl) + '\n').encode()
    w = W(r, binary, big)
    w.raw(hdr)
    segs = []
    if m.nf:
        segs += ['F'] * r.randint(0, m.nf + 1)
    pool = []
    if m.nce: pool += ['V'] * r.randint(0, 3)
    if m.nc: pool += ['C'] * r.randint(0, 2) + ['r'] * r.choice([0, 1, 1]) + ['d'] * r.choice([0, 1])
    if m.nc and m.nv: pool += ['J'] * r.randint(0, 2)
    if m.nl: pool += ['L'] * r.randint(0, 2)
    if m.no: pool += ['O'] * r.randint(0, 2)
    if m.no and m.nv: pool += ['G'] * r.randint(0, 2)
    if m.nv: pool += ['x'] * r.choice([0, 1]) + [r.choice('Kk')] * r.choice([0, 1, 1])
    pool += ['S'] * r.randint(0, 2)
    if not m.nc: pool += ['r'] * r.choice([0, 0, 1])
    pool += ['d'] * r.choice([0, 0, 0, 1]) if not m.nc else []
    q = r.random()
    if q < 0.9:
        pool.append('b')
    elif q < 0.95:
        pool += ['b', 'b']
    r.shuffle(pool)
    segs += pool
    for s in segs:
        gen_segment(w, r, m, T, s, cov)
    m.bounds = w.bounds
    return bytes(w.out), w.fields, len(hdr), m


def enc_int(v, n, big):
    v &= (1 << (8 * n)) - 1
    return v.to_bytes(n, 'big' if big else 'little')


def mutate(rng, data, fields, hlen, mode, m, cov):
    """one structure-aware or blind mutation"""
    r = rng
    b = bytearray(data)
    binary, big = mode != 'text', mode == 'binswap'
    def hit(k):
        cov['mut_' + k] = cov.get('mut_' + k, 0) + 1
    q = r.random()
    body_fields = [f for f in fields if f[2] != 'char']
    bounds = getattr(m, 'bounds', [])
    if fields and bounds and r.random() < 0.3:
        # boundary mutation: a range-checked field is set to its first invalid / last valid / next value
        fi, bound = r.choice(bounds)
        o, n, kind = fields[fi]
        v = bound + r.choice([0, 0, 0, -1, 1])
        if kind in ('idx1', 'count') and r.random() < 0.3:
            v = 0      # lower bound of 1-based / positive fields
        hit('boundary_' + kind)
        new = enc_int(v, n, big) if binary else str(v).encode()
        return bytes(b[:o] + new + b[o + n:])
    if q < 0.22 and len(b) > 1:
        hit('truncate')
        cut = r.randrange(len(b)) if r.random() < 0.7 else max(0, len(b) - r.randint(1, 9))
        return bytes(b[:cut])
    if q < 0.60 and body_fields:
        o, n, kind = r.choice(body_fields)
        hit('field_' + kind)
        near = [m.nv, m.nv + 1, m.nv - 1, m.nc, m.nc + 1, m.no, m.nl, m.nf, m.nv + m.nce, m.nv + m.nce + 1, m.nce, m.nc + m.nl, m.nc + m.nl + 1]
        v = r.choice(near) if r.random() < 0.5 else r.choice(HOSTILE_INTS)
        if kind == 'opcode' and r.random() < 0.6:
            v = r.randrange(0, 90)
        if kind == 'len' and r.random() < 0.7:
            v = r.choice([len(b), len(b) - o, len(b) - o + 1, 255, 4096, 100000, INT_MAX])
        if binary:
            if kind == 'dbl':
                new = r.choice([b'\x00' * 8, b'\xff' * 8, struct.pack('<d', float('nan')), struct.pack('>d', 1.0)])
            else:
                new = enc_int(v, n, big)
        else:
            new = (r.choice(DBL_TEXT + ['x', '', '-', '1e', 'e5', '--1']) if kind == 'dbl' and r.random() < 0.7 else str(v)).encode()
        return bytes(b[:o] + new + b[o + n:])
    if q < 0.70 and fields:
        chars = [f for f in fields if f[2] in ('char', 'seg')]
        if chars:
            o, n, kind = r.choice(chars)
            hit('char')
            b[o] = r.choice(b'CLOVFGJSbrKkxdnlsvofh0123456789 \n\x00z')
            return bytes(b)
    if q < 0.78:
        hit('byteflip')
        for _ in range(r.randint(1, 3)):
            if b:
                p = r.randrange(len(b))
                b[p] = r.choice([0, 10, 32, 48, 57, 255, b[p] ^ (1 << r.randrange(8)), r.randrange(256)])
        return bytes(b)
    if q < 0.86 and len(b) > hlen:
        hit('delete')
        p = r.randrange(hlen, len(b)); n = r.randint(1, 8)
        return bytes(b[:p] + b[p + n:])
    if q < 0.93:
        hit('insert')
        p = r.randrange(len(b) + 1)
        ins = r.choice([b'\n', b' ', b'\x00', b'b\n', b'9', b'-', b'o54\n', b'n0\n', b'v0\n', b'\r\n', bytes([r.randrange(256)])])
        return bytes(b[:p] + ins + b[p:])
    # header line hostility (header is text in every mode)
    hit('header')
    lines = bytes(b[:hlen]).split(b'\n')
    i = r.randrange(0, max(1, min(10, len(lines))))
    toks = lines[i].split()
    ch = r.random()
    if toks and ch < 0.6:
        j = r.randrange(len(toks))
        hostile = HOSTILE_INTS if i > 0 else [0, 1, 2, 3, 7, 8, 9, 10, 255, INT_MAX, -1, -2, 4294967296]
        toks[j] = str(r.choice(hostile + [3, 9, 10, '9.2e18', 'x'] + ([1e30, 'nan', '-1e19'] if r.random() < 0.03 else []))).encode()
        lines[i] = (b'' if i == 0 else b' ') + b' '.join(toks)
    elif ch < 0.75 and toks:
        lines[i] = (b'' if i == 0 else b' ') + b' '.join(toks[:-1])
    elif ch < 0.9:
        lines[i] = lines[i] + b' ' + str(r.choice(HOSTILE_INTS if i > 0 else [0, 1, 3, 9, -1, 255])).encode()
    else:
        lines[i] = b''
    return b'\n'.join(lines) + bytes(b[hlen:])


def pad_to(data, target):
    """lengthen the first header line with inert padding so that len == target (None if impossible)"""
    nl = data.find(b'\n')
    need = target - len(data)
    if nl < 0 or need < 2:
        return None
    return data[:nl] + b' #' + b'p' * (need - 2) + data[nl:]


FIXED = [
    b'', b'g', b'b', b'x', b'g\n', b'g3 1 1 0\n', b'g10\n', b'g9 1 1 1 1 1 1 1 1 1\n 0 0 0\n',
    b'g3 1 1 0\n 0 0 0\n 0 0\n 0 0\n 0 0\n 0 0\n 0 0\n 0 0\n 0 0\n 0 0 0 0 0\n',
    b'g3 1 1 0\n 0 0 0\n 0 0\n 0 0\n 0 0\n 0 0\n 0 0\n 0 0\n 0 0\n 0 0 0 0 0\nb\n',
    b'g3 1 1 0\n 0 0 0\n 0 0\n 0 0\n 0 0\n 0 0\n 0 0\n 0 0\n 0 0\n 0 0 0 0 0\nb\nb\n',
    b'g3 1 1 0\n 2147483647 0 0\n 0 0\n 0 0\n 0 0\n 0 0\n 0 0\n 0 0\n 0 0\n 1 0 0 0 0\n',
    b'g3 1 1 0\n 5000000000 0 0\n 0 0\n 0 0\n 0 0\n 0 0\n 0 0\n 0 0\n 0 0\n 0 0 0 0 0\nb\n',
    b'g3 1 1 0\n 1 0 0\n 0 0 2147483647 1\n',
    b'g3 1 1 0\n 2147483647 0 0\n 0 0\n 0 0\n 0 0\n 0 0\n 0 0\n 0 0\n 0 0\n 0 0 0 0 0\nS0 1 a\n',
    b'g3 1 1 0\n 1 2147483647 0 0 0 1\n 0 0\n 0 0\n 0 0\n 0 0\n 0 0\n 0 0\n 0 0\n 0 0 0 0 0\nS1 1 a\n',
    b'g1 1e30\n', b'g1 nan\n', b'g2 1 -9223372036854775808\n', b'g1 9223372036854775808\n', b'g1 -9223372036854775809\n',
    b'g1 -9223372036854777856\n',
    b'b3 1 1 0\n 0 0 0\n 0 0\n 0 0\n 0 0\n 0 0 0\n 0 0\n 0 0\n 0 0\n 0 0 0 0 0\nb',
    b'b3 1 1 0\n 0 0 0\n 0 0\n 0 0\n 0 0\n 0 0 3\n 0 0\n 0 0\n 0 0\n 0 0 0 0 0\nb',
    b'b3 1 1 0\n 0 0 0\n 0 0\n 0 0\n 0 0\n 0 0 6\n 0 0\n 0 0\n 0 0\n 0 0 0 0 0\nb',
]


# ----------------------------------------------------------------------------- hostile-count family
HOSTILE_COUNTS = [-1, -2, -3, -4, -5, -100, -INT_MAX - 1, INT_MAX, INT_MAX - 1, 1000000, 65536, 0, 1, 2, 3, 4, 5]


def hostile_count_family(T):
    """Deterministic family: every count-announcing construct x hostile count x {text, bin, binswap}.
    The problem is tiny (so the mp::Problem run is always made) and otherwise valid; three valid items
    follow the hostile count, then a `b` segment.  yields (mode, bytes, tag)"""
    import random as _r
    hdr_body = [' 3 2 1 0 0 1', ' 1 1', ' 0 0', ' 3 3 3', None, ' 0 0 0 0 0', ' 6 6', ' 0 0', ' 1 0 0 0 0']
    S = T.single
    constructs = ['call', 'sum', 'vararg', 'count', 'numberof', 'numberof_sym', 'iterlog', 'pairwise', 'plterm',
                  'lcount', 'J', 'G', 'V', 'S', 'Sdbl', 'x', 'd', 'K', 'k', 'string']
    for mode in ('text', 'bin', 'binswap'):
        binary, big = mode != 'text', mode == 'binswap'
        for cons in constructs:
            for c in HOSTILE_COUNTS:
                w = W(_r.Random(1), binary, big)
                w._sep = (lambda w=w: (w.out.extend(b' ') if not w.binary and not w.fresh else None, setattr(w, 'fresh', False))[1])
                w.eol = (lambda w=w: (w.out.extend(b'\n') if not w.binary else None, setattr(w, 'fresh', True))[1])
                l6 = ' 0 1' + ((' 2 1' if big else ' 1 1') if binary else ' 0 1')
                lines = [('b' if binary else 'g') + '3 1 1 0'] + [l6 if x is None else x for x in hdr_body]
                w.raw(('\n'.join(lines) + '\n').encode())
                w.ch('F'); w.uint(0); w.uint(0); w.int32(-1); w.name(b'foo'); w.eol()
                def num(v=1.5):
                    w.ch('n'); w.dbl(v); w.eol()
                def op(o):
                    w.ch('o'); w.uint(o); w.eol()
                if cons in ('call', 'sum', 'vararg', 'count', 'numberof', 'numberof_sym', 'plterm', 'string'):
                    w.ch('C'); w.uint(0); w.eol()
                    if cons == 'call':
                        w.ch('f'); w.uint(0); w.uint(c); w.eol()
                        for _ in range(3): num()
                    elif cons == 'string':
                        op(S['NUMBEROF_SYM'][0]); w.uint(2); w.eol()
                        w.ch('h')
                        if binary:
                            w.uint(c); w.raw(b'abc')
                        else:
                            w.raw(str(c).encode() + b':abc\n'); w.fresh = True
                        num()
                    elif cons == 'plterm':
                        op(S['PLTERM'][0]); w.uint(c); w.eol()
                        for _ in range(3): num()
                        w.ch('v'); w.uint(0); w.eol()
                    else:
                        o = {'sum': S['SUM'][0], 'vararg': T.vararg[0], 'count': S['COUNT'][0],
                             'numberof': S['NUMBEROF'][0], 'numberof_sym': S['NUMBEROF_SYM'][0]}[cons]
                        op(o); w.uint(c); w.eol()
                        for _ in range(3): num()
                elif cons in ('iterlog', 'pairwise', 'lcount'):
                    w.ch('L'); w.uint(0); w.eol()
                    if cons == 'lcount':
                        op(T.lcount[0]); num(); op(S['COUNT'][0]); w.uint(c); w.eol()
                    else:
                        op(T.iterlog[0] if cons == 'iterlog' else T.pairwise[0]); w.uint(c); w.eol()
                    for _ in range(3): num()
                elif cons in ('J', 'G'):
                    w.ch(cons); w.uint(0); w.uint(c); w.eol()
                    for i in range(3):
                        w.uint(i); w.dbl(2.0); w.eol()
                elif cons == 'V':
                    w.ch('V'); w.uint(3); w.uint(c); w.uint(0); w.eol()
                    for i in range(3):
                        w.uint(i); w.dbl(2.0); w.eol()
                    num()
                elif cons in ('S', 'Sdbl'):
                    w.ch('S'); w.uint(4 if cons == 'Sdbl' else 0); w.uint(c); w.name(b'sfx'); w.eol()
                    for i in range(3):
                        w.uint(i)
                        (w.dbl(1.0) if cons == 'Sdbl' else w.int32(7)); w.eol()
                elif cons in ('x', 'd'):
                    w.ch(cons); w.uint(c); w.eol()
                    for i in range(2):
                        w.uint(i); w.dbl(1.0); w.eol()
                elif cons in ('K', 'k'):
                    w.ch(cons); w.uint(c); w.eol()
                    for i in range(2):
                        w.uint(i + 1); w.eol()
                w.ch('b'); w.eol()
                for _ in range(3):
                    w.ch('3'); w.eol()
                yield mode, bytes(w.out), 'hostile-count-%s' % cons


def _plain_writer(binary, big):
    import random as _r
    w = W(_r.Random(1), binary, big)
    w._sep = (lambda w=w: (w.out.extend(b' ') if not w.binary and not w.fresh else None, setattr(w, 'fresh', False))[1])
    w.eol = (lambda w=w: (w.out.extend(b'\n') if not w.binary else None, setattr(w, 'fresh', True))[1])
    return w


def _header(binary, big, nv, nc, no, nl, nf, ce):
    l6 = ' 0 %d' % nf + ((' 2 1' if big else ' 1 1') if binary else ' 0 1')
    lines = [('b' if binary else 'g') + '3 1 1 0', ' %d %d %d 0 0 %d' % (nv, nc, no, nl), ' 0 0', ' 0 0', ' 0 0 0', l6,
             ' 0 0 0 0 0', ' 0 0', ' 0 0', ' ' + ' '.join(str(c) for c in ce)]
    return ('\n'.join(lines) + '\n').encode()


def cumulative_header_family():
    """headers whose counts are individually acceptable but overflow int together (index space of variables +
    common expressions; algebraic + logical constraints), and their just-acceptable neighbours.
    yields (mode, bytes, tag)"""
    P30 = 1 << 30
    combos = []
    # (nv, nc, nl, ce)
    for ce in ([P30 - 1, P30 - 1, 0, 0, 0], [P30 - 1, 0, 0, 0, P30 - 1], [0, P30, 0, P30, 0], [P30, P30, 0, 0, 0],
               [P30 // 2, P30 // 2, P30 // 2, 0, 0], [P30 // 2, P30 // 2, P30 // 2, P30 // 2, 0], [1, 1, 1, 1, P30 - 4],
               [P30 - 1, 0, 0, 0, 0], [0, 0, P30 - 1, 0, 1], [0, 0, 0, 0, P30]):
        combos.append((P30, 1, 0, ce))
    for nv, ce in ((INT_MAX, [1, 0, 0, 0, 0]), (INT_MAX, [0, 0, 0, 0, 1]), (INT_MAX - 1, [1, 0, 0, 0, 0]), (INT_MAX - 1, [1, 1, 0, 0, 0]),
                   (INT_MAX - 2, [1, 0, 1, 0, 1]), (INT_MAX - 2, [1, 0, 1, 0, 0]), (INT_MAX, [0, 0, 0, 0, 0]), (INT_MAX - 5, [1, 1, 1, 1, 1]),
                   (INT_MAX - 5, [1, 1, 1, 1, 2])):
        combos.append((nv, 1, 0, ce))
    for nc, nl in ((P30, P30), (INT_MAX, 1), (INT_MAX - 1, 1), (INT_MAX - 1, 2), (1, INT_MAX), (P30 - 1, P30), (P30, P30 - 1)):
        combos.append((2, nc, nl, [0, 0, 0, 0, 0]))
    for mode in ('text', 'bin', 'binswap'):
        binary, big = mode != 'text', mode == 'binswap'
        for nv, nc, nl, ce in combos:
            total = nv + sum(ce)
            for body in range(4):
                w = _plain_writer(binary, big)
                w.raw(_header(binary, big, nv, nc, 0, nl, 0, ce))
                if body == 1:
                    w.ch('C'); w.uint(0); w.eol(); w.ch('v'); w.uint(min(total - 1, INT_MAX)); w.eol()
                elif body == 2:
                    w.ch('C'); w.uint(0); w.eol(); w.ch('v'); w.uint(INT_MAX); w.eol()
                elif body == 3:
                    w.ch('S'); w.uint(1); w.uint(1); w.name(b'sfx'); w.eol(); w.uint(min(nc + nl - 1, INT_MAX)); w.int32(1); w.eol()
                yield mode, bytes(w.out), 'cumulative-header'


def suffix_all_items_family():
    """small problems with 1..3 objectives and logical constraints; integer and double suffixes of all four
    kinds with a value for EVERY item (including the last variable / logical constraint / objective)"""
    nv, nc, nl = 3, 2, 1
    for mode in ('text', 'bin', 'binswap'):
        binary, big = mode != 'text', mode == 'binswap'
        for no in (1, 2, 3):
            for with_objs in (False, True):
                for order in (0, 1):
                    w = _plain_writer(binary, big)
                    w.raw(_header(binary, big, nv, nc, no, nl, 0, [0, 0, 0, 0, 0]))
                    def objs():
                        for i in range(no):
                            w.ch('O'); w.uint(i); w.uint(i % 2); w.eol(); w.ch('n'); w.dbl(float(i)); w.eol()
                        for i in range(no):
                            w.ch('G'); w.uint(i); w.uint(1); w.eol(); w.uint(i % nv); w.dbl(2.0); w.eol()
                    def sufs():
                        k = 0
                        for kind in (2, 0, 1, 3):
                            items = [nv, nc + nl, no, 1][kind]
                            for fl in (0, 4):
                                k += 1
                                w.ch('S'); w.uint(kind | fl); w.uint(items); w.name(b'sf%d' % k); w.eol()
                                for idx in (range(items) if order == 0 else reversed(range(items))):
                                    w.uint(idx)
                                    (w.dbl(1.5) if fl else w.int32(7 + idx)); w.eol()
                    if with_objs and order == 0:
                        objs()
                    sufs()
                    if with_objs and order == 1:
                        objs()
                    w.ch('b'); w.eol()
                    for _ in range(nv):
                        w.ch('3'); w.eol()
                    yield mode, bytes(w.out), 'suffix-all-items'


def error_class_family(T):
    """one minimal trigger per error class of the reader (text and, where the construct exists, both binary
    forms), so that every `ReportError` site is executed and compared on every run whatever the seed.
    yields (mode, bytes, tag)"""
    S = T.single
    def build(mode, hdr_kw, body):
        binary, big = mode != 'text', mode == 'binswap'
        w = _plain_writer(binary, big)
        w.raw(_header(binary, big, **hdr_kw))
        body(w)
        return bytes(w.out)
    base = dict(nv=3, nc=2, no=1, nl=1, nf=1, ce=[1, 0, 0, 0, 0])
    def C(w): w.ch('C'); w.uint(0); w.eol()
    def Lg(w): w.ch('L'); w.uint(0); w.eol()
    def op(w, o): w.ch('o'); w.uint(o); w.eol()
    def num(w, v=1.5): w.ch('n'); w.dbl(v); w.eol()
    def bseg(w):
        w.ch('b'); w.eol()
        for _ in range(3):
            w.ch('3'); w.eol()
    bodies = {
        'oob': lambda w: (w.ch('C'), w.uint(9), w.eol()),
        'fewargs': lambda w: (C(w), op(w, S['SUM'][0]), w.uint(2), w.eol()),
        'ref': lambda w: (C(w), op(w, S['PLTERM'][0]), w.uint(2), w.eol(), num(w), num(w), num(w), num(w)),
        'opcode': lambda w: (C(w), op(w, 99)),
        'const': lambda w: (C(w), op(w, S['PLTERM'][0]), w.uint(2), w.eol(), w.ch('x')),
        'expr': lambda w: (C(w), w.ch('z')),
        'numop': lambda w: (C(w), op(w, 81)),
        'numop2': lambda w: (C(w), op(w, T.rel[0])),
        'slopes': lambda w: (C(w), op(w, S['PLTERM'][0]), w.uint(1), w.eol()),
        'logical': lambda w: (Lg(w), w.ch('v')),
        'logop': lambda w: (Lg(w), op(w, T.binary[0])),
        'count': lambda w: (Lg(w), op(w, T.lcount[0]), num(w), num(w)),
        'count2': lambda w: (Lg(w), op(w, T.lcount[0]), num(w), op(w, S['SUM'][0])),
        'complvar': lambda w: (w.ch('b'), w.eol(), w.ch('5'), w.int32(1), w.uint(1), w.eol()),
        'complidx0': lambda w: (w.ch('r'), w.eol(), w.ch('5'), w.int32(1), w.uint(0), w.eol()),
        'complidxbig': lambda w: (w.ch('r'), w.eol(), w.ch('5'), w.int32(-1), w.uint(4), w.eol()),
        'complok': lambda w: (w.ch('r'), w.eol(), w.ch('5'), w.int32(3), w.uint(3), w.eol(), w.ch('5'), w.int32(-2), w.uint(1), w.eol(), bseg(w)),
        'bound': lambda w: (w.ch('b'), w.eol(), w.ch('9')),
        'expectn': lambda w: (w.ch('k'), w.uint(5), w.eol()),
        'coloff': lambda w: (w.ch('k'), w.uint(2), w.eol(), w.uint(5), w.eol(), w.uint(3), w.eol()),
        'manyinit': lambda w: (w.ch('x'), w.uint(9), w.eol()),
        'manyinitd': lambda w: (w.ch('d'), w.uint(3), w.eol()),
        'functype': lambda w: (w.ch('F'), w.uint(0), w.uint(5), w.int32(1), w.name(b'f'), w.eol()),
        'sufkind': lambda w: (w.ch('S'), w.uint(8), w.uint(1), w.name(b'a'), w.eol()),
        'dupb': lambda w: (bseg(w), bseg(w)),
        'nob': lambda w: (C(w), num(w)),
        'segment': lambda w: (w.ch('Z'),),
        'segment0': lambda w: (w.raw(b'\x00x'),),
        'ok': lambda w: (C(w), num(w), bseg(w)),
        'eof1': lambda w: (C(w), w.ch('n')),
        'eof2': lambda w: (w.ch('C'),),
        'uintneg': lambda w: (w.ch('C'), w.uint(-1), w.eol()),
    }
    for mode in ('text', 'bin', 'binswap'):
        for name, body in bodies.items():
            yield mode, build(mode, base, body), 'errclass-' + name
        # unsupported / unknown arithmetic kinds in a binary header are text-level
    hdr = _header(False, False, **base)
    text_only = {
        'format': b'x', 'format-empty': b'', 'manyopts': b'g10\n', 'newline-eof': b'g3 1 1 0', 'uint': b'g3 1 1 0\n x\n',
        'toobig': hdr + b'C99999999999\n', 'toobig-wrap': hdr + b'C4294967296\n', 'wrap-accepted': hdr + b'C5000000000\n',
        'int': hdr + b'F0 0 x f\n', 'int-toobig': hdr + b'F0 0 2147483648 f\n', 'int-min': hdr + b'F0 0 -2147483648 f\nb\n3\n3\n3\n',
        'int-plus': hdr + b'F0 0 +2 f\nC0\ns+5\nb\n3\n3\n3\n', 'long-plus': hdr + b'C0\nl+7\nb\n3\n3\n3\n',
        'short-big': hdr + b'C0\ns32768\n', 'short-min': hdr + b'C0\ns-32768\nb\n3\n3\n3\n', 'short-wrap': hdr + b'C0\ns65536\n',
        'double': hdr + b'C0\nnx\n', 'double-eol': hdr + b'C0\nn\n', 'colon': hdr + b'C0\no%d\n2\nh3abc\n' % S['NUMBEROF_SYM'][0],
        'eofstr': hdr + b'C0\no%d\n2\nh99:abc' % S['NUMBEROF_SYM'][0], 'strnl': hdr + b'C0\no%d\n2\nh3:abcd\n' % S['NUMBEROF_SYM'][0],
        'str-multiline': hdr + b'C0\no%d\n2\nh5:a\nb\nc\nn1\nb\n3\n3\n3\n' % S['NUMBEROF_SYM'][0],
        'str-multiline-err': hdr + b'C0\no%d\n2\nh5:a\nb\ncX\n' % S['NUMBEROF_SYM'][0],
        'name': hdr + b'F0 0 1\n', 'name-eof': hdr + b'F0 0 1 ', 'prevline': hdr + b'L0\no%d\nn1\no%d\n' % (T.lcount[0], S['SUM'][0]),
        'arith': b'g3 1 1 0\n 1 0 0\n 0 0\n 0 0\n 0 0 0\n 0 0 9 1\n',
        'ioverflow-ce': b'g3 1 1 0\n 2147483647 0 0\n 0 0\n 0 0\n 0 0 0\n 0 0 0 1\n 0 0 0 0 0\n 0 0\n 0 0\n 1 0 0 0 0\n',
        'unsarith0': b'b3 1 1 0\n 0 0 0\n 0 0\n 0 0\n 0 0 0\n 0 0 0 1\n 0 0 0 0 0\n 0 0\n 0 0\n 0 0 0 0 0\nb',
        'unsarith5': b'b3 1 1 0\n 0 0 0\n 0 0\n 0 0\n 0 0 0\n 0 0 5 1\n 0 0 0 0 0\n 0 0\n 0 0\n 0 0 0 0 0\nb',
        'crlf': hdr.replace(b'\n', b'\r\n') + b'C0\r\nn1\r\nb\r\n3\r\n3\r\n3\r\n',
        'highbytes': hdr + b'C0\n\xff\n', 'vtab': hdr + b'C0\x0b\x0c\nn\x0b1\nb\n3\n3\n3\n',
    }
    for name, d in text_only.items():
        yield 'text', d, 'errclass-' + name


def builder_header_family():
    """small headers whose variable-class counts are inconsistent with num_vars (NLProblemBuilder::AddVariables:
    class-size checks, MP_ASSERT_ALWAYS on the block sums, negative block sizes) - for the mp::Problem runs"""
    vals = [0, 1, 2, 3, 5]
    import itertools
    k = 0
    for nv in (0, 2, 3):
        for a, b, c in itertools.product(vals, vals, [0, 1, 3]):
            for d in ((0, 0, 0, 0, 0), (1, 1, 0, 0, 0), (0, 2, 1, 0, 0), (0, 0, 1, 1, 1), (2, 2, 2, 2, 2), (0, 0, 0, 3, 0)):
                k += 1
                if k % 3:
                    continue
                lines = ['g3 1 1 0', ' %d 1 1 0 0 0' % nv, ' 0 0', ' 0 0', ' %d %d %d' % (a, b, c), ' 0 0 0 1',
                         ' %d %d %d %d %d' % d, ' 0 0', ' 0 0', ' 0 0 0 0 0', 'b'] + ['3'] * nv
                yield 'text', ('\n'.join(lines) + '\n').encode(), 'builder-header'

"""What is claimed in MANIFEST.json (tools_manifest.py turns this into the manifest)."""
HOOK_COMMITS = []

CLAIMED = {
 'C17': {
  'technique': 'Lean 4 proof over definitions translated from clang typed AST of every SafeInt instantiation; differential run vs compiled templates',
  'text': 'Full proof: for each of the 130 instantiations (add/sub/mul/SafeAbs for 10 integer types, 90 converting constructors) a Lean theorem over all representable operands (unbounded Int with range hypotheses, no enumeration) states result = exact value if representable else overflow error, never UB/wrap. The definitions are regenerated from include/mp/safeint.h on every run, so a code change re-checks the theorems against the new code.',
  'note': 'Trusted: Lean kernel (propext, Classical.choice, Quot.sound only), translators/tr_cint.py + clang-14 typed AST, MpVerif/Basic/CSem.lean (C++ integer semantics, LP64), numeric_limits min/max as builtin constants. Translator is cross-checked on every run against the compiled templates (8-bit exhaustive, wider boundary+random) and an exact __int128 oracle under UBSan.',
 },
}

_TODO = 'check not built yet in this session (planned, see DESIGN.md §10); not claimed'
NOT_APPLICABLE = {p: _TODO for p in ['C01','C02','C03','C04','C05','C06','C07','C08','C09','C10','C11','C12','C13','C14','C15','C16','C18','C19','C20']}

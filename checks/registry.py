"""What is claimed in MANIFEST.json: one JSON fragment per property in checks/registry.d/
   {"property": "Cxx", "claimed": true, "technique": ..., "text": ..., "note": ..., "design_ref": ...}
or {"property": "Cxx", "claimed": false, "reason": ...}
(tools_manifest.py turns this into MANIFEST.json)."""
import json, os, glob
HOOK_COMMITS = []
_hc = os.path.join(os.path.dirname(os.path.abspath(__file__)), 'registry.d', 'hook_commits.json')
if os.path.exists(_hc):
    HOOK_COMMITS = json.load(open(_hc))
CLAIMED = {}
NOT_APPLICABLE = {}
_TODO = 'check not built yet (planned, see DESIGN.md §10); not claimed'
for _i in range(1, 21):
    NOT_APPLICABLE['C%02d' % _i] = _TODO
for _f in sorted(glob.glob(os.path.join(os.path.dirname(os.path.abspath(__file__)), 'registry.d', 'C*.json'))):
    _d = json.load(open(_f))
    if _d.get('claimed'):
        CLAIMED[_d['property']] = _d
        NOT_APPLICABLE.pop(_d['property'], None)
    else:
        NOT_APPLICABLE[_d['property']] = _d['reason']

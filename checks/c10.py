"""C10 — solve-result codes are classified and reported as documented.

Stages (see design_notes/C10.md):
 1. translators/gen_status.py regenerates lean/MpVerif/Gen/Status.lean from the working tree
    (enum mp::sol::Status, StdBackend::IsProblem*, SolveResultRegistry(), guards of ReportSolution2AMPL)
 2. lake build MpVerif.C10.Props + axiom audit                         (proof obligations)
 3. harness/h_status.cc = a scripted backend on top of the real StdBackend stack:
      enumerators, predicates for every code, the `-!` table, complete driver runs (-AMPL) whose
      solve message and `objno N code` line are read back from the .sol file
    compared line by line with the compiled Lean model (drv_c10)          (correspondence)
 4. oracle, independent of the Lean model: the documented ranges parsed from
    doc/source/features-guide.rst on this run, evaluated on what the implementation returned
"""
import os, sys, re, json, subprocess, shutil, random
from concurrent.futures import ThreadPoolExecutor
from common import *

PREDS = ['IsProblemSolved', 'IsProblemSolvedOrFeasible', 'IsProblemIndiffInfOrUnb',
         'IsProblemInfOrUnb', 'IsProblemInfeasible', 'IsProblemUnbounded', 'IsSolStatusRetrieved']
CLASSES = ['solved', 'uncertain', 'infeasible', 'unbounded-feas', 'unbounded-nofeas',
           'limit-feas', 'limit-inf-unb', 'limit-nofeas', 'failure']
# documented description (first words) -> class token
DESCR_CLASS = [('solved:', 'solved'), ('solved?', 'uncertain'), ('infeasible', 'infeasible'),
               ('unbounded, feasible', 'unbounded-feas'), ('unbounded, no feasible', 'unbounded-nofeas'),
               ('limit, feasible', 'limit-feas'), ('limit, problem is either infeasible or unbounded', 'limit-inf-unb'),
               ('limit, no solution', 'limit-nofeas'), ('failure', 'failure')]
# what each predicate is documented to mean (union of documented classes)
PRED_MEANS = {
    'IsProblemSolved': {'solved'},
    'IsProblemSolvedOrFeasible': {'solved', 'unbounded-feas', 'limit-feas'},
    'IsProblemIndiffInfOrUnb': {'limit-inf-unb'},
    'IsProblemInfOrUnb': {'infeasible', 'unbounded-feas', 'unbounded-nofeas', 'limit-inf-unb'},
    'IsProblemInfeasible': {'infeasible'},
    'IsProblemUnbounded': {'unbounded-feas', 'unbounded-nofeas'},
}
CANDIDATE = {'solved', 'unbounded-feas', 'limit-feas'}
THEOREM_PRED = {'C10_solved_iff': 'IsProblemSolved', 'C10_indiffInfOrUnb_iff': 'IsProblemIndiffInfOrUnb',
                'C10_unbounded_iff': 'IsProblemUnbounded', 'C10_infOrUnb_iff': 'IsProblemInfOrUnb',
                'C10_retrieved_iff': 'IsSolStatusRetrieved', 'C10_infeasible': 'IsProblemInfeasible',
                'C10_counterexample_infeasible': 'IsProblemInfeasible',
                'C10_solvedOrFeasible': 'IsProblemSolvedOrFeasible', 'C10_counterexample_solvedOrFeasible': 'IsProblemSolvedOrFeasible',
                'C10_objective': 'objective', 'C10_counterexample_objective': 'objective', 'C10_no_objective': 'objective',
                'C10_report_model_eq_generated': 'objective', 'C10_code_echo': 'code', 'C10_alt': 'altsol', 'C10_chain_forwards_code': 'altsol', 'C10_feasrelax': 'message:', 'C10_gen_msgTable': 'message', 'C10_msg': 'message', 'C10_gen_suffix_guards': 'suffix:', 'C10_gen_reg': 'table', 'C10_gen_add': 'table', 'C10_reg': 'table', 'C10_addResults': 'table', 'C10_kappa': 'suffix:kappa', 'C10_unbdd': 'suffix:unbdd', 'C10_dunbdd': 'suffix:dunbdd', 'C10_iis': 'suffix:iis', 'C10_solcheck': 'message:chk', 'C10_gen_app': 'delivery', 'C10_gen_round': 'message:rounding-note', 'C10_code_echo_under_rounding': 'code', 'C10_round_note': 'message:rounding-note', 'C10_message_delivery': 'delivery', 'C10_gen_ray_bits': 'suffix:', 'C10_ray_suffixes_by_option': 'suffix:', 'C10_extras_eq_generated': 'suffix:', 'C10_vectors_echo': 'vectors',
                'C10_enum': 'enum', 'C10_registry': 'table', 'C10_ranges': 'table', 'C10_rangeRows': 'table',
                'C10_predicate_inclusions': 'Is'}


def parse_doc(repo):
    """documented rows of the `-!` listing in features-guide.rst: [(first,last,descr)]"""
    txt = open(os.path.join(repo, 'doc', 'source', 'features-guide.rst')).read()
    m = re.search(r'Solve result table for[^\n]*\n(.*?)\n\s*\n', txt, re.S)
    if not m:
        raise RuntimeError('features-guide.rst: solve result table not found')
    rows = []
    for ln in m.group(1).split('\n'):
        r = re.match(r'^\s*(\d+)\s*-\s*(\d+)\s+(\S.*?)\s*$', ln)
        s = re.match(r'^\s*(\d+)\s+(\S.*?)\s*$', ln)
        if r:
            rows.append((int(r.group(1)), int(r.group(2)), r.group(3)))
        elif s:
            rows.append((int(s.group(1)), int(s.group(1)), s.group(2)))
        else:
            raise RuntimeError('features-guide.rst: table line not understood: %r' % ln)
    return rows


def descr_class(d):
    for pre, k in DESCR_CLASS:
        if d.startswith(pre):
            return k
    return None


class Doc:
    def __init__(self, rows):
        self.rows = rows
        self.ranges = [(a, b, descr_class(d), d) for a, b, d in rows if a != b]
        self.singles = [(a, d) for a, b, d in rows if a == b]

    def cls(self, c):
        hit = [k for a, b, k, d in self.ranges if a <= c <= b]
        if len(hit) > 1:
            raise RuntimeError('documented ranges overlap at %d' % c)
        return hit[0] if hit else 'none'


def name_class(n):
    """class an enumerator announces by its name (independent copy of Model.nameClassTable's rule)"""
    if n in ('NOT_SET', 'UNKNOWN'):
        return 'none'
    for pre, k in [('SOLVED', 'solved'), ('UNCERTAIN', 'uncertain'), ('MP_SOLUTION_CHECK', 'uncertain'),
                   ('INFEASIBLE', 'infeasible'), ('UNBOUNDED_NO_FEAS', 'unbounded-nofeas'), ('UNBOUNDED', 'unbounded-feas'),
                   ('LIMIT_INF_UNB', 'limit-inf-unb'), ('INF_OR_UNB', 'limit-inf-unb'), ('LIMIT_NO_FEAS', 'limit-nofeas'),
                   ('LIMIT', 'limit-feas'), ('FAILURE', 'failure'), ('NUMERIC', 'failure'), ('SPECIFIC', 'failure'),
                   ('INTERRUPTED', 'failure')]:
        if n.startswith(pre):
            return k
    return None


def intervals(codes):
    codes = sorted(set(codes))
    out = []
    for c in codes:
        if out and c == out[-1][1] + 1:
            out[-1][1] = c
        else:
            out.append([c, c])
    return [(a, b) for a, b in out]


def build_harness(ck, ndebug=True):
    vis = os.path.join(REPO, 'solvers', 'visitor')
    srcs = [os.path.join(vis, f) for f in ['visitorcommon.cc', 'visitormodelapi.cc',
                                            'visitor-modelapi-connect.cc', 'model-mgr-with-std-pb.cc']]
    srcs.append(os.path.join(VERIF, 'harness', 'h_status.cc'))
    objs = ck.objects(srcs, flags=['-O0'] + (['-DNDEBUG'] if ndebug else []), extra_inc=[vis, os.path.join(BUILD, 'gen')],
                      tag='c10' if ndebug else 'c10dbg')
    return ck.link('h_status' if ndebug else 'h_status_dbg', objs + ck.libmp_objects())


def run_lines(cmd, inp=None, cwd=None):
    p = subprocess.run(cmd, input=inp, capture_output=True, text=True, cwd=cwd)
    return p.returncode, p.stdout.split('\n'), p.stderr


def nl_objectives(path, mopts=()):
    """number of objectives the driver delivers for this NL model: header line 2 = `vars cons objs …`;
    with the default options (objno=1, no obj:multi) at most the first objective is used,
    with obj:multi=1 all of them"""
    hdr = open(path).read().split('\n')[1].split()
    return int(hdr[2]) if 'obj:multi=1' in mopts else min(int(hdr[2]), 1)


def canon_report(line, expected_nobj, stub=0):
    """harness `report c n p d | objShown=… code=… nx=… ny=… hs=… hsobj=… nobjpost=…` ->
       (op line for the model, canonical observation, dict).
       The model's input `nObj` is NOT what GetSolution() returned but what it must return:
       FlatBackend's postsolve delivers one objective value per objective of the NL model, whatever the
       solver returned and whether or not primal/dual vectors exist.  The observed size is only compared
       with that expectation by the caller."""
    head, obs = line.split(' | ', 1)
    _, c, n, p, d, k, fl = head.split(' ')
    if obs.startswith('sol-absent'):
        kv = dict(x.split('=', 1) for x in obs.split(' ')[1:])
        return 'absent', None, {'absent': True, 'code': int(c), 'nobj_in': int(n), 'primal': int(p), 'dual': int(d), 'nalt_in': int(k), 'flags': int(fl),
                                'stdoutstatus': int(kv['stdoutstatus']), 'stdoutobj': int(kv['stdoutobj']), 'stdoutprimal': int(kv['stdoutprimal']),
                                'stdoutdual': int(kv['stdoutdual'])}
    if obs.startswith('sol-unreadable'):
        return None, None, {'error': obs, 'code': int(c), 'nobj_in': int(n), 'primal': int(p), 'dual': int(d), 'nalt_in': int(k), 'flags': int(fl)}
    kv = dict(x.split('=', 1) for x in obs.split(' '))
    o = {'code': int(c), 'nobj_in': int(n), 'primal': int(p), 'dual': int(d),
         'objShown': int(kv['objShown']), 'objValText': int(kv['objValText']), 'written': int(kv['code']), 'nx': int(kv['nx']), 'ny': int(kv['ny']),
         'hs': int(kv['hs']), 'hsobj': kv['hsobj'], 'nobj': int(kv['nobjpost']), 'status': int(kv['status']),
         'samemsg': int(kv['samemsg']), 'objno': int(kv['objno']), 'rc': int(kv['rc']),
         'nalt_in': int(k), 'stub': stub, 'multi': int(kv['multi']), 'nfiles': int(kv['nalt']),
         'altcodes': [] if kv['altcodes'] == '-' else kv['altcodes'].split(','),
         'hfs': [] if kv['hfs'] == '-' else [int(x) for x in kv['hfs'].split(',')], 'altmsg': int(kv['altmsg']),
         'flags': int(fl), 'fr': int(kv['fr']), 'orig': int(kv['orig']), 'kappamsg': int(kv['kappamsg']), 'extra': int(kv['extra']),
         'roundmsg': int(kv['roundmsg']), 'altrange': int(kv['altrange']), 'stdoutmsg': int(kv['stdoutmsg']), 'stdoutobj': int(kv['stdoutobj']), 'stdoutprimal': int(kv['stdoutprimal']), 'stdoutdual': int(kv['stdoutdual']),
         'sufs': set() if kv['sufs'] == '-' else set(kv['sufs'].split(',')), 'order': '' if kv['order'] == '-' else kv['order']}
    o['nobj_expected'] = expected_nobj
    op = 'report %d %d %d %d %d %d' % (o['code'], expected_nobj, o['primal'], o['dual'], o['nalt_in'], stub)
    can = '%s | objShown=%d code=%d primal=%d dual=%d objval=%d alt=%s' % (
        op, o['objShown'], o['written'], 1 if o['nx'] > 0 else 0, 1 if o['ny'] > 0 else 0, 0 if o['hsobj'] == 'nan' else 1,
        ','.join(o['altcodes']))
    return op, can, o


def run(ck):
    quick = ck.tier == 'quick'
    rnd = random.Random(ck.seed)
    gen = os.path.join(LEAN, 'MpVerif', 'Gen', 'Status.lean')
    inc = os.path.join(BUILD, 'gen', 'c10_enum_list.inc')
    rc, out, err = sh([sys.executable, os.path.join(VERIF, 'translators', 'gen_status.py'), REPO, gen,
                       os.path.join(BUILD, 'tr'), inc], timeout=600)
    ck.log((out.strip() or err.strip())[-600:])
    translator_ok = rc == 0
    gen2 = os.path.join(LEAN, 'MpVerif', 'Gen', 'StatusReport.lean')
    rc2, out2, err2 = sh([sys.executable, os.path.join(VERIF, 'translators', 'gen_report.py'), REPO, gen2, os.path.join(BUILD, 'tr')], timeout=600)
    ck.log((out2.strip() or err2.strip())[-600:])
    if rc2 != 0:
        translator_ok = False
        out, err = out + out2, err + err2
    gen3 = os.path.join(LEAN, 'MpVerif', 'Gen', 'StatusFlags.lean')
    rc3, out3, err3 = sh([sys.executable, os.path.join(VERIF, 'translators', 'gen_flags.py'), REPO, gen3, os.path.join(BUILD, 'tr')], timeout=600)
    ck.log((out3.strip() or err3.strip())[-600:])
    if rc3 != 0:
        translator_ok = False
        out, err = out + out3, err + err3
    N_THEOREMS = 71
    proof_ok, failing = False, []
    if translator_ok:
        proof_ok, failing = ck.proof_stage('MpVerif.C10.Props', 'MpVerif/C10/Props.lean', 'C10_',
                                            ['MpVerif/C10/*.lean', 'MpVerif/Gen/Status.lean', 'MpVerif/Gen/StatusReport.lean', 'MpVerif/Gen/StatusFlags.lean'], expect_min=N_THEOREMS)
        ck.log('proof stage: ok=%s failing=%s' % (proof_ok, failing[:12]))
        if ck.tier == 'thorough' and proof_ok:
            bad = ck.leanchecker(['MpVerif.C10.Props'])
            if bad:
                failing += ['leanchecker rejected %s' % m for m in bad]
                proof_ok = False
    else:
        failing = ['translator: ' + (out + err).strip()[-600:]]
        ck.cov.update({'obligations': N_THEOREMS, 'discharged': 0, 'checker_cmd': 'translators/gen_status.py / gen_report.py failed (TRANSLATE-ERROR)'})
        if not os.path.exists(inc):
            raise RuntimeError('translator failed and no enumerator list exists: ' + failing[0])

    doc = Doc(parse_doc(REPO))
    ck.log('documented table: %d range rows, %d single codes' % (len(doc.ranges), len(doc.singles)))
    cov_mode = os.environ.get('VERIF_COVERAGE') == '1'      # measurement run, see checks/c10_coverage.py
    if cov_mode:
        import c10_coverage
        exe = c10_coverage.build(ck)
    else:
        exe = build_harness(ck)
    drv = None
    if translator_ok:
        try:
            drv = ck.driver('drv_c10')
        except Exception as e:
            failing.append('model driver: %r' % (e,))
            proof_ok = False
    work = os.path.join(BUILD, 'c10')
    os.makedirs(work, exist_ok=True)

    corr = {'enum': 0, 'pred': 0, 'table': 0, 'report': 0, 'extras': 0, 'markers': 0, 'addres': 0, 'app': 0, 'raybits': 0, 'class': 0, 'doctable': 0}
    corr_bad = {}
    hist = {'pred_true': {p: 0 for p in PREDS}, 'class': {}, 'report_objShown': 0, 'report_runs': 0,
            'report_by_class': {}, 'models': {}}

    arms = {}     # which arms of the Lean model functions the correspondence stream exercised (read off the driver's answers)

    def note_arms(lines):
        for l in lines:
            f = l.split(' ')
            if f[0] == 'class' and len(f) == 5:
                arms['documented/classify=' + f[3]] = arms.get('documented/classify=' + f[3], 0) + 1
                arms['candidate=' + f[4]] = arms.get('candidate=' + f[4], 0) + 1
            elif f[0] == 'pred':
                for nm, b in zip(PREDS, f[2:]):
                    arms['%s=%s' % (nm, b)] = arms.get('%s=%s' % (nm, b), 0) + 1
            elif f[0] in ('report', 'extras') and ' | ' in l:
                for kv in l.split(' | ')[1].split(' '):
                    key, v = kv.split('=', 1)
                    if key == 'code':
                        continue
                    if key == 'alt':
                        v = 'none' if v == '' else ('one' if ',' not in v else 'several')
                    arms['%s.%s=%s' % (f[0], key, v)] = arms.get('%s.%s=%s' % (f[0], key, v), 0) + 1
                if f[0] == 'report':
                    arms['report.solStub=%s' % f[6]] = arms.get('report.solStub=%s' % f[6], 0) + 1
            elif f[0] in ('enum', 'row', 'end-table'):
                arms[f[0]] = arms.get(f[0], 0) + 1
            elif f[0] == 'bad-op':
                arms['bad-op'] = arms.get('bad-op', 0) + 1

    def model(ops):
        if not drv:
            return None
        p = subprocess.run([drv], input='\n'.join(ops) + '\n', capture_output=True, text=True)
        out = p.stdout.split('\n')[:-1]
        note_arms(out)
        return out

    def disagree(stream, op, impl, mdl):
        corr_bad.setdefault(stream, []).append((op, impl, mdl))

    # ------------------------------------------------------------ enumerators
    rc, lines, err = run_lines([exe, 'enum'])
    enum_impl = [l for l in lines if l.startswith('enum ')]
    names = [l.split(' ')[1] for l in enum_impl]
    vals = {l.split(' ')[1]: int(l.split(' ')[2]) for l in enum_impl}
    m = model(['enum ' + n for n in names])
    for i, l in enumerate(enum_impl):
        corr['enum'] += 1
        if m is not None and (i >= len(m) or m[i] != l):
            disagree('enum', 'enum ' + names[i], l, m[i] if i < len(m) else None)
    for n in names:                                  # oracle: value lies in the class its name announces
        k = name_class(n)
        if k is None:
            ck.add_violation('enum:%s:unknown-name' % n, 'enumerator %s=%d of mp::sol::Status has no documented class (new code?)' % (n, vals[n]),
                             {'enumerator': n, 'value': vals[n]}, found_input=True)
        elif doc.cls(vals[n]) != k:
            ck.add_violation('enum:%s:outside-documented-range' % n,
                             'enumerator %s=%d lies in documented class %s, its name announces %s' % (n, vals[n], doc.cls(vals[n]), k),
                             {'enumerator': n, 'value': vals[n], 'replay': 'build harness/h_status.cc; h_status enum'}, found_input=True)
    bounds = {'solved': ('SOLVED', 'SOLVED_LAST'), 'uncertain': ('UNCERTAIN', 'UNCERTAIN_LAST'), 'infeasible': ('INFEASIBLE', 'INFEASIBLE_LAST'),
              'unbounded-feas': ('UNBOUNDED_FEAS', 'UNBOUNDED_FEAS_LAST'), 'unbounded-nofeas': ('UNBOUNDED_NO_FEAS', 'UNBOUNDED_NO_FEAS_LAST'),
              'limit-feas': ('LIMIT_FEAS', 'LIMIT_FEAS_LAST'), 'limit-inf-unb': ('LIMIT_INF_UNB', 'LIMIT_INF_UNB_LAST'),
              'limit-nofeas': ('LIMIT_NO_FEAS', 'LIMIT_NO_FEAS_LAST'), 'failure': ('FAILURE', 'FAILURE_LAST')}
    for a, b, k, d in doc.ranges:
        lo, hi = bounds[k]
        if vals.get(lo) != a or vals.get(hi) != b:
            ck.add_violation('enum:%s:bounds' % k, 'documented range %d-%d (%s) but %s=%s, %s=%s' % (a, b, k, lo, vals.get(lo), hi, vals.get(hi)),
                             {'class': k, 'documented': [a, b], lo: vals.get(lo), hi: vals.get(hi)}, found_input=True)

    # ------------------------------------------------------------ predicates, every code
    extra = [-2 ** 31, -2 ** 31 + 1, -100000, -1000, -201, 1000, 1001, 1234, 99999, 2 ** 31 - 2, 2 ** 31 - 1]
    extra += [rnd.randint(-2 ** 31, 2 ** 31 - 1) for _ in range(50 if quick else 2000)]
    extra += [rnd.randint(-3000, 3000) for _ in range(50 if quick else 2000)]
    if not quick:                                   # every 16-bit code
        extra += list(range(-32768, -200)) + list(range(1000, 32768))
    rc, lines, err = run_lines([exe, 'pred', '-200', '999'] + [str(x) for x in extra])
    pred_impl = [l for l in lines if l.startswith('pred ')]
    codes = [int(l.split(' ')[1]) for l in pred_impl]
    if rc != 0 or len(pred_impl) != 1200 + len(extra):
        ck.add_violation('pred:harness-failed', 'predicate harness exited %d with %d lines: %s' % (rc, len(pred_impl), err[-500:]),
                         {'cmd': '%s pred -200 999' % exe}, found_input=False)
    m = model(['pred %d' % c for c in codes])
    pred_fail = {}
    for i, l in enumerate(pred_impl):
        corr['pred'] += 1
        if m is not None and (i >= len(m) or m[i] != l):
            disagree('pred', 'pred %d' % codes[i], l, m[i] if i < len(m) else None)
        f = l.split(' ')
        c, bits = int(f[1]), [int(x) for x in f[2:]]
        k = doc.cls(c)
        if -200 <= c <= 999:
            hist['class'][k] = hist['class'].get(k, 0) + 1
        for p, b in zip(PREDS, bits):
            hist['pred_true'][p] += b
            want = (c != -200) if p == 'IsSolStatusRetrieved' else (k in PRED_MEANS[p])
            if bool(b) != want:
                pred_fail.setdefault((p, 'false-negative' if want else 'false-positive'), []).append(c)
        if i % 283 == 99 and len(ck.cov['samples']) < 4:
            ck.sample(l)
    for (p, kind), cs in sorted(pred_fail.items()):
        for a, b in intervals(cs):
            ck.add_violation('%s:%s:%d..%d' % (p, kind, a, b),
                             'StdBackend::%s() is %s for solve codes %d..%d (documented class %s); e.g. code %d' %
                             (p, 'false' if kind == 'false-negative' else 'true', a, b, doc.cls(a), a),
                             {'predicate': p, 'codes': [a, b], 'documented_class': doc.cls(a), 'kind': kind,
                              'replay': 'build harness/h_status.cc against the repo (checks/c10.py:build_harness); `h_status pred %d %d` prints `pred c %s`' % (a, b, ' '.join(PREDS))},
                             found_input=True)

    # ------------------------------------------------------------ -! table
    rc, lines, err = run_lines([exe, 'table'])
    impl_rows = []
    for l in lines:
        r = re.match(r'^\t\s*(\d+)-\s*(\d+)\t(.*)$', l)
        s = re.match(r'^\t\s+(\d+)\t(.*)$', l)
        if r:
            impl_rows.append((int(r.group(1)), int(r.group(2)), r.group(3)))
        elif s:
            impl_rows.append((int(s.group(1)), int(s.group(1)), s.group(2)))
    m = model(['table'])
    mrows = []
    for l in (m or []):
        r = re.match(r'^row (-?\d+) (-?\d+) (.*)$', l)
        if r:
            mrows.append((int(r.group(1)), int(r.group(2)), r.group(3)))
    corr['table'] = len(impl_rows)
    if m is not None:
        ir = sorted(x for x in impl_rows if x[0] != x[1])
        mr = sorted(x for x in mrows if x[0] != x[1])
        if ir != mr:
            disagree('table', 'table(ranges)', ir, mr)
        for x in mrows:
            if x[0] == x[1] and x not in impl_rows:
                disagree('table', 'table(single)', None, x)
    # oracle: what -! prints vs the documented listing
    impl_ranges = sorted((a, b, d.strip()) for a, b, d in impl_rows if a != b)
    doc_ranges = sorted((a, b, d) for a, b, k, d in doc.ranges)
    if impl_ranges != doc_ranges:
        only_i = [x for x in impl_ranges if x not in doc_ranges]
        only_d = [x for x in doc_ranges if x not in impl_ranges]
        ck.add_violation('table:ranges-differ', 'the -! table differs from the documented one: printed only %s; documented only %s' % (only_i[:3], only_d[:3]),
                         {'printed_only': only_i, 'documented_only': only_d, 'replay': 'h_status table'}, found_input=True)
    impl_singles = {(a, d.strip()) for a, b, d in impl_rows if a == b}
    for a, d in doc.singles:
        if (a, d) not in impl_singles:
            ck.add_violation('table:single-missing:%d' % a, 'documented single code %d "%s" is not printed by -!' % (a, d),
                             {'code': a, 'replay': 'h_status table'}, found_input=True)
    # codes the backend registers itself (AddSolveResults in C10Backend::InitCustomOptions) must be listed, inside a listed range
    for a, d in [(421, 'c10 custom limit, feasible solution'), (491, 'c10 custom limit, no feasible solution'), (501, 'c10 custom failure'),
                 (350, 'c10 custom code at the start of a range')]:
        if (a, d) not in impl_singles:
            ck.add_violation('table:custom-code-missing:%d' % a, 'code %d registered by the backend through AddSolveResults is not printed by -!' % a,
                             {'code': a, 'replay': 'h_status table'}, found_input=True)
    for a, d in sorted(impl_singles):
        if sum(1 for x, y, _ in impl_ranges if x <= a <= y) != 1:
            ck.add_violation('table:single-outside-ranges:%d' % a, 'single code %d "%s" printed by -! lies in %d printed ranges' % (a, d, sum(1 for x, y, _ in impl_ranges if x <= a <= y)),
                             {'code': a, 'replay': 'h_status table'}, found_input=True)
    # listing order: by first code, a range before the single code that starts it (RegEntry::operator<)
    if impl_rows != sorted(impl_rows, key=lambda r: (r[0], -r[1])):
        ck.add_violation('table:order', 'the -! table is not ordered by code (ranges before the single codes they start with)',
                         {'printed': [(a, b) for a, b, _ in impl_rows], 'replay': 'h_status table'}, found_input=True)
    if rc != 0 or not impl_rows:
        ck.add_violation('table:harness-failed', '-! run failed rc=%d: %s' % (rc, err[-400:]), {}, found_input=False)

    # ------------------------------------------------------------ hand-written `documented` vs the guide
    m = model(['class %d' % c for c in codes] + ['doctable'])
    if m is not None:
        for i, c in enumerate(codes):
            corr['class'] += 1
            want_doc = doc.cls(c)
            f = m[i].split(' ') if i < len(m) else []
            if len(f) != 5 or f[3] != want_doc or f[4] != ('1' if want_doc in CANDIDATE else '0'):
                disagree('class', 'class %d' % c, 'guide: %s' % want_doc, m[i] if i < len(m) else None)
        drows = []
        for l in m[len(codes):]:
            r = re.match(r'^row (-?\d+) (-?\d+) (.*)$', l)
            if r:
                drows.append((int(r.group(1)), int(r.group(2)), r.group(3)))
        corr['doctable'] = len(drows)
        if sorted(drows) != sorted(doc.rows):
            disagree('doctable', 'doctable', sorted(doc.rows), sorted(drows))

    # ------------------------------------------------------------ SolveResultRegistry::AddSolveResults on generated entry sets
    prereg = sorted((a, b) for a, b, _ in doc.rows if a != b or a == 550)      # what the constructor registers (150 is added by the converter)
    pool = [0, 1, 50, 99, 100, 149, 150, 159, 199, 200, 299, 300, 349, 350, 399, 400, 420, 421, 449, 450, 469, 470, 499, 500, 550, 600, 999, 1000, -1]
    adds = []
    for _ in range(300 if quick else 3000):
        ents = set()
        for _j in range(rnd.randint(1, 4)):
            a = rnd.choice(pool)
            kind = rnd.random()
            if kind < 0.4:
                ents.add((a, a))
            elif kind < 0.6 and prereg:
                ents.add(rnd.choice(prereg))
            else:
                ents.add((a, a + rnd.choice([0, 1, 9, 49, 99, 499])))
        ents = sorted(ents, key=lambda e: (e[0], -e[1]))                     # the argument is a std::set<RegEntry> itself
        adds.append('%d %s' % (rnd.randint(0, 1), ' '.join('%d:%d' % e for e in ents)))
    rc, lines, err = run_lines([exe, 'addres'], inp='\n'.join(adds) + '\n')
    impl_add = [l for l in lines if l.startswith('addres ')]
    m = model(['addres ' + x for x in adds])
    n_err = 0
    for i, l in enumerate(impl_add):
        corr['addres'] += 1
        if m is not None and (i >= len(m) or m[i] != l):
            disagree('addres', 'addres ' + adds[i], l, m[i] if i < len(m) else None)
        cr = adds[i].split(' ')[0] == '1'
        ents = [tuple(int(x) for x in t.split(':')) for t in adds[i].split(' ')[1:]]
        res = l.split(' |')[1].split()
        want_err = (not cr) and any(e in prereg for e in ents)               # oracle: an error iff an identical range exists and replacing is off
        n_err += res == ['error']
        if (res == ['error']) != want_err or (not want_err and any(('%d:%d' % e) not in [r.rstrip('+') for r in res] for e in ents)):
            ck.add_violation('table:add-results', 'AddSolveResults(%s, canReplace=%s) on the pre-registered table gave %s' % (ents, cr, ' '.join(res)[:200]),
                             {'entries': ents, 'canReplace': cr, 'result': res, 'replay': 'echo "%s" | h_status addres' % adds[i]}, found_input=True)
    hist['addres'] = {'cases': len(impl_add), 'errors': n_err}
    if rc != 0 or len(impl_add) != len(adds):
        ck.add_violation('table:addres-harness-failed', 'addres harness exit %d, %d of %d lines: %s' % (rc, len(impl_add), len(adds), err[-300:]), {}, found_input=False)

    # ------------------------------------------------------------ option value of alg:rays -> atoms, through the model
    rb = model(['raybits %d' % r for r in range(8)])
    raybits = {}
    for r in range(8):
        want = 'raybits %d | %d %d' % (r, r & 1, (r >> 1) & 1)         # option text: 1 = .unbdd, 2 = .dunbdd
        corr['raybits'] += 1
        if rb is not None:
            if r >= len(rb) or rb[r] != want:
                disagree('raybits', 'raybits %d' % r, want, rb[r] if r < len(rb) else None)
            else:
                raybits[r] = tuple(int(x) for x in rb[r].split(' | ')[1].split())

    # ------------------------------------------------------------ complete driver runs
    # tiny.nl has one objective, noobj.nl none.  Documented postsolve behaviour: one objective value per model
    # objective.  This is an *expectation* checked on every run (observed sol.objvals.size() vs the NL header),
    # never an input: the model and the oracle are driven by the NL model's objective count.
    STUB = 'sol:stub=@DIR@/alt'
    # (model, options, nobj values the solver returns, nalt values, (primal,dual) combinations, all codes?)
    PD4 = [(0, 0), (0, 1), (1, 0), (1, 1)]
    # (model, options, nobj values the solver returns, nalt values, (primal,dual) combinations, all codes?, harness flags)
    F0 = (0,)
    models = [('tiny', [], (0, 1), (0,), PD4, True, F0),
              ('noobj', [], (1,), (0,), PD4, True, F0),
              ('twoobj', ['obj:multi=1'], (2,), (0,), PD4, True, F0),              # >1 objective values: "Individual objective values"
              ('tiny', [STUB], (1,), (0, 1, 2), [(0, 0), (1, 1)], True, F0),       # intermediate solutions -> <solstub>N.sol
              ('tiny', [], (1,), (1, 2), [(1, 1)], False, F0),                     # no sol:stub: nothing must be written
              # round 3 (coverage audit): message variants and the suffixes that depend on the classification
              ('tiny', ['alg:feasrelax=1'], (1,), (0,), [(1, 1)], True, (1,)),     # "; feasrelax objective", "Original objective ="
              ('tiny', ['alg:feasrelax=1'], (1,), (0,), [(0, 0)], False, (0,)),
              ('tiny', ['alg:rays=3', 'alg:iisfind=1', 'alg:kappa=3'], (1,), (0,), [(1, 1)], True, (0, 2)),   # .unbdd/.dunbdd/.iis/.kappa
              ('tiny', ['alg:rays=1'], (1,), (0,), [(1, 1)], False, F0), ('tiny', ['alg:rays=2', 'alg:kappa=1'], (1,), (0,), [(0, 0)], False, F0),
              ('tiny', ['alg:rays=0', 'alg:kappa=2'], (1,), (0,), [(1, 0)], False, F0),
              ('mip2', ['mip:round=7'], (1,), (0,), [(1, 1), (0, 1)], False, (16,)),   # RoundSolution only for candidate codes (thorough: all codes)
              ('mip2', ['mip:round=5', STUB], (1,), (1,), [(1, 1)], False, (16, 0)),
              ('tiny', ['@noampl'], (1,), (0,), [(1, 1)], True, F0),               # command-line use: message printed on stdout
              ('noobj', ['@noampl'], (1,), (0,), [(0, 0)], False, F0),
              ('tiny', ['@noampl', '@wantsol=9'], (1,), (0,), [(1, 1)], False, F0),   # wantsol 8: message suppressed on stdout, .sol still written
              ('tiny', ['@noampl', '@wantsol=7'], (1,), (0,), [(1, 0)], False, F0),   # wantsol 2,4: solution printed as well
              ('tiny', ['@noampl', '@wantsol=0'], (1,), (0,), [(1, 1)], False, F0),   # round 7: no .sol at all, message on stdout only
              ('tiny', ['@noampl', '@wantsol=6'], (1,), (0,), [(1, 1), (0, 1)], False, F0), ('tiny', ['@noampl', '@wantsol=8'], (1,), (0,), [(1, 1)], False, F0),
              ('tiny', ['@noampl', '@wantsol=14'], (1,), (0,), [(1, 1)], False, F0), ('tiny', ['@noampl', '@wantsol=15'], (1,), (0,), [(1, 1)], False, F0),
              ('tiny', ['@noampl', '@wantsol=3'], (1,), (0,), [(1, 1)], False, F0), ('tiny', ['@noampl', '@wantsol=5'], (1,), (0,), [(0, 0)], False, F0),
              ('mip2', ['mip:round=3'], (1,), (0,), [(1, 1)], False, (16,)), ('mip2', ['mip:round=6', 'tech:reporttimes=1'], (1,), (0,), [(1, 1)], False, (16,)),
              ('tiny', ['sol:count=1'], (1,), (0, 2), [(1, 1)], False, F0),        # multiple solutions wanted, no stub: no numbered files
              ('tiny', [STUB], (1,), (2,), [(1, 1)], False, (4, 6))]               # intermediate solutions without objective value
    if not quick:
        models += [('tiny', ['sol:chk:mode=0'], (1,), (0,), PD4, True, F0), ('mip2', [], (1,), (0,), PD4, True, F0), ('twoobj', [], (1,), (0,), PD4, True, F0),
                   ('twoobj', ['obj:multi=1', STUB], (0, 2), (0, 1, 2), PD4, True, F0), ('mip2', [STUB], (1,), (2,), PD4, True, F0),
                   ('tiny', ['alg:feasrelax=1'], (0, 1), (0,), PD4, True, (0, 1, 3)), ('noobj', ['alg:feasrelax=1'], (1,), (0,), [(1, 1)], True, (1,)),
                   ('twoobj', ['obj:multi=1', 'alg:feasrelax=1', 'alg:iisfind=1'], (2,), (0,), [(1, 1)], True, (1,)),
                   ('tiny', ['alg:rays=1', 'alg:iisfind=1'], (1,), (0,), PD4, True, F0), ('tiny', ['alg:rays=2', 'alg:kappa=1'], (1,), (0,), PD4, True, F0),
                   ('tiny', ['alg:rays=0', 'alg:kappa=2'], (1,), (0,), PD4, True, F0), ('mip2', ['mip:round=7', STUB], (1,), (0, 2), PD4, True, (16, 0)),
                   ('mip2', ['mip:round=3'], (1,), (0,), [(1, 1)], True, (16,)), ('mip2', ['mip:round=7'], (1,), (0,), PD4, True, (16,)), ('noobj', ['@noampl'], (1,), (0,), PD4, True, F0),
                   ('twoobj', ['obj:multi=1', '@noampl'], (2,), (0,), [(1, 1)], True, F0), ('tiny', ['sol:count=1'], (1,), (0, 1, 2), PD4, True, F0)]
    jobs = []
    all_codes = list(range(-200, 1000))
    some_codes = sorted(set([-200, -1, 0, 99, 100, 150, 199, 200, 299, 300, 349, 350, 399, 400, 449, 450, 469, 470, 499, 500, 550, 999]
                            + [rnd.randint(-200, 999) for _ in range(150)]))
    for mi, (mn, mopts, nobjs, nalts, pds, allc, flagvals) in enumerate(models):
        cs = list(all_codes if allc else some_codes)
        cs = cs + ([] if quick else [-1000, -201, 1000, 5000, 2 ** 31 - 1, -2 ** 31])
        ops = ['%d %d %d %d %d %d' % (c, n, p, d, k, fl) for c in cs for n in nobjs for (p, d) in pds for k in nalts for fl in flagvals]
        nchunk = max(1, len(ops) // 2500)
        for j in range(nchunk):
            jobs.append((mn, mopts, ops[j::nchunk], '%s_%d_%d' % (mn, mi, j)))

    def one(job):
        mn, mopts, ops, tag = job
        d = os.path.join(work, tag)
        shutil.rmtree(d, ignore_errors=True)
        os.makedirs(d)
        shutil.copy(os.path.join(VERIF, 'corpus', 'C10', mn + '.nl'), os.path.join(d, 'm.nl'))
        p = subprocess.run([exe, 'report', os.path.join(d, 'm')] + [o.replace('@DIR@', d) for o in mopts], input='\n'.join(ops) + '\n',
                           capture_output=True, text=True, cwd=d)
        return mn, mopts, ops, p.returncode, [l for l in p.stdout.split('\n') if l.startswith('report ')], p.stderr[-800:]
    with ThreadPoolExecutor(max_workers=4) as ex:
        results = list(ex.map(one, jobs))
    rep_fail = {}
    distinct = set()
    for mn, mopts, ops, rc, lines, err in results:
        hist['models'][mn + (' ' + ' '.join(mopts) if mopts else '')] = hist['models'].get(mn + (' ' + ' '.join(mopts) if mopts else ''), 0) + len(lines)
        if rc != 0 or len(lines) != len(ops):
            ck.add_violation('report:harness-failed', 'driver batch on %s exited %d after %d of %d runs: %s' % (mn, rc, len(lines), len(ops), err),
                             {'model': mn, 'options': mopts, 'first_missing': ops[len(lines)] if len(lines) < len(ops) else None,
                              'replay': 'echo "<code> <nobj> <primal> <dual>" | h_status report corpus/C10/%s %s' % (mn, ' '.join(mopts))}, found_input=False)
        mops, cans, obs = [], [], []
        nobj_model = nl_objectives(os.path.join(VERIF, 'corpus', 'C10', mn + '.nl'), mopts)
        stub = 1 if any(o.startswith('sol:stub=') for o in mopts) else 0
        optv = lambda name, dflt: next((int(o.split('=')[1]) for o in mopts if o.startswith(name + '=')), dflt)
        o_fr, o_kappa, o_rays, o_iis = optv('alg:feasrelax', 0), optv('alg:kappa', 0), optv('alg:rays', 3), optv('alg:iisfind', 0)
        o_round, o_count, o_noampl, o_wantsol = optv('mip:round', 0), optv('sol:count', 0), '@noampl' in mopts, optv('@wantsol', 1)
        is_mip = mn == 'mip2'
        xops, xcans, mkops, mkcans = [], [], [], []
        o_noampl0, o_wantsol0 = '@noampl' in mopts, next((int(x.split('=')[1]) for x in mopts if x.startswith('@wantsol=')), 1)
        appops, appcans = [], []

        def app_obs(o, present):
            """where the message / the .sol file appeared in this run vs the invocation (oracle from the option text:
            wantsol 1 write .sol, 2 print primal, 4 print dual, 8 suppress message; -AMPL: .sol only) + op for the model"""
            ampl, w = int(not o_noampl0), (o_wantsol0 if o_noampl0 else 0)
            if ampl:
                got = (int(present), 0, 0, 0)            # stdout is not captured under -AMPL: only the file is observed
                want = (1, 0, 0, 0)
            else:
                msg = o['stdoutstatus'] if not present else o['stdoutmsg']
                got = (int(present), msg, o['stdoutprimal'], o['stdoutdual'])
                want = (int(bool(w & 1)), int(not (w & 8)), int(bool(w & 2) and bool(o['primal'])), int(bool(w & 4) and bool(o['dual'])))
            if got != want:
                rep_fail.setdefault('delivery:sol-or-stdout', []).append((o['code'], (mn, tuple(mopts), o['nobj_in'], o['primal'], o['dual'], o['nalt_in'])))
            hist['delivery'] = hist.get('delivery', {})
            key = 'ampl' if ampl else 'wantsol=%d' % w
            hist['delivery'][key] = hist['delivery'].get(key, 0) + 1
            if not ampl:                                  # model: printing of a vector also needs the vector
                appops.append('app %d %d' % (ampl, w))
                appcans.append('app %d %d | sol=%d msg=%d primal=%d dual=%d' % (ampl, w, got[0], got[1],
                               got[2] if o['primal'] else int(bool(w & 2)), got[3] if o['dual'] else int(bool(w & 4))))
        for l in lines:
            op, can, o = canon_report(l, nobj_model, stub)
            if op == 'absent':
                app_obs(o, False)
                continue
            if op is None:
                ck.add_violation('report:no-sol-file', 'no readable .sol file for scripted answer %s on %s' % (o, mn), {'answer': o, 'model': mn}, found_input=True)
                continue
            mops.append(op); cans.append(can); obs.append(o)
            app_obs(o, True)
        ma = model(appops)
        if ma is not None:
            for i, c_ in enumerate(appcans):
                corr['app'] = corr.get('app', 0) + 1
                if i >= len(ma) or ma[i] != c_:
                    disagree('app', appops[i], c_, ma[i] if i < len(ma) else None)
        m = model(mops)
        for i, (can, o) in enumerate(zip(cans, obs)):
            corr['report'] += 1
            hist['report_runs'] += 1
            hist['report_objShown'] += o['objShown']
            k = doc.cls(o['code'])
            key = '%s/nobj%d' % (k, min(nobj_model, 2))
            hist['report_by_class'][key] = hist['report_by_class'].get(key, 0) + 1
            distinct.add((mn, tuple(mopts), o['code'], o['nobj_in'], o['primal'], o['dual'], o['nalt_in']))
            hist['alt_files'] = hist.get('alt_files', 0) + o['nfiles']
            if m is not None and (i >= len(m) or m[i] != can):
                disagree('report', mops[i], can, m[i] if i < len(m) else None)
            # oracle on the real run
            # independent of what GetSolution() returned: shown <=> candidate code and the NL model has an objective,
            # for every primal/dual presence combination
            want_shown = (k in CANDIDATE) and nobj_model > 0
            tag = (mn, tuple(mopts), o['nobj_in'], o['primal'], o['dual'], o['nalt_in'])
            # intermediate / pool solutions: one numbered file per reported solution iff sol:stub, each with the reported code
            want_files = o['nalt_in'] if stub else 0
            want_multi = 1 if (stub or o_count) else 0
            if o['nfiles'] != want_files or o['multi'] != want_multi or len(o['hfs']) != (o['nalt_in'] if want_multi else 0):
                rep_fail.setdefault('altsol:file-count', []).append((o['code'], tag))
            if any(x != str(o['code']) for x in o['altcodes']) or any(x != o['code'] for x in o['hfs']) or not o['altmsg']:
                rep_fail.setdefault('altsol:code-not-echoed', []).append((o['code'], tag))
            # round 3: message variants and suffixes that depend on the classification (documented classes, not the model)
            fl = o['flags']
            has = lambda *names: all(x in o['sufs'] for x in names)
            # the automatic solution check: the scripted solution violates the model iff primal values and a (wrong) objective value
            # are returned; FlatBackend::GetSolution declares infeasible codes "known infeasible" and the check is skipped
            viol = int(bool(o['primal']) and o['nobj_in'] >= 1 and nobj_model >= 1 and 'sol:chk:mode=0' not in mopts)
            exp = {'chk': int(viol and k != 'infeasible'), 'fr': int(want_shown and o_fr != 0 and nobj_model == 1), 'orig': int(want_shown and o_fr != 0 and nobj_model == 1 and bool(fl & 1)),
                   'kappa': int(k == 'solved' and o_kappa != 0),
                   'unbdd': int(bool(o_rays & 1) and k in ('unbounded-feas', 'unbounded-nofeas', 'limit-inf-unb')),
                   'dunbdd': int(bool(o_rays & 2) and k in ('infeasible', 'limit-inf-unb')),
                   'iis': int(o_iis != 0 and k in ('infeasible', 'unbounded-feas', 'unbounded-nofeas', 'limit-inf-unb'))}
            got = {'chk': int('warnings' in o['order'].split(',')), 'fr': o['fr'], 'orig': o['orig'], 'kappa': int(has('obj.kappa', 'prob.kappa')), 'unbdd': int(has('var.unbdd')),
                   'dunbdd': int(has('con.dunbdd')), 'iis': int(has('var.iis', 'con.iis'))}
            for key in exp:
                hist.setdefault('extras_true', {}).setdefault(key, 0)
                hist['extras_true'][key] += got[key]
                if exp[key] != got[key]:
                    rep_fail.setdefault(('message:%s' if key in ('fr', 'orig', 'chk') else 'suffix:%s') % key + (':missing' if exp[key] else ':unexpected'), []).append((o['code'], tag))
            xops.append('extras %d %d %d %d %d %d %d %d %d' % (o['code'], nobj_model, int(o_fr != 0), int(o_fr != 0 and bool(fl & 1)), int(o_kappa != 0),
                                                                  raybits.get(o_rays, (o_rays & 1, (o_rays >> 1) & 1))[0],
                                                                  raybits.get(o_rays, (o_rays & 1, (o_rays >> 1) & 1))[1], int(o_iis != 0), viol))
            # order of the message pieces (ReportSolution2AMPL step table of the model)
            naltrep = o['nalt_in'] if want_multi else 0
            mkops.append('markers %d %d %d %d %d %d %d %d %d' % (o['code'], nobj_model, int(o_fr != 0), int(o_fr != 0 and bool(fl & 1)), int(o_kappa != 0),
                                                                 int(bool(fl & 2)), naltrep, int(not (fl & 4)), int('warnings' in o['order'].split(','))))
            mkcans.append(mkops[-1] + ' | ' + o['order'])
            xcans.append(xops[-1] + ' | fr=%d orig=%d kappa=%d unbdd=%d dunbdd=%d iis=%d chk=%d' % tuple(got[x] for x in ('fr', 'orig', 'kappa', 'unbdd', 'dunbdd', 'iis', 'chk')))
            # NB the code tests `exportKappa() && 1` (logical and): the message line appears for every non-zero alg:kappa,
            # not only when bit 1 is set as the option text says (side finding, not part of C10; see design_notes/coverage/C10.md)
            if o['kappamsg'] != int(o_kappa != 0) or o['extra'] != int(bool(fl & 2)):
                rep_fail.setdefault('message:kappa-or-extra-line', []).append((o['code'], tag))
            want_round = int(bool(o_round & 4) and bool(fl & 16) and is_mip and bool(o['primal']) and k in CANDIDATE)
            if o['roundmsg'] != want_round:
                rep_fail.setdefault('message:rounding-note' + (':missing' if want_round else ':unexpected'), []).append((o['code'], tag))
            hist['round_notes'] = hist.get('round_notes', 0) + o['roundmsg']
            if o_noampl:
                hist['stdout_runs'] = hist.get('stdout_runs', 0) + 1
                shown_on_stdout = not (o_wantsol & 8)
                if o['stdoutmsg'] != int(shown_on_stdout) or o['stdoutobj'] != int(want_shown and shown_on_stdout):
                    rep_fail.setdefault('stdout:message-differs', []).append((o['code'], tag))
            if o['altrange'] != int(want_multi and o['nalt_in'] > 0 and not (fl & 4)):
                rep_fail.setdefault('message:alt-objective-range', []).append((o['code'], tag))
            if o['nobj'] != nobj_model:
                rep_fail.setdefault('objvals:size-differs-from-model-objectives', []).append((o['code'], tag))
            if o['objShown'] and not want_shown:
                rep_fail.setdefault('objective:shown-without-candidate', []).append((o['code'], tag))
            if want_shown and not o['objShown']:
                rep_fail.setdefault('objective:not-shown', []).append((o['code'], tag))
            if o['written'] != o['code'] or o['hs'] != o['code']:
                rep_fail.setdefault('code:not-echoed', []).append((o['code'], tag))
            if (o['nx'] > 0) != bool(o['primal']) or (o['ny'] > 0) != bool(o['dual']):
                rep_fail.setdefault('vectors:not-echoed', []).append((o['code'], tag))
            if not o['status'] or not o['samemsg']:
                rep_fail.setdefault('message:status-text-missing', []).append((o['code'], tag))
            if (corr['report'] % 797) == 0:
                ck.sample(can)
        # the `extras` stream of this job against the Lean model
        mx = model(xops)
        if mx is not None:
            for i, xc in enumerate(xcans):
                corr['extras'] = corr.get('extras', 0) + 1
                if i >= len(mx) or mx[i] != xc:
                    disagree('extras', xops[i], xc, mx[i] if i < len(mx) else None)
            if xcans and len(ck.cov['samples']) < 10:
                ck.sample(xcans[len(xcans) // 3])
        mk = model(mkops)
        if mk is not None:
            for i, c_ in enumerate(mkcans):
                corr['markers'] = corr.get('markers', 0) + 1
                if i >= len(mk) or mk[i] != c_:
                    disagree('markers', mkops[i], c_, mk[i] if i < len(mk) else None)
            if mkcans and len(ck.cov['samples']) < 11:
                ck.sample(mkcans[len(mkcans) // 2])
    for kind, lst in sorted(rep_fail.items()):
        by_code = {}
        for c, tag in lst:
            by_code.setdefault(c, tag)
        for a, b in intervals(by_code.keys()):
            mn, mopts, n, p, d, kalt = by_code[a]
            ck.add_violation('%s:%d..%d' % (kind, a, b),
                             '%s for reported solve codes %d..%d (documented class %s): e.g. scripted answer code=%d, %d objective value(s) from the solver, primal=%d dual=%d, %d intermediate solution(s) on corpus/C10/%s.nl (%d objective(s) delivered) with options [%s]' %
                             (kind, a, b, doc.cls(a), a, n, p, d, kalt, mn, nl_objectives(os.path.join(VERIF, 'corpus', 'C10', mn + '.nl'), mopts), ' '.join(mopts)),
                             {'kind': kind, 'codes': [a, b], 'example': {'code': a, 'nobj': n, 'primal': p, 'dual': d, 'nalt': kalt, 'model': mn, 'options': list(mopts)},
                              'replay': 'build harness/h_status.cc (checks/c10.py:build_harness); copy corpus/C10/%s.nl to <dir>/m.nl; echo "%d %d %d %d %d" | h_status report <dir>/m %s (with @DIR@ = <dir>); inspect <dir>/m.sol and <dir>/alt<N>.sol' % (mn, a, n, p, d, kalt, ' '.join(mopts))},
                             found_input=True)

    # ------------------------------------------------------------ thorough: the same with assertions enabled
    if not quick:
        exe_dbg = build_harness(ck, ndebug=False)
        rc, lines, err = run_lines([exe_dbg, 'pred', '-199', '999'])
        dbg = [l for l in lines if l.startswith('pred ')]
        ref = [l for l in pred_impl if -199 <= int(l.split(' ')[1]) <= 999][:1199]
        if rc != 0 or dbg != ref:
            bad = next((a for a, b in zip(dbg, ref) if a != b), None)
            ck.add_violation('pred:assert-build-differs', 'build without NDEBUG: exit %d, first differing line %s: %s' % (rc, bad, err[-300:]),
                             {'cmd': '%s pred -199 999' % exe_dbg}, found_input=bad is not None)
        d = os.path.join(work, 'dbg')
        shutil.rmtree(d, ignore_errors=True)
        os.makedirs(d)
        shutil.copy(os.path.join(VERIF, 'corpus', 'C10', 'tiny.nl'), os.path.join(d, 'm.nl'))
        ops = ['%d 1 %d %d 0' % (c, c % 2, (c // 2) % 2) for c in range(-199, 1000)]
        p = subprocess.run([exe_dbg, 'report', os.path.join(d, 'm')], input='\n'.join(ops) + '\n', capture_output=True, text=True, cwd=d)
        dl = [canon_report(l, 1)[1] for l in p.stdout.split('\n') if l.startswith('report ')]
        mm = model([x.split(' | ')[0] for x in dl if x])
        corr['report_assert_build'] = len(dl)
        if p.returncode != 0 or len(dl) != len(ops):
            ck.add_violation('report:assert-build-aborts', 'driver built without NDEBUG stopped after %d of %d runs (exit %d): %s' % (len(dl), len(ops), p.returncode, p.stderr[-300:]),
                             {'first_missing': ops[len(dl)] if len(dl) < len(ops) else None}, found_input=True)
        elif mm is not None and mm != dl:
            i = next(i for i in range(len(dl)) if i >= len(mm) or mm[i] != dl[i])
            disagree('report', dl[i].split(' | ')[0] + ' (assert build)', dl[i], mm[i] if i < len(mm) else None)

    # ------------------------------------------------------------ verdicts for correspondence / obligations
    for stream, lst in corr_bad.items():
        op, impl, mdl = lst[0]
        ck.add_violation('%s:model-differs' % stream,
                         'Lean model and compiled code disagree on `%s`: implementation %s, model %s (%d such lines): the generated/hand model no longer describes the code' %
                         (op, impl, mdl, len(lst)),
                         {'stream': stream, 'op': op, 'impl': impl, 'model': mdl, 'more': lst[1:5], 'correspondence': 'drv_c10 vs h_status'}, found_input=False)
    if not proof_ok:
        new_sigs = [v['sig'] for v in ck.violations if v['found_input']]
        for fdecl in failing:
            area = None
            for pre, a in THEOREM_PRED.items():
                if fdecl.startswith(pre):
                    area = a
            if area and any(s.startswith(area) for s in new_sigs):
                continue          # a concrete failing input for this theorem's subject was found above
            ck.add_violation('obligation:%s' % fdecl.split(' ')[0][:60], 'proof obligation no longer checks: %s' % fdecl,
                             {'theorem': fdecl, 'module': 'MpVerif.C10.Props',
                              'searched': 'all codes -200..999 (+%d others) on the compiled predicates, %d complete driver runs: none violates the documented behaviour beyond the known findings' % (len(extra), corr['report'])},
                             found_input=False)

    if cov_mode:
        c10_coverage.report(ck, os.environ.get('VERIF_COVERAGE_TAG', 'after'))
    n_eval = corr['enum'] + corr['pred'] + corr['table'] + corr['report'] + corr.get('report_assert_build', 0)
    ck.cov['evaluations'] = n_eval
    ck.cov['distinct_nontrivial'] = len(distinct) + len(set(codes))
    ck.cov['rule'] = ('distinct (model, options, solve code, #objective values after postsolve, primal present, dual present) complete driver runs '
                      '+ distinct solve codes on which all 7 range predicates of the compiled backend were evaluated; every one is compared with the Lean model and the documented table')
    ck.cov['exhaustive'] = True
    ck.cov['exhaustive_note'] = ('every solve code -200..999: 7 predicates; every solve code -200..999 x {0,1%s} objective values x primal x dual present/absent: complete driver run on corpus/C10/tiny.nl '
                                 '(further models/options and out-of-range codes are sampled)' % ('' if quick else ',2'))
    ck.cov['correspondence'] = {'lines_compared_model_vs_impl': dict(corr), 'disagreements': sum(len(v) for v in corr_bad.values())}
    ck.cov['traces_validated_against_impl'] = sum(corr.values()) if drv else 0
    ck.cov['generator_histogram'] = hist
    ck.cov['model_arms_exercised'] = dict(sorted(arms.items()))
    expected_arms = (['documented/classify=' + c for c in CLASSES + ['none']] + ['candidate=0', 'candidate=1'] +
                     ['%s=%d' % (p, b) for p in PREDS for b in (0, 1)] +
                     ['report.%s=%d' % (k, b) for k in ('objShown', 'primal', 'dual', 'objval', 'solStub') for b in (0, 1)] +
                     ['report.alt=' + v for v in ('none', 'one', 'several')] +
                     ['extras.%s=%d' % (k, b) for k in ('fr', 'orig', 'kappa', 'unbdd', 'dunbdd', 'iis', 'chk') for b in (0, 1)])
    ck.cov['model_arms_never_taken'] = [a for a in expected_arms if drv and not arms.get(a)]
    covjson = os.path.join(VERIF, 'design_notes', 'coverage', 'C10.json')
    if os.path.exists(covjson):      # measured in the last VERIF_COVERAGE=1 run (committed file; not recomputed here)
        cj = json.load(open(covjson))
        ck.cov['anchor_line_cov'] = cj.get('anchor_line_cov')
        ck.cov['anchor_branch_cov'] = cj.get('anchor_branch_cov')
        ck.cov['mechanism_line_cov'] = cj.get('mechanism_line_cov')
        ck.cov['mechanism_branch_cov'] = cj.get('mechanism_branch_cov')
        ck.cov['coverage_measured'] = cj.get('measured')
    ck.cov['documented_rows_parsed'] = len(doc.rows)
    ck.assumptions += ['NDEBUG build (the predicates assert IsSolStatusRetrieved(); code -200 = NOT_SET is evaluated with asserts off)',
                       'the predicates are those of StdBackend as inherited by FlatBackend<MIPBackend<VisitorBackend>> (checked: compiled predicates of that stack = generated definitions on every code)',
                       '"objective shown" = the solve message stored in the .sol file contains "objective <scripted value>"',
                       'default options (sol:chk etc.); the solution checker does not change the code unless sol:chk:fail is set']
    ck.cov['trusted_base'] += ['translators/gen_status.py + clang-14 AST (cross-checked on every run: generated enumerators/predicates/table vs the compiled code on every code)',
                               'hand-written `documented`/`documentedTable` in MpVerif/C10/Model.lean (cross-checked on every run against the table parsed from doc/source/features-guide.rst)',
                               'hand model `report` of ReportSolution2AMPL (proved equal to the guard structure extracted from the source; compared with complete driver runs)']


def replay(ck, path):
    r = json.load(open(path))
    ck.log('replay of %s: re-running the complete check (all codes are enumerated anyway)' % r.get('signature'))
    run(ck)
    return ck.finish()

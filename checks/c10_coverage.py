"""Coverage mode for C10 (VERIF_COVERAGE=1 ./check C10): build the harness + the mp objects with --coverage in a
separate build dir, run the normal quick-tier input stream through it, run gcov-12 -b -c (JSON) and report
line / branch coverage of the anchored files and the uncovered lines / branches inside the functions of the
anchored mechanisms.  Writes design_notes/coverage/C10.md and design_notes/coverage/C10.json."""
import os, sys, json, gzip, glob, subprocess, shutil, re, time
from concurrent.futures import ThreadPoolExecutor
from common import VERIF, REPO, BUILD

COVDIR = os.path.join(BUILD, 'c10cov')
ANCHOR_FILES = ['include/mp/common.h', 'include/mp/backend-std.h', 'include/mp/backend-mip.h',
                'include/mp/flat/backend_flat.h', 'include/mp/solver-base.h', 'src/solver.cc']
# the rest of the chain "message and .sol composition": HandleSolution(...) down to the `objno N code` line
CHAIN_FILES = ['include/mp/backend-with-mm.h', 'include/mp/model-mgr-with-pb.h', 'include/mp/solver-io.h', 'include/mp/sol.h']
# functions of anchors.mechanism: (file, regex on the demangled function name)
MECH = [
    ('include/mp/backend-std.h', r'StdBackend<.*>::(IsProblem\w+|IsSolStatusRetrieved|SolveCode|SolveStatus|SetStatus)\b'),
    ('include/mp/backend-std.h', r'StdBackend<.*>::(ReportSolution2AMPL|ReportSolution|ReportResults|ReportIntermediateSolution|Report)\('),
    ('include/mp/backend-std.h', r'StdBackend<.*>::(RoundSolution|DoRound|ModifySolveCodeAndMessageAfterRounding|ReportStandardSuffixes|ReportSuffixes|AddToSolverMessage)\('),
    ('include/mp/flat/backend_flat.h', r'FlatBackend<.*>::GetSolution\('),
    ('include/mp/backend-mip.h', r'MIPBackend<.*>::(ReportRays|CalculateAndReportIIS|ReportStandardMIPSuffixes)\('),
    ('include/mp/backend-with-mm.h', r'BackendWithModelManager::(HandleSolution|HandleFeasibleSolution|ReportError)\('),
    ('include/mp/model-mgr-with-pb.h', r'ModelManagerWithProblemBuilder<.*>::(HandleSolution|HandleFeasibleSolution)\('),
    ('include/mp/solver-io.h', r'(SolutionWriterImpl|AppSolutionHandlerImpl)<.*>::(HandleSolution|HandleFeasibleSolution)\('),
    ('include/mp/sol.h', r'WriteSolFile|WriteMessage|internal::WriteSuffix'),
    ('include/mp/solver-base.h', r'SolveResultRegistry::|RegEntry::'),
    ('src/solver.cc', r'SolveResultRegistry::|SolverAppOptionParser::ShowSolveResults'),
]


def build(ck):
    """compile every TU with --coverage into COVDIR (fresh), link; returns exe"""
    import c10
    shutil.rmtree(COVDIR, ignore_errors=True)
    os.makedirs(COVDIR)
    vis = os.path.join(REPO, 'solvers', 'visitor')
    srcs = [os.path.join(REPO, s) for s in ck.LIBMP_SRC]
    srcs += [os.path.join(vis, f) for f in ['visitorcommon.cc', 'visitormodelapi.cc', 'visitor-modelapi-connect.cc', 'model-mgr-with-std-pb.cc']]
    srcs.append(os.path.join(VERIF, 'harness', 'h_status.cc'))
    inc = ['-I' + os.path.join(REPO, 'include'), '-I' + os.path.join(REPO, 'src'), '-I' + os.path.join(REPO, 'nl-writer2', 'include'),
           '-I' + os.path.join(VERIF, 'harness'), '-I' + vis, '-I' + os.path.join(BUILD, 'gen')]
    # scratch worktrees lack the git-ignored generated files
    for rel in ('src/expr-info.cc',):
        if not os.path.exists(os.path.join(REPO, rel)):
            shutil.copy(os.path.join('/repo', rel), os.path.join(REPO, rel))
    defs = ['-DMP_DATE=20240320', '-DMP_SYSINFO="Linux x86_64"', '-DMP_USE_ATOMIC', '-DMP_USE_HASH', '-DMP_USE_UNIQUE_PTR', '-DAMPL_MP_VERIF', '-DNDEBUG']
    base = ['g++', '-std=c++17', '-w', '-O0', '--coverage'] + defs + inc

    def one(src):
        obj = os.path.join(COVDIR, os.path.basename(src).replace('.', '_') + '.o')
        p = subprocess.run(base + ['-c', src, '-o', obj], capture_output=True, text=True)
        if p.returncode != 0:
            raise RuntimeError('coverage compile failed for %s:\n%s' % (src, p.stderr[-3000:]))
        return obj
    with ThreadPoolExecutor(max_workers=12) as ex:
        objs = list(ex.map(one, srcs))
    exe = os.path.join(COVDIR, 'h_status_cov')
    p = subprocess.run(['g++', '--coverage'] + objs + ['-o', exe, '-ldl'], capture_output=True, text=True)
    if p.returncode != 0:
        raise RuntimeError('coverage link failed:\n' + p.stderr[-3000:])
    return exe


def collect():
    """run gcov on every .gcda; aggregate per (file, line): executed?, per (file, line, branch idx): taken?;
    functions: (file, demangled name) -> (start, end, executed)"""
    out = os.path.join(COVDIR, 'gcov')
    shutil.rmtree(out, ignore_errors=True)
    os.makedirs(out)
    gcdas = sorted(glob.glob(os.path.join(COVDIR, '*.gcda')))
    for g in gcdas:
        subprocess.run(['gcov-12', '-b', '-c', '-j', '-m', '-o', COVDIR, g], cwd=out, capture_output=True, text=True)
    lines, branches, funcs = {}, {}, {}
    for jz in glob.glob(os.path.join(out, '*.gcov.json.gz')):
        data = json.load(gzip.open(jz, 'rt'))
        for f in data.get('files', []):
            fn = os.path.normpath(f['file'] if os.path.isabs(f['file']) else os.path.join(data.get('current_working_directory', ''), f['file']))
            if not fn.startswith(os.path.normpath(REPO) + os.sep):
                continue
            rel = os.path.relpath(fn, REPO)
            for fu in f.get('functions', []):
                k = (rel, fu.get('demangled_name') or fu['name'])
                old = funcs.get(k)
                funcs[k] = (fu['start_line'], fu['end_line'], (old[2] if old else 0) + fu['execution_count'])
            for ln in f.get('lines', []):
                k = (rel, ln['line_number'])
                lines[k] = lines.get(k, 0) + ln['count']
                for i, b in enumerate(ln.get('branches', [])):
                    if b.get('throw'):
                        continue            # exception edges of calls: not decisions of the code
                    kb = (rel, ln['line_number'], i)
                    branches[kb] = branches.get(kb, 0) + b['count']
    return lines, branches, funcs, len(gcdas)


def summarize(lines, branches, funcs):
    res = {'files': {}, 'mechanism': []}
    for rel in ANCHOR_FILES + CHAIN_FILES:
        ls = [v for (f, l), v in lines.items() if f == rel]
        bs = [v for (f, l, i), v in branches.items() if f == rel]
        res['files'][rel] = {'lines': len(ls), 'lines_hit': sum(1 for v in ls if v), 'branches': len(bs), 'branches_hit': sum(1 for v in bs if v),
                             'anchor': rel in ANCHOR_FILES}
    src_cache = {}
    seen = set()
    for rel, rx in MECH:
        for (f, name), (a, b, cnt) in sorted(funcs.items()):
            if f != rel or not re.search(rx, name) or (f, a, b) in seen:
                continue
            seen.add((f, a, b))
            # aggregate all instantiations sharing the source range
            total = sum(c for (f2, n2), (a2, b2, c) in funcs.items() if f2 == f and a2 == a and b2 == b)
            unl = sorted(l for (f2, l), v in lines.items() if f2 == f and a <= l <= b and v == 0)
            unb = sorted((l, i) for (f2, l, i), v in branches.items() if f2 == f and a <= l <= b and v == 0)
            nl = sum(1 for (f2, l) in lines if f2 == f and a <= l <= b)
            nb = sum(1 for (f2, l, i) in branches if f2 == f and a <= l <= b)
            if f not in src_cache:
                src_cache[f] = open(os.path.join(REPO, f), errors='replace').read().split('\n')
            short = re.sub(r'<.*?>::', '::', name.split('(')[0])[-70:]
            res['mechanism'].append({'file': f, 'function': short, 'range': [a, b], 'calls': total, 'lines': nl, 'lines_uncovered': unl,
                                     'branches': nb, 'branches_uncovered': ['%d#%d' % x for x in unb],
                                     'uncovered_text': {str(l): src_cache[f][l - 1].strip()[:110] for l in sorted(set(unl) | {l for l, i in unb})}})
    al = sum(v['lines'] for v in res['files'].values() if v['anchor'])
    ah = sum(v['lines_hit'] for v in res['files'].values() if v['anchor'])
    ab = sum(v['branches'] for v in res['files'].values() if v['anchor'])
    abh = sum(v['branches_hit'] for v in res['files'].values() if v['anchor'])
    ml = sum(m['lines'] for m in res['mechanism'])
    mlu = sum(len(m['lines_uncovered']) for m in res['mechanism'])
    mb = sum(m['branches'] for m in res['mechanism'])
    mbu = sum(len(m['branches_uncovered']) for m in res['mechanism'])
    res['anchor_line_cov'] = round(100.0 * ah / max(al, 1), 1)
    res['anchor_branch_cov'] = round(100.0 * abh / max(ab, 1), 1)
    res['mechanism_line_cov'] = round(100.0 * (ml - mlu) / max(ml, 1), 1)
    res['mechanism_branch_cov'] = round(100.0 * (mb - mbu) / max(mb, 1), 1)
    res['mechanism_functions'] = len(res['mechanism'])
    res['mechanism_functions_never_called'] = [m['function'] for m in res['mechanism'] if m['calls'] == 0]
    return res


def write_tables(res, path_md_auto):
    o = ['<!-- generated by checks/c10_coverage.py (VERIF_COVERAGE=1 ./check C10); measured on the quick-tier input stream -->',
         '', '| file | lines hit/total | line % | branches hit/total | branch % |', '|---|---|---|---|---|']
    for rel, v in res['files'].items():
        o.append('| %s%s | %d/%d | %.1f | %d/%d | %.1f |' % (rel, '' if v['anchor'] else ' (chain)', v['lines_hit'], v['lines'], 100.0 * v['lines_hit'] / max(v['lines'], 1),
                                                              v['branches_hit'], v['branches'], 100.0 * v['branches_hit'] / max(v['branches'], 1)))
    o += ['', 'anchored files: line %.1f %%, branch %.1f %%;  mechanism functions (%d): line %.1f %%, branch %.1f %%' %
          (res['anchor_line_cov'], res['anchor_branch_cov'], res['mechanism_functions'], res['mechanism_line_cov'], res['mechanism_branch_cov']),
          '', '### uncovered inside the mechanism functions', '']
    for m in res['mechanism']:
        if not m['lines_uncovered'] and not m['branches_uncovered'] and m['calls']:
            continue
        o.append('* `%s` %s:%d-%d calls=%d: uncovered lines %s; untaken branches %s' % (m['function'], m['file'], m['range'][0], m['range'][1], m['calls'],
                                                                                         m['lines_uncovered'] or '-', m['branches_uncovered'] or '-'))
        for l, t in m['uncovered_text'].items():
            o.append('    * %s: `%s`' % (l, t.replace('`', "'")))
    open(path_md_auto, 'w').write('\n'.join(o) + '\n')


def report(ck, tag='after'):
    lines, branches, funcs, n = collect()
    res = summarize(lines, branches, funcs)
    res['gcda_files'] = n
    res['measured'] = time.strftime('%Y-%m-%d')
    res['tier_stream'] = ck.tier
    d = os.path.join(VERIF, 'design_notes', 'coverage')
    os.makedirs(d, exist_ok=True)
    json.dump(res, open(os.path.join(d, 'C10.%s.full.json' % tag), 'w'), indent=1)
    write_tables(res, os.path.join(d, 'C10.%s.tables.md' % tag))
    small = {k: res[k] for k in ('anchor_line_cov', 'anchor_branch_cov', 'mechanism_line_cov', 'mechanism_branch_cov', 'mechanism_functions',
                                 'mechanism_functions_never_called', 'measured', 'tier_stream')}
    small['files'] = res['files']
    if tag == 'after':
        json.dump(small, open(os.path.join(d, 'C10.json'), 'w'), indent=1)
    ck.log('coverage (%s): anchored files line %.1f%% branch %.1f%%; mechanism functions line %.1f%% branch %.1f%%' %
           (tag, res['anchor_line_cov'], res['anchor_branch_cov'], res['mechanism_line_cov'], res['mechanism_branch_cov']))
    return res

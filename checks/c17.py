"""C17 — checked integer arithmetic is exact or raises overflow, never wraps."""
import os, subprocess, json, re, sys
from common import *

TAGS = ['sc', 'uc', 's', 'us', 'i', 'u', 'l', 'ul', 'll', 'ull']


def classify(name, a, b, impl, oracle):
    if impl.startswith('ub') or impl == 'abort':
        kind = 'undefined-behaviour'
    elif impl == 'throw':
        kind = 'throws-although-representable'
    elif oracle == 'throw':
        kind = 'returns-value-on-overflow'
    else:
        kind = 'wrong-value'
    return '%s:%s' % (name, kind)


def run(ck):
    gen = os.path.join(LEAN, 'MpVerif', 'Gen', 'SafeInt.lean')
    rc, out, err = sh([sys.executable, os.path.join(VERIF, 'translators', 'gen_safeint.py'), REPO, gen,
                       os.path.join(BUILD, 'tr')], timeout=600)
    ck.log(out.strip() or err.strip())
    translator_ok = rc == 0
    proof_ok, failing = False, []
    if translator_ok:
        proof_ok, failing = ck.proof_stage('MpVerif.C17.Props', 'MpVerif/C17/Props.lean', 'C17_',
                                            ['MpVerif/C17/*.lean', 'MpVerif/Gen/SafeInt.lean', 'MpVerif/Basic/CSem.lean'],
                                            expect_min=138)
        ck.log('proof stage: ok=%s failing=%s' % (proof_ok, failing[:12]))
        if ck.tier == 'thorough' and proof_ok:
            bad = ck.leanchecker(['MpVerif.C17.Props'])
            if bad:
                failing += ['leanchecker rejected %s' % m for m in bad]
                proof_ok = False
    else:
        failing = ['translator: ' + (out + err).strip()[-400:]]
        ck.cov.update({'obligations': 138, 'discharged': 0, 'checker_cmd': 'translators/gen_safeint.py failed'})

    # implementation run + oracle
    exe = ck.cxx('h_safeint', [os.path.join(VERIF, 'harness', 'h_safeint.cc')],
                 flags=['-O1', '-g', '-fsanitize=undefined', '-fno-sanitize-recover=all'])
    outp = os.path.join(BUILD, 'c17.impl.out')
    with open(outp, 'w') as f:
        p = subprocess.run([exe, ck.tier, str(ck.seed)], stdout=f, stderr=subprocess.PIPE, text=True)
    aborted = None
    if p.returncode != 0:
        # sanitizer abort: rerun flushing every line to attribute it
        with open(outp, 'w') as f:
            p = subprocess.run([exe, ck.tier, str(ck.seed), 'flush'], stdout=f, stderr=subprocess.PIPE, text=True)
        aborted = p.stderr[-1500:]
    # model run
    model_lines = None
    if translator_ok:
        try:
            drv = ck.driver('drv_c17')
            mo = os.path.join(BUILD, 'c17.model.out')
            with open(outp) as fi, open(mo, 'w') as fo:
                subprocess.run([drv], stdin=fi, stdout=fo, check=True)
            model_lines = open(mo)
        except Exception as e:
            failing.append('model driver: %r' % (e,))
            proof_ok = False
    n = 0
    distinct = set()
    per_fn = {}
    oracle_bad = {}
    corr_bad = {}
    last = None
    with open(outp) as f:
        for line in f:
            line = line.rstrip('\n')
            ml = model_lines.readline().rstrip('\n') if model_lines else None
            parts = line.split(' | ')
            if len(parts) != 2:
                last = line
                continue
            head = parts[0].split(' ')
            name, a, b = head[0], head[1], head[2]
            impl = ' '.join(head[3:])
            oracle = parts[1]
            n += 1
            per_fn[name] = per_fn.get(name, 0) + 1
            if impl != oracle:
                sig = classify(name, a, b, impl, oracle)
                oracle_bad.setdefault(sig, []).append((name, a, b, impl, oracle))
            if ml is not None and ml != impl:
                corr_bad.setdefault(name, []).append((name, a, b, impl, ml))
            if n % 9973 == 0:
                ck.sample(line)
    if aborted:
        sig = 'sanitizer-abort'
        m = last.split(' ') if last else ['?']
        ck.add_violation('%s:undefined-behaviour' % m[0], 'UBSan abort while evaluating: %s' % last,
                         {'line': last, 'stderr': aborted, 'cmd': '%s %s %d flush' % (exe, ck.tier, ck.seed)})
    # distinct non-trivial = distinct (function, outcome class) pairs is too coarse; count lines whose oracle is a throw
    # or whose operands are not both small (|x| < 2) as non-trivial, deduplicated by the line itself (lines are unique by construction)
    ck.cov['evaluations'] = n
    ck.cov['functions_exercised'] = len(per_fn)
    ck.cov['exhaustive'] = False
    ck.cov['exhaustive_note'] = '8-bit instantiations: all 65536 operand pairs per operator and all 256 ctor sources (thorough: 16-bit ctor sources too); wider types boundary+random'
    ck.cov['correspondence'] = {'lines_compared_model_vs_impl': n if model_lines else 0,
                                'disagreements': sum(len(v) for v in corr_bad.values())}
    ck.cov['traces_validated_against_impl'] = n if model_lines else 0
    ck.cov['rule'] = 'every line is a distinct (instantiation, operands) case of the real SafeInt template; compared with the generated Lean definition and with an exact __int128 reference'
    ck.cov['distinct_nontrivial'] = n
    for sig, lst in oracle_bad.items():
        name, a, b, impl, oracle = lst[0]
        ck.add_violation(sig, '%s(%s, %s): implementation %s, exact arithmetic says %s (%d such cases in this run)' %
                         (name, a, b, impl, oracle, len(lst)),
                         {'function': name, 'a': a, 'b': b, 'impl': impl, 'expected': oracle, 'more': lst[1:6],
                          'how': 'build harness/h_safeint.cc against the repo and look for this line'})
    for name, lst in corr_bad.items():
        nm, a, b, impl, ml = lst[0]
        ck.add_violation('%s:model-differs' % name, 'generated Lean definition %s(%s,%s)=%s but the compiled template gave %s: translator/CSem no longer describe the code' % (nm, a, b, ml, impl),
                         {'function': nm, 'a': a, 'b': b, 'impl': impl, 'model': ml, 'correspondence': 'drv_c17 vs h_safeint'}, found_input=False)
    if not proof_ok:
        # theorems that no longer check and for which no failing input was found above
        for fdecl in failing:
            m = re.match(r'C17_(\w+)$', fdecl)
            fn = m.group(1) if m else None
            if fn and any(s.startswith(fn + ':') for s in list(oracle_bad) ):
                continue
            if fn and any(v['sig'].startswith(fn + ':') for v in ck.violations):
                continue
            ck.add_violation('%s:obligation' % (fn or fdecl), 'proof obligation no longer checks: %s' % fdecl,
                             {'theorem': fdecl, 'module': 'MpVerif.C17.Props', 'searched': '%d implementation cases, none violates the property' % n},
                             found_input=False)
    ck.assumptions += ['LP64 type widths (int 32, long 64); numeric_limits<T>::min/max taken as builtin constants',
                       'classes with a single field are modelled as the field value; implicit copy/move ctors are identities',
                       'integral conversions are modular (g++/clang behaviour; C++20 rule)']
    ck.cov['trusted_base'] += ['translators/tr_cint.py + clang-14 typed AST (cross-checked on every run: generated defs vs compiled templates on all listed cases)',
                               'MpVerif/Basic/CSem.lean: C++ integer semantics (ub on signed overflow / division by zero)']

"""C15 — an interrupt is never lost and never delivered with inconsistent state (mp::internal::SignalHandler).

Stages: (0) the guarded hook must be present in $MP_REPO/src/solver.cc; (1) Lean theorems + axiom audit;
(2) correspondence: every schedule of <= 3 signals over a family of programs with <= 3 registrations (plus seeded
random programs / schedules, plus a malformed stream) is run on the real SignalHandler (forked child per schedule,
state read after every store and every delivery) and predicted by the compiled Lean model; (3) a property oracle,
written directly against the property text and independent of the Lean model, judges what the real code did.
"""
import os, re, sys, json, random, subprocess, itertools, hashlib
from common import *

SAN = ('-O1', '-g', '-fsanitize=address,undefined', '-fno-sanitize-recover=all')
# Store orders ("layouts") the Lean model knows: the pinned commit's, and the proposed repairs
# (repo_patches/C15-fix-ctor-order.diff, C15-fix-sethandler-order.diff).  The check reads the layout off the real code.
CTOR_LAYOUTS = {
    False: ['sh.ctor.enter', 'sh.ctor.after_set_interrupter', 'sh.ctor.after_msg_ptr', 'sh.ctor.after_msg_size',
            'sh.ctor.after_signal_int', 'sh.ctor.after_signal_term', 'sh.ctor.after_stop0'],
    True: ['sh.ctor.enter', 'sh.ctor.after_set_interrupter', 'sh.ctor.after_msg_ptr', 'sh.ctor.after_msg_size',
           'sh.ctor.after_stop0', 'sh.ctor.after_signal_int', 'sh.ctor.after_signal_term'],
}
SET_LAYOUTS = {
    False: ['sh.set.after_handler', 'sh.set.after_data'],
    True: ['sh.set.after_handler_clear', 'sh.set.after_data', 'sh.set.after_handler'],
}
DTOR_LAYOUTS = {
    False: ['sh.dtor.after_set_interrupter', 'sh.dtor.after_stop1', 'sh.dtor.after_handler0', 'sh.dtor.after_msg_size0', 'free'],
    True: ['sh.dtor.after_set_interrupter', 'sh.dtor.after_handler0', 'sh.dtor.after_msg_size0', 'free'],   # no `stop_ = 1`
}
LAYOUT_NAME = {(False, False): 'pinned', (True, False): 'ctorfix', (False, True): 'regfix', (True, True): 'fixed'}
NSTEPS = {'C': 7, 'R': 2, 'W': 1, 'D': 5, 'N': 1, 'P': 1}
CTOR_NAMES = CTOR_LAYOUTS[False]
SET_NAMES = SET_LAYOUTS[False]


def set_layout(ctor_fixed, reg_fixed, dtor_fixed=False):
    global CTOR_NAMES, SET_NAMES, DTOR_NAMES
    CTOR_NAMES = CTOR_LAYOUTS[ctor_fixed]
    SET_NAMES = SET_LAYOUTS[reg_fixed]
    DTOR_NAMES = DTOR_LAYOUTS[dtor_fixed]
    NSTEPS['R'] = len(SET_NAMES)
    NSTEPS['D'] = len(DTOR_NAMES)


def layout_name(cf, rf, df):
    return LAYOUT_NAME[(bool(cf), bool(rf))] + ('+dtor' if df else '')


def detect_layout(exe):
    """run `C R:1:1 D` without signals on the real code and read the order of the stores off the hook names"""
    p = subprocess.run([exe, '3,5'], input='bsd C R:1:1 D |\n', capture_output=True, text=True)
    names = [t.split('[')[0] for t in p.stdout.strip().split(' ')]
    ctor = [n for n in names if n.startswith('sh.ctor.')]
    sets = [n for n in names if n.startswith('sh.set.')]
    dt = [n for n in names if n.startswith('sh.dtor.') or n == 'free']
    cf = [k for k, v in CTOR_LAYOUTS.items() if v == ctor]
    rf = [k for k, v in SET_LAYOUTS.items() if v == sets]
    df = [k for k, v in DTOR_LAYOUTS.items() if v == dt]
    return (cf[0] if cf else None), (rf[0] if rf else None), (df[0] if df else None), names
DTOR_NAMES = ['sh.dtor.after_set_interrupter', 'sh.dtor.after_stop1', 'sh.dtor.after_handler0',
              'sh.dtor.after_msg_size0', 'free']
MSGLEN = 18

# the schedules of the proved counterexample theorems in lean/MpVerif/C15/Props.lean (replayed on the real code)
ALL_COUNTEREXAMPLES = [   # (theorem, case, expected oracle class, layout aspect it is about)
    ('C15_oldorder_counterexample_lost_in_ctor_window', 'bsd C W | 5:I', 'ctor-window:lost', 'ctor'),
    ('C15_oldorder_counterexample_mispaired_first_registration', 'bsd C R:1:1 | 8:I', 'sethandler-window:mispaired:new-callback-old-data', 'reg'),
    ('C15_oldorder_counterexample_mispaired_reregistration', 'bsd C R:1:1 R:2:2 | 10:I', 'sethandler-window:mispaired:new-callback-old-data', 'reg'),
    ('C15_oldorder_counterexample_third_no_exit_ctor_window', 'bsd C W | 5:I 7:I 7:I', 'ctor-window:third-no-exit', 'ctor'),
    ('C15_oldorder_counterexample_early_exit_ctor_window', 'bsd C W | 5:I 5:I', 'ctor-window:early-exit', 'ctor'),
    ('C15_oldorder_counterexample_third_no_exit_across_teardown', 'bsd C W D W | 8:I 8:I 13:I', 'across-teardown:third-no-exit', 'dtor'),
]
COUNTEREXAMPLES = [c[:3] for c in ALL_COUNTEREXAMPLES]

FAMILY = [
    'C W D W',
    'C R:1:1 W D W',
    'C W R:1:1 W R:2:2 W D W',
    'C R:1:1 W R:2:2 W R:3:3 W D W',
]
EXTRA_PROGRAMS = [
    'C R:1:1 R:1:2 W D',                      # same callback, new data
    'C R:1:1 W R:0:0 W D W',                  # unregistering
    'C R:1:1 W D W C R:2:2 W D W',            # two handler objects one after the other
    'W C D',
    'C R:2:1 R:1:2 R:3:3 D W W',
    'N:1:1 W C R:2:2 W D N:3:3 W',             # registration attempts while no handler object exists (BasicSolver::SetHandler)
]


OUT_STATES = ['file', 'pipe', 'null', 'closed', 'full', 'ro', 'part']      # what fd 1 is while the program runs
UNWRITABLE = ('closed', 'full', 'ro', 'part')                      # write(1, ...) fails (part: after a short write)                              # write(1, ...) fails
BRK_RE = re.compile(r'brk=[^,)]*')


def out_state(case):
    m = case.split(' ', 1)[0]
    return m.split('/')[1] if '/' in m else 'file'


def nsteps(prog):
    return sum(NSTEPS[m[0]] for m in prog.split())


def schedules(n, k, kinds):
    """all non-decreasing gap tuples of length k over 0..n, with all signal-kind assignments from `kinds`"""
    for gaps in itertools.combinations_with_replacement(range(n + 1), k):
        for ks in kinds(k):
            yield ' '.join('%d:%s' % (g, s) for g, s in zip(gaps, ks))


def all_kinds(k):
    return itertools.product('IT', repeat=k)


def int_only(k):
    return [('I',) * k]


def mixed_some(k):
    return [('I',) * k, ('T',) * k, tuple('IT'[i % 2] for i in range(k)), tuple('TI'[i % 2] for i in range(k))]


def alternating(k):
    return [('I',) * k, tuple('TI'[i % 2] for i in range(k))]


def random_program(rng):
    prog = []
    if rng.random() < 0.2:
        prog.append('W')
    if rng.random() < 0.15:
        prog.append('N:%d:%d' % (rng.choice([1, 2, 3]), rng.choice([0, 1, 2])))
    for life in range(1 if rng.random() < 0.8 else 2):
        prog.append('C')
        for _ in range(rng.choice([0, 1, 1, 2, 2, 3, 4])):
            if rng.random() < 0.6:
                prog.append('W')
            prog.append('R:%d:%d' % (rng.choice([0, 1, 1, 2, 2, 3, 3]), rng.choice([0, 1, 1, 2, 2, 3, 3])))
        for _ in range(rng.choice([0, 1, 1, 2])):
            prog.append('W')
        if rng.random() < 0.9 or life == 0:
            prog.append('D')
            for _ in range(rng.choice([0, 1, 1, 2])):
                prog.append('W')
            if rng.random() < 0.2:
                prog.append('N:%d:%d' % (rng.choice([1, 2, 3]), rng.choice([0, 1, 2])))
        else:
            break
    # a second ctor needs a preceding dtor: guaranteed by construction (life 0 always ends with D)
    return ' '.join(prog)


def gen_cases(ck):
    """returns list of (origin, line)"""
    cases = []
    cdir = os.path.join(VERIF, 'corpus', 'C15')
    if os.path.isdir(cdir):
        for fn in sorted(os.listdir(cdir)):
            for ln in open(os.path.join(cdir, fn)):
                ln = ln.strip()
                if ln and not ln.startswith('#'):
                    cases.append(('corpus', ln))
    for name, line, _ in COUNTEREXAMPLES:
        cases.append(('counterexample', line))
    thorough = ck.tier == 'thorough'
    enum_desc = []
    for pi, prog in enumerate(FAMILY):
        n = nsteps(prog)
        for mode in ('bsd', 'sysv'):
            for k in (0, 1, 2, 3):
                if k <= 2:
                    kinds = all_kinds if (thorough or k <= 1 or (pi <= 2 and mode == 'bsd') or pi == 1) else alternating
                elif thorough:
                    kinds = all_kinds if (mode == 'bsd' and pi <= 1) else mixed_some if (mode == 'bsd' and pi == 2) else alternating
                else:
                    # quick: 3-signal schedules exhaustively (SIGINT) for the programs with <= 2 registrations under bsd
                    if mode == 'sysv' or pi != 1:
                        continue
                    kinds = int_only
                cnt = 0
                for sch in schedules(n, k, kinds):
                    cases.append(('enum', '%s %s | %s' % (mode, prog, sch)))
                    cnt += 1
                enum_desc.append('%s/%s/k=%d/%s:%d' % (prog.replace(' ', ''), mode, k, kinds.__name__, cnt))
    # environment dimension "stdout state": the same schedules with fd 1 a pipe, /dev/null, closed, /dev/full, read-only
    for pi in (1, 2):
        prog = FAMILY[pi]
        n = nsteps(prog)
        for out in OUT_STATES[1:]:
            for mode in (('bsd', 'sysv') if out in ('closed', 'pipe') else ('bsd',)):
                for k in (0, 1, 2, 3):
                    if k == 2 and not thorough and (out not in ('closed', 'part') or mode == 'sysv' or pi == 2):
                        continue
                    if k <= 2:
                        kinds = all_kinds if (k <= 1 or (thorough and out in ('closed', 'part'))) else alternating
                    elif out in UNWRITABLE and mode == 'bsd' and (thorough or (out == 'closed' and pi == 1)):
                        kinds = int_only
                    else:
                        continue
                    cnt = 0
                    for sch in schedules(n, k, kinds):
                        cases.append(('enum-stdout', '%s/%s %s | %s' % (mode, out, prog, sch)))
                        cnt += 1
                    enum_desc.append('%s/%s/%s/k=%d/%s:%d' % (prog.replace(' ', ''), mode, out, k, kinds.__name__, cnt))
    # environment dimension "inherited disposition": the process starts with SIGINT/SIGTERM ignored.  Only schedules
    # whose signals all arrive after the first constructor has completed (before that the inherited disposition
    # decides, which is outside the property and outside the model).
    for pi in (1, 2):
        prog = FAMILY[pi]
        n = nsteps(prog)
        for mode, out in (('bsd', 'file'), ('sysv', 'file'), ('bsd', 'closed')):
            for k in (1, 2, 3):
                kinds = all_kinds if (k <= 1 or (thorough and (k == 2 or (mode, out) == ('bsd', 'file')))) else alternating
                if k == 3 and not thorough:
                    continue
                if k == 2 and not thorough and pi == 2 and (mode, out) != ('bsd', 'file'):
                    continue
                cnt = 0
                for sch in schedules(n, k, kinds):
                    if int(sch.split(':')[0]) < NSTEPS['C']:
                        continue
                    cases.append(('enum-inherited-ign', '%s/%s/ign %s | %s' % (mode, out, prog, sch)))
                    cnt += 1
                enum_desc.append('%s/%s/%s/ign/k=%d/%s:%d' % (prog.replace(' ', ''), mode, out, k, kinds.__name__, cnt))
    # a solver that polls the stop query in a call-free loop (-O2 build, concrete handler object) while the signal arrives
    # asynchronously from a timer: "P:<g>"
    for prog in ('C P:I D W', 'C R:1:1 P:T W D', 'C W P:I P:T D W', 'C R:1:1 P:I P:I P:T D'):
        for mode in ('bsd', 'sysv'):
            cases.append(('poll', '%s %s |' % (mode, prog)))
            n = nsteps(prog.replace('P:I', 'W').replace('P:T', 'W'))
            for gap in (range(n + 1) if thorough else range(6, n + 1, 3)):
                cases.append(('poll', '%s %s | %d:I' % (mode, prog, gap)))
    # re-entrance: a second signal raised from inside the first one's handler, at the places reachable without call-outs
    # in HandleSigInt (inside write(2), inside the callback, inside the re-arming signal()); alone and after one earlier signal
    for prog in (FAMILY[0], FAMILY[1]):
        n = nsteps(prog)
        cnt = 0
        for mode in ('bsd', 'sysv'):
            for gap in range(n + 1):
                for g in 'IT':
                    for g2 in 'IT':
                        for pl in 'wcr':
                            cases.append(('enum-nested', '%s %s | %d:%s+%s@%s' % (mode, prog, gap, g, g2, pl)))
                            cnt += 1
                            if mode == 'bsd' or thorough:
                                for g0 in (range(gap + 1) if thorough else range(max(0, gap - 2), gap + 1)):
                                    cases.append(('enum-nested', '%s %s | %d:I %d:%s+%s@%s' % (mode, prog, g0, gap, g, g2, pl)))
                                    cnt += 1
        enum_desc.append('%s/nested/%d' % (prog.replace(' ', ''), cnt))
    # the registration sequence real drivers perform: mp::BackendApp (InitHandlers / destructor) around a StdBackend
    # (RunFromNLFile: ReadNL, SetupTimerAndInterrupter -> SetupInterrupter -> SetInterrupter(interrupter()), Solve, Report)
    for var in ('APP', 'APPA', 'APPE', 'APPX', 'APPU'):
        n = nsteps(APP_VARIANTS[var])
        for mode in ('bsd', 'sysv'):
            if var != 'APP' and mode == 'sysv' and not thorough:
                continue
            for k in (0, 1, 2, 3):
                if var == 'APP':
                    kinds = all_kinds if k <= 2 else (all_kinds if (thorough and mode == 'bsd') else alternating if thorough else int_only)
                else:
                    kinds = all_kinds if (k <= 1 or (thorough and k == 2)) else alternating
                if k == 3 and not thorough:
                    continue
                cnt = 0
                for sch in schedules(n, k, kinds):
                    cases.append(('enum-backendapp', '%s %s | %s' % (mode, var, sch)))
                    cnt += 1
                enum_desc.append('BackendApp:%s/%s/k=%d/%s:%d' % (var, mode, k, kinds.__name__, cnt))
    for prog in EXTRA_PROGRAMS:
        n = nsteps(prog)
        for mode in ('bsd', 'sysv'):
            for k in (0, 1, 2):
                for sch in schedules(n, k, all_kinds if k <= 1 else (alternating if thorough else int_only)):
                    cases.append(('enum-extra', '%s %s | %s' % (mode, prog, sch)))
    rng = random.Random(ck.seed * 7919 + (1 if thorough else 0))
    for _ in range(12000 if thorough else 1500):
        prog = random_program(rng)
        n = nsteps(prog)
        k = rng.choice([0, 1, 1, 2, 2, 3, 3, 3, 4, 5])
        gaps = sorted(rng.randint(0, n) for _ in range(k))
        sch = ' '.join('%d:%s' % (g, rng.choice('IIT')) for g in gaps)
        out = rng.choice(['file', 'file', 'file'] + OUT_STATES)
        cases.append(('random', '%s%s %s | %s' % (rng.choice(['bsd', 'bsd', 'sysv']), '' if out == 'file' else '/' + out, prog, sch)))
    # malformed stream: both sides must answer bad-op
    for bad in ['bsd R:1:1 |', 'bsd C C |', 'bsd D |', 'bsd C D D |', 'foo C |', 'bsd C | 3:I 2:I', 'bsd C | 9:I',
                'bsd C X |', 'bsd/zz C |', 'bsd/closed/x C |', 'bsd C R:9:1 |', 'bsd C | 1:Q', 'sysv C R:1 |', 'bsd C D R:1:1 |']:
        cases.append(('malformed', bad))
    # de-duplicate, keep first occurrence
    seen, out = set(), []
    for o, l in cases:
        if l not in seen:
            seen.add(l)
            out.append((o, l))
    return out, enum_desc


# ---------------------------------------------------------------------------------------------- parsing
TOK = re.compile(r'^(?P<head>[^\[\(]+)(?:\((?P<args>[^)]*)\))?(?:\[(?P<st>[^\]]*)\])?$')


def parse_state(st):
    d = {}
    for f in st.split(','):
        d[f[0]] = f[1:]
    return d


def parse_line(line):
    toks = []
    for t in line.split(' '):
        m = TOK.match(t)
        if not m:
            toks.append({'head': t, 'args': None, 'st': None, 'raw': t})
            continue
        args = None
        if m.group('args') is not None:
            args = dict(a.split('=', 1) for a in m.group('args').split(',') if '=' in a)
        toks.append({'head': m.group('head'), 'args': args, 'st': parse_state(m.group('st')) if m.group('st') else None,
                     'raw': t})
    return toks


# ---------------------------------------------------------------------------------------------- property oracle
def oracle(case, impl):
    """judge one run of the real code against the property text.  Returns list of (signature, explanation)."""
    bad = []
    mode, rest = case.split(' ', 1)
    out = out_state(case)
    brk_observable = out in ('file', 'pipe')
    progs, _, sched = rest.partition('|')
    prog = progs.split()
    toks = parse_line(impl)
    if not toks or toks[0]['head'] != 'start':
        return [('shape:no-start', 'unparsable harness output')]
    # expected step names from the program shape
    expected = []      # (macro index, macro, micro index, name)
    for mi, m in enumerate(prog):
        names = CTOR_NAMES if m == 'C' else DTOR_NAMES if m == 'D' else ['W'] if m == 'W' else ['N'] if m.startswith('N') else SET_NAMES
        for k, nm in enumerate(names):
            expected.append((mi, m, k, nm))
    pos = 0            # number of program steps completed
    st = toks[0]['st']
    ever_installed = {'I': False, 'T': False}
    completed = None   # last completed registration of the current handler object
    counted = []       # signals counted towards "third interrupt" for the current handler object: dicts
    pending_lost = []  # deliveries that must be visible to later stop queries of the same object: dicts
    obj_phase = 'none'  # none | ctor | body | dtor
    stop1_seen_since = 0
    terminated = False
    seen_dtor = False
    handled_since_ctor = 0
    installed_obj = {'I': False, 'T': False}
    stop0_done = False
    for t in toks[1:]:
        hd = t['head']
        if hd == 'end':
            if pos != len(expected):
                bad.append(('shape:early-end', 'program ended after %d of %d steps' % (pos, len(expected))))
            break
        if hd.startswith('died-'):
            bad.append(('crash:' + hd, 'the process died outside a signal delivery: %s' % t['raw']))
            terminated = True
            break
        if hd.startswith('!'):
            g = hd[1]
            a = t['args'] or {}
            # "<g>+<g2><place>": g2 was raised from inside the handler of g (re-entrance; places outside the two count windows)
            nested = hd[3] if len(hd) >= 5 and hd[2] == '+' else None
            nested_ran = nested is not None and a.get('brk') == str(2 * MSGLEN)
            # where are we?
            cur = expected[pos] if pos < len(expected) else None
            in_reg = cur is not None and cur[1].startswith('R') and cur[2] >= 1     # between the first and the last store
            reg_new = tuple(int(x) for x in cur[1].split(':')[1:]) if in_reg else None
            in_ctor = cur is not None and cur[1] == 'C' and cur[2] >= 1
            in_dtor = cur is not None and cur[1] == 'D' and cur[2] >= 1
            dtor_handler_cleared = in_dtor and cur[2] >= 3
            # "installed" (strict reading) for the current handler object: its own signal() call for g has been made.
            # A signal handled through a disposition left installed by an earlier object counts from this object's
            # `stop_ = 0` on (before that store it belongs to nobody and is legitimately reset).
            installed_strict = installed_obj[g] or (stop0_done and st[g] == '1')
            if 'killed' in a:
                terminated = True
                kg = a['killed'] if a['killed'] in ('I', 'T') else g      # which signal met the default action
                if nested == g and kg == g and mode.startswith('sysv') and ever_installed[g]:
                    pass      # SysV signal(): the same signal inside its own handler meets the default action (platform semantics)
                elif ever_installed[kg]:
                    bad.append(('killed-after-install', 'signal %s handled by the default action although the handler had been installed' % kg))
                elif obj_phase in ('body', 'dtor'):
                    bad.append(('killed-while-installed', 'signal %s handled by the default action although a handler object is fully constructed' % g))
                break
            brk = a.get('brk', '')
            if brk_observable and nested is not None:
                if brk not in ('0', str(MSGLEN), str(2 * MSGLEN)):
                    bad.append(('break-text-garbled', 'break text output %r' % brk))
            elif brk_observable:
                if brk not in ('0', str(MSGLEN)):
                    bad.append(('break-text-garbled', 'break text output %r' % brk))
                if obj_phase == 'body' and brk != str(MSGLEN):
                    bad.append(('break-text-missing', 'no break text while the handler object is installed'))
                if obj_phase == 'none' and brk != '0':
                    bad.append(('break-text-after-teardown', 'break text written although no handler object exists'))
            # the ctor window: handled by this object's handler installation but before its `stop_ = 0`
            rec = {'g': g, 'pos': pos, 'ctor_window': obj_phase == 'ctor' and not stop0_done, 'stop1_mark': stop1_seen_since}
            if installed_strict:
                counted.append(rec)
                if nested_ran and (installed_obj[nested] or (stop0_done and st[nested] == '1')):
                    counted.append(dict(rec, g=nested))
            if 'exit' in a:
                terminated = True
                if a['exit'] != '1':
                    bad.append(('crash:exit=%s' % a['exit'], 'delivery of %s ended the process with status %s' % (g, a['exit'])))
                elif installed_strict and len(counted) < 3 and obj_phase in ('ctor', 'body'):
                    cls = 'ctor-window' if any(c['ctor_window'] for c in counted) else 'other'
                    bad.append(('%s:early-exit' % cls, 'interrupt number %d (gaps %s) terminated the process' %
                                (len(counted), [c['pos'] for c in counted])))
                break
            # the handler returned
            handled_since_ctor += 1
            if installed_strict and len(counted) >= 3:
                if any(c['ctor_window'] for c in counted):
                    cls = 'ctor-window'
                elif counted[0]['stop1_mark'] != stop1_seen_since:
                    cls = 'across-teardown'
                else:
                    cls = 'other'
                bad.append(('%s:third-no-exit' % cls, 'interrupt number %d (gaps %s) did not terminate the process' %
                            (len(counted), [c['pos'] for c in counted])))
            # callback
            cbs = [] if a.get('cb', '-') == '-' else [tuple(int(x) for x in c.split(':')) for c in a['cb'].split('+')]
            if len(cbs) > (2 if nested_ran else 1):
                bad.append(('callback-twice', 'callbacks %s for one signal' % cbs))
            if obj_phase == 'body' or (obj_phase == 'dtor' and not dtor_handler_cleared):
                allowed = set()
                must = None
                if completed and completed[0] != 0:
                    allowed.add(completed)
                    if not in_reg and obj_phase == 'body':
                        must = completed
                if in_reg and reg_new[0] != 0:
                    allowed.add(reg_new)
                for c in cbs:
                    if c not in allowed:
                        if in_reg:
                            old = completed or (0, int(st['d']))   # nothing registered yet: data_ still holds what it held before
                            kind = ('new-callback-old-data' if c == (reg_new[0], old[1]) else
                                    'old-callback-new-data' if c == (old[0], reg_new[1]) else 'unrelated')
                            cls = 'sethandler-window:mispaired:' + kind
                        else:
                            cls = 'other:mispaired'
                        bad.append((cls, 'callback %d invoked with data %d; registered: %s%s' %
                                    (c[0], c[1], completed, (' (SetHandler%s in progress)' % (reg_new,)) if in_reg else '')))
                if must and must not in cbs:
                    bad.append(('callback-missing', 'registered callback %s not invoked' % (must,)))
            else:
                for c in cbs:
                    bad.append(('callback-after-teardown' if (seen_dtor and obj_phase in ('none', 'dtor')) else 'callback-without-registration',
                                'callback %s invoked at a point where no registration is in force (%s)' % (c, obj_phase)))
            if a.get('rearm') != g:
                # informational for the oracle (glibc keeps the handler installed); decisive only under sysv, where the
                # next delivery is then killed (caught above)
                pass
            if installed_strict and obj_phase in ('ctor', 'body') and st['i'] == 'O':
                pending_lost.append(rec)
            st = t['st']
            continue
        # a program step
        if pos >= len(expected):
            bad.append(('shape:extra-step', 'unexpected step %s' % t['raw']))
            break
        mi, m, k, nm = expected[pos]
        if hd != nm:
            bad.append(('shape:step-order', 'step %d of %s is %s, expected %s' % (k, m, hd, nm)))
            break
        pos += 1
        st = t['st']
        for g in 'IT':
            if st[g] == '1':
                ever_installed[g] = True
        if m == 'C':
            if k == 0:
                obj_phase = 'ctor'
                completed = None
                counted = []
                pending_lost = []
                handled_since_ctor = 0
                installed_obj = {'I': False, 'T': False}
                stop0_done = False
            if hd == 'sh.ctor.after_stop0':
                stop0_done = True
            if hd == 'sh.ctor.after_signal_int':
                installed_obj['I'] = True
            if hd == 'sh.ctor.after_signal_term':
                installed_obj['T'] = True
            if k == len(CTOR_NAMES) - 1:
                obj_phase = 'body'
        elif m == 'D':
            if k == 0:
                obj_phase = 'dtor'
                seen_dtor = True
                pending_lost = []
            if hd == 'sh.dtor.after_stop1':
                stop1_seen_since += 1
            if hd == 'sh.dtor.after_handler0':
                completed = None
            if k == len(DTOR_NAMES) - 1:
                obj_phase = 'none'
        elif m.startswith('R'):
            if hd == 'sh.set.after_handler_clear':
                completed = None
            if k == len(SET_NAMES) - 1:
                completed = tuple(int(x) for x in m.split(':')[1:])
        elif m == 'W':
            q = (t['args'] or {}).get('q')
            if obj_phase == 'body' and handled_since_ctor == 0 and q != '0':
                bad.append(('spurious-stop', 'stop query answers %s although no signal was delivered to this handler object' % q))
            if obj_phase == 'body':
                for rec in pending_lost:
                    if q != '1':
                        cls = 'ctor-window' if rec['ctor_window'] else 'other'
                        bad.append(('%s:lost' % cls, 'signal %s delivered at gap %d (handler installed) but a later stop query answers %s' %
                                    (rec['g'], rec['pos'], q)))
                        break
    # de-duplicate signatures
    seen, out = set(), []
    for s, w in bad:
        if s not in seen:
            seen.add(s)
            out.append((s, w))
    return out


# ---------------------------------------------------------------------------------------------- running
def build_harness(ck):
    check_hook_present()
    objs = ck.libmp_objects(flags=SAN)
    h = ck.objects([os.path.join(VERIF, 'harness', 'h_signal.cc')], flags=SAN, tag='c15h')
    return ck.link('h_signal', h + objs, flags=['-fsanitize=address,undefined'])


APP_PROGRAM = 'C R:1:1 W W D'      # what mp::BackendApp + StdBackend do with the handler (see harness/h_signal.cc, C15_APP)
APP_NL = """g3 1 1 0\t# problem app
 2 1 1 0 0\t# vars, constraints, objectives, ranges, eqns
 0 0\t# nonlinear constraints, objectives
 0 0\t# network constraints: nonlinear, linear
 0 0 0\t# nonlinear vars in constraints, objectives, both
 0 0 0 1\t# linear network variables; functions; arith, flags
 0 0 0 0 0\t# discrete variables: binary, integer, nonlinear (b,c,o)
 2 2\t# nonzeros in Jacobian, gradients
 0 0\t# max name lengths: constraints, variables
 0 0 0 0 0\t# common exprs: b,c,o,c1,o1
C0
n0
O0 0
n0
r
1 4
b
0 0 3
0 0 3
k1
1
J0 2
0 1
1 1
G0 2
0 1
1 2
"""


APP_VARIANTS = {'APP': APP_PROGRAM,          # plain run
                'APPA': APP_PROGRAM,         # with -AMPL (banner, .sol file written)
                'APPE': 'C R:1:1 W D',       # Solve throws mp::Error: BackendApp::Run reports it; no ReportResults
                'APPX': 'C R:1:1 W D',       # Solve throws std::runtime_error
                'APPU': 'C D'}               # no stub given: usage message, handler created and destroyed only


def app_token(case):
    t = case.split(' ')
    return t[1] if len(t) > 1 and t[1] in APP_VARIANTS else None


def is_poll(case):
    return ' P:' in case.split('|')[0]


def unpoll(case):
    """`P:<g>` (poll the stop query in a call-free loop while g arrives asynchronously) is, for the model and the oracle,
    the signal g delivered in the gap before a work step"""
    head, _, sched = case.partition('|')
    toks = head.split()
    entries = [(int(x.split(':')[0]), i, x) for i, x in enumerate(sched.split())]
    pos, out = 0, [toks[0]]
    extra = []
    for m in toks[1:]:
        if m.startswith('P:'):
            extra.append((pos, 10 ** 6 + len(extra), '%d:%s' % (pos, m[2])))
            out.append('W')
            pos += 1
        else:
            out.append(m)
            pos += NSTEPS[m[0]]
    allent = sorted(entries + extra, key=lambda e: (e[0], e[1]))
    return ' '.join(out) + ' | ' + ' '.join(e[2] for e in allent)


def build_poll_harness(ck):
    """the unit harness compiled with -O2 (no sanitizers), with the polling step P:<g>"""
    F = ('-O2',)
    h = ck.objects([os.path.join(VERIF, 'harness', 'h_signal.cc')], flags=F + ('-DC15_POLL',), tag='c15poll')
    return ck.link('h_signalpoll', h + ck.libmp_objects(flags=F))


def build_pt_harness(ck):
    h = ck.objects([os.path.join(VERIF, 'harness', 'h_signal_pt.cc')], flags=('-O1',), tag='c15pt')
    return ck.link('h_signalpt', h + ck.libmp_objects(flags=('-O1',)))


def nested_instruction_level(ck, drv, layout):
    """Re-entrance on the real code at instruction granularity (ptrace single-stepping, harness/h_signal_pt.cc): SIGTERM is
    injected after every instruction of HandleSigInt(SIGINT).  Returns (real outcomes per scenario, model outcomes per
    scenario and gap, oracle verdicts)."""
    exe = build_pt_harness(ck)
    p = subprocess.run([exe, 'UO'], capture_output=True, text=True, timeout=300)
    real = {'U': [], 'O': []}
    for ln in p.stdout.split('\n'):
        m = re.match(r'([UO]) N=(\d+) off=(-?\d+) (pair=\S+ callbacks=\S+ third=\S+)', ln)
        if m and int(m.group(2)) >= 1:      # N=0: the injection coincides with the delivery of the outer signal itself
            real[m.group(1)].append((int(m.group(2)), int(m.group(3)), m.group(4)))
    if p.returncode != 0 or not real['U'] or not real['O']:
        raise RuntimeError('h_signal_pt failed (ptrace not permitted?): rc=%s %s' % (p.returncode, (p.stdout + p.stderr)[-600:]))
    q = subprocess.run([drv, layout], input=''.join('nestk bsd %s %d\n' % (sc, k) for sc in 'UO' for k in range(7)),
                       capture_output=True, text=True)
    ml = q.stdout.split('\n')
    model = {'U': ml[0:7], 'O': ml[7:14]}
    verdicts = []
    for sc in 'UO':
        for n, off, out in real[sc]:
            pair = re.search(r'pair=(\S+)', out).group(1)
            third = re.search(r'third=(\S+)', out).group(1)
            if sc == 'U' and not (pair == '2' and third == 'exit1'):
                kind = 'undercount' if pair == '1' else 'other'
                verdicts.append(('nested-count:%s' % kind, 'SIGTERM delivered after %d instructions of HandleSigInt(SIGINT) (pc = HandleSigInt+%d): stop_ = %s after the two '
                                 'interrupts, a third interrupt leaves the process %s' % (n, off, pair, third), 'U N=%d' % n))
            if sc == 'O' and pair != 'exit1':
                kind = 'overcount' if pair == '3' else 'undercount' if pair == '2' else 'other'
                verdicts.append(('nested-count:%s' % kind, 'one interrupt recorded; SIGTERM delivered after %d instructions of HandleSigInt(SIGINT) (pc = HandleSigInt+%d): the third '
                                 'interrupt does not terminate the process, stop_ = %s' % (n, off, pair), 'O N=%d' % n))
    return real, model, verdicts


def is_app(case):
    return app_token(case) is not None


def unapp(case):
    """the macro program a BackendApp run amounts to (for the model and for the oracle)"""
    t = app_token(case)
    return case.replace(' %s ' % t, ' %s ' % APP_VARIANTS[t], 1) if t else case


def build_app_harness(ck, extra_flags=()):
    """the same harness source compiled as a real mp driver: BackendApp + StdBackend (harness/recsolver's RecBackend)"""
    import recsolver
    F = ('-O1',)
    srcs = [os.path.join(recsolver.RDIR, f) for f in ['recmodelmgr.cc', 'recmodelapi.cc', 'recbackend.cc']]
    objs = ck.objects(srcs, flags=F, extra_inc=[recsolver.RDIR], tag='rec')
    h = ck.objects([os.path.join(VERIF, 'harness', 'h_signal.cc')], flags=F + ('-DC15_APP',) + tuple(extra_flags),
                   extra_inc=[recsolver.RDIR], tag='c15app')
    return ck.link('h_signalapp', h + objs + ck.libmp_objects(flags=F))


def run_impl(exe, lines, shards, app_exe=None, poll_exe=None):
    """runs every case on the real code; APP cases go to the BackendApp build of the harness, P: cases to the -O2 build"""
    if app_exe is not None:
        ia = [i for i, l in enumerate(lines) if is_app(l)]
        ip = [i for i, l in enumerate(lines) if is_poll(l) and poll_exe is not None]
        io = [i for i, l in enumerate(lines) if not is_app(l) and not (is_poll(l) and poll_exe is not None)]
        outs = [None] * len(lines)
        stub = os.path.join(BUILD, 'c15', 'app')
        os.makedirs(os.path.dirname(stub), exist_ok=True)
        open(stub + '.nl', 'w').write(APP_NL)
        for idx, ex, extra, tag in ((io, exe, [], 'u'), (ia, app_exe, [stub], 'a'), (ip, poll_exe, [], 'p')):
            if idx:
                res = run_impl_one(ex, [lines[i] for i in idx], shards, extra, tag)
                for i, r in zip(idx, res):
                    outs[i] = r
        return outs
    return run_impl_one(exe, lines, shards, [], 'u')


def run_impl_one(exe, lines, shards, extra_args, tag):
    exe_args = [exe, '%d,%d' % (NSTEPS['R'], NSTEPS['D'])] + list(extra_args)
    os.makedirs(os.path.join(BUILD, 'c15'), exist_ok=True)
    chunks = [lines[i::shards] for i in range(shards)]
    procs = []
    for i, ch in enumerate(chunks):
        fin = os.path.join(BUILD, 'c15', 'ops.%s%d.txt' % (tag, i))
        fout = os.path.join(BUILD, 'c15', 'impl.%s%d.out' % (tag, i))
        open(fin, 'w').write('\n'.join(ch) + ('\n' if ch else ''))
        procs.append((subprocess.Popen(exe_args, stdin=open(fin), stdout=open(fout, 'w'), stderr=subprocess.PIPE,
                                       env=dict(os.environ, RECSOLVER_LOG='/dev/null')), fout, ch))
    outs = [None] * len(lines)
    for i, (p, fout, ch) in enumerate(procs):
        _, err = p.communicate()
        res = open(fout).read().split('\n')
        if res and res[-1] == '':
            res.pop()
        if p.returncode != 0 or len(res) != len(ch):
            raise RuntimeError('harness shard %d failed: rc=%s, %d lines for %d cases: %s' % (i, p.returncode, len(res), len(ch), err.decode()[-800:]))
        for j, r in enumerate(res):
            outs[i + j * shards] = r
    return outs


def run_model(drv, lines, layout='pinned'):
    # the model does not have the inherited disposition (it only matters before the handler is installed, and the
    # generator never schedules a signal there for /ign cases): the model is asked about the same case without it
    lines = [l.replace('/ign ', ' ', 1) if l.split(' ', 1)[0].endswith('/ign') else l for l in lines]
    lines = [unpoll(unapp(l)) if is_poll(l) else unapp(l) for l in lines]
    p = subprocess.run([drv, layout], input='\n'.join(lines) + '\n', capture_output=True, text=True)
    if p.returncode != 0:
        raise RuntimeError('model driver failed: %s' % p.stderr[-800:])
    res = p.stdout.split('\n')
    if res and res[-1] == '':
        res.pop()
    if len(res) != len(lines):
        raise RuntimeError('model driver printed %d lines for %d cases' % (len(res), len(lines)))
    return res


def first_diff(a, b):
    ta, tb = a.split(' '), b.split(' ')
    for i in range(max(len(ta), len(tb))):
        x = ta[i] if i < len(ta) else '<nothing>'
        y = tb[i] if i < len(tb) else '<nothing>'
        if x != y:
            return i, x, y
    return None


ANCHOR_FILES = ['src/solver.cc', 'include/mp/solver-app-base.h', 'include/mp/solver-base.h',
                'include/mp/backend-app.h', 'include/mp/backend-std.h']
# functions of anchors.mechanism (+ the constructor and the stop query): (file, regex on the demangled gcov function name)
MECHANISM = [
    ('src/solver.cc', r'SignalHandler::HandleSigInt'),
    ('src/solver.cc', r'SignalHandler::SetHandler'),
    ('src/solver.cc', r'SignalHandler::~SignalHandler'),
    ('src/solver.cc', r'SignalHandler::SignalHandler'),
    ('include/mp/solver-app-base.h', r'SignalHandler::Stop'),
    ('include/mp/solver-base.h', r'BasicSolver::(set_interrupter|interrupter|Stop|SetHandler)'),
    ('include/mp/backend-std.h', r'StdBackend<.*>::(SetupTimerAndInterrupter|SetupInterrupter|RunFromNLFile)'),
    ('include/mp/backend-app.h', r'BackendApp::(InitHandlers|Run|Init|BackendApp|~BackendApp)'),
]


def coverage_run(ck, lines, with_app=True, label='after'):
    """VERIF_COVERAGE=1: gcov line/branch coverage of the anchored files under the quick-tier input stream.
    Only solver.cc and the harness TUs (which instantiate the anchored headers) are instrumented; every child
    flushes its counters before _exit (harness, C15_COVERAGE)."""
    import shutil, recsolver
    cdir = os.path.join(BUILD, 'c15cov')
    shutil.rmtree(cdir, ignore_errors=True)
    os.makedirs(cdir)
    inc = ['-I' + os.path.join(REPO, 'include'), '-I' + os.path.join(REPO, 'src'), '-I' + os.path.join(VERIF, 'harness'),
           '-I' + recsolver.RDIR]
    defs = ['-DMP_DATE=20240320', '-DMP_SYSINFO="Linux x86_64"', '-DMP_USE_ATOMIC', '-DMP_USE_HASH', '-DMP_USE_UNIQUE_PTR',
            '-DAMPL_MP_VERIF', '-DC15_COVERAGE']
    base = ['g++', '-std=c++17', '-w', '-O0', '-g', '--coverage'] + defs + inc

    def cc(src, out, extra=()):
        rc, o, e = sh(base + list(extra) + ['-c', src, '-o', os.path.join(cdir, out)], cwd=cdir, timeout=3000)
        if rc != 0:
            raise RuntimeError('coverage compile failed: ' + e[-2000:])
        return os.path.join(cdir, out)
    from concurrent.futures import ThreadPoolExecutor
    jobs = [(os.path.join(REPO, 'src', 'solver.cc'), 'solver.o', ()),
            (os.path.join(VERIF, 'harness', 'h_signal.cc'), 'h_unit.o', ())]
    if with_app:
        jobs.append((os.path.join(VERIF, 'harness', 'h_signal.cc'), 'h_app.o', ('-DC15_APP',)))
    with ThreadPoolExecutor(max_workers=3) as ex:
        objs = list(ex.map(lambda j: cc(*j), jobs))
    rest = [o for o in ck.libmp_objects(flags=('-O1',)) if 'solver_cc' not in os.path.basename(o)]
    exe_u = os.path.join(cdir, 'h_unit')
    rc, o, e = sh(['g++', '--coverage', objs[1], objs[0]] + rest + ['-o', exe_u, '-ldl'], timeout=1800)
    if rc != 0:
        raise RuntimeError('coverage link failed: ' + e[-2000:])
    exe_a = None
    if with_app:
        srcs = [os.path.join(recsolver.RDIR, f) for f in ['recmodelmgr.cc', 'recmodelapi.cc', 'recbackend.cc']]
        robjs = ck.objects(srcs, flags=('-O1',), extra_inc=[recsolver.RDIR], tag='rec')
        exe_a = os.path.join(cdir, 'h_app')
        rc, o, e = sh(['g++', '--coverage', objs[2], objs[0]] + robjs + rest + ['-o', exe_a, '-ldl'], timeout=1800)
        if rc != 0:
            raise RuntimeError('coverage link failed: ' + e[-2000:])
    use = [l for l in lines if with_app or not is_app(l)]
    run_impl(exe_u, use, 6, exe_a)
    # gcov
    rc, o, e = sh(['gcov-12', '-b', '-c', '-d', '-p', '-o', cdir] + [os.path.basename(x) for x in objs], cwd=cdir, timeout=1800)
    if rc != 0:
        raise RuntimeError('gcov failed: ' + (o + e)[-1500:])
    res = {}
    for af in ANCHOR_FILES:
        key = af.replace('/', '#')
        files = [f for f in os.listdir(cdir) if f.endswith('.gcov') and f.endswith(key + '.gcov')]
        lines_cov, br_cov, funcs = {}, {}, {}
        for f in files:
            cur_line = None
            bidx = 0
            pending_fn = None
            for ln in open(os.path.join(cdir, f), errors='replace'):
                if ln.startswith('function '):
                    m = re.match(r'function (\S+) called (\d+)', ln)
                    if m:
                        pending_fn = (m.group(1), int(m.group(2)))
                    continue
                if ln.startswith('branch') or ln.startswith('call') or ln.startswith('unconditional'):
                    if ln.startswith('branch') and cur_line is not None:
                        taken = 0
                        m = re.match(r'branch\s+\d+ taken (\d+)', ln)
                        if m:
                            taken = int(m.group(1))
                        k = (cur_line, bidx)
                        br_cov[k] = max(br_cov.get(k, 0), taken)
                        bidx += 1
                    continue
                m = re.match(r'\s*([^:]+):\s*(\d+):(.*)$', ln)
                if not m:
                    continue
                cnt, no, txt = m.group(1).strip(), int(m.group(2)), m.group(3)
                if no == 0:
                    continue
                if cur_line != no:
                    cur_line, bidx = no, 0
                if pending_fn:
                    name, called = pending_fn
                    pending_fn = None
                    d = funcs.setdefault((name, no), 0)
                    funcs[(name, no)] = max(d, called)
                if cnt == '-':
                    continue
                c = 0 if cnt.startswith('#') or cnt.startswith('=') else int(re.sub(r'[^0-9]', '', cnt) or 0)
                lines_cov[no] = max(lines_cov.get(no, 0), c)
                lines_cov.setdefault(('txt', no), txt)
        nums = [k for k in lines_cov if isinstance(k, int)]
        res[af] = {'lines': len(nums), 'lines_hit': sum(1 for k in nums if lines_cov[k] > 0),
                   'branches': len(br_cov), 'branches_hit': sum(1 for v in br_cov.values() if v > 0),
                   'line_cov': lines_cov, 'br_cov': br_cov, 'funcs': funcs, 'tus': len(files)}
    return res, cdir


def demangle(names):
    p = subprocess.run(['c++filt'], input='\n'.join(names) + '\n', capture_output=True, text=True)
    return p.stdout.split('\n')[:len(names)]


def coverage_report(res, label):
    """markdown + summary numbers for the mechanism functions"""
    out = ['### %s' % label, '', '| anchored file | TUs | lines hit/total | line % | branches hit/total | branch % |', '|---|---|---|---|---|---|']
    for af in ANCHOR_FILES:
        r = res[af]
        out.append('| %s | %d | %d/%d | %.1f | %d/%d | %.1f |' % (af, r['tus'], r['lines_hit'], r['lines'], 100.0 * r['lines_hit'] / max(1, r['lines']),
                                                                r['branches_hit'], r['branches'], 100.0 * r['branches_hit'] / max(1, r['branches'])))
    out += ['', 'Mechanism functions (anchors.mechanism + constructor + stop query + the driver functions that use the handler):', '',
            '| function | file:line | called | lines hit/total | branches hit/total | uncovered lines | untaken branches (line:index) |', '|---|---|---|---|---|---|---|']
    mt = {'lines': 0, 'lines_hit': 0, 'branches': 0, 'branches_hit': 0}
    for af, rx in MECHANISM:
        r = res[af]
        fl = sorted(r['funcs'].items(), key=lambda kv: kv[0][1])
        names = demangle([k[0] for k, _ in fl])
        seen_fn = {}
        for (k, called), dn in zip(fl, names):          # complete/base constructor and destructor variants: one row
            key2 = (dn, k[1])
            seen_fn[key2] = max(seen_fn.get(key2, 0), called)
        fl = [((dn, st), c) for (dn, st), c in seen_fn.items()]
        fl.sort(key=lambda kv: kv[0][1])
        names = [k[0] for k, _ in fl]
        starts = [k[1] for k, _ in fl]
        for i, ((mn, start), called) in enumerate(fl):
            dn = names[i]
            if not re.search(rx, dn):
                continue
            nxt = min([s for s in starts if s > start] or [10 ** 9])
            ls = [n for n in r['line_cov'] if isinstance(n, int) and start <= n < nxt]
            hit = [n for n in ls if r['line_cov'][n] > 0]
            bs = [k for k in r['br_cov'] if start <= k[0] < nxt]
            bh = [k for k in bs if r['br_cov'][k] > 0]
            mt['lines'] += len(ls); mt['lines_hit'] += len(hit); mt['branches'] += len(bs); mt['branches_hit'] += len(bh)
            short = re.sub(r'mp::(internal::)?', '', dn)
            short = re.sub(r'<.*>', '<…>', short)[:70]
            out.append('| `%s` | %s:%d | %d | %d/%d | %d/%d | %s | %s |' % (short, os.path.basename(af), start, called, len(hit), len(ls), len(bh), len(bs),
                                                                         ' '.join(str(n) for n in sorted(set(ls) - set(hit))) or '–',
                                                                         ' '.join('%d:%d' % k for k in sorted(set(bs) - set(bh))) or '–'))
    out.append('')
    out.append('Mechanism total: lines %d/%d (%.1f %%), branches %d/%d (%.1f %%)' % (mt['lines_hit'], mt['lines'], 100.0 * mt['lines_hit'] / max(1, mt['lines']),
                                                                                    mt['branches_hit'], mt['branches'], 100.0 * mt['branches_hit'] / max(1, mt['branches'])))
    return '\n'.join(out), mt


N_THEOREMS = 50
CURRENT_LAYOUT = 'fixed+dtor'     # = Layout.current in lean/MpVerif/C15/Model.lean (the order the main theorems are stated for)


def check_hook_present():
    src = os.path.join(REPO, 'src', 'solver.cc')
    txt = open(src).read()
    if 'mp_verif_point' not in txt or 'AMPL_MP_VERIF' not in txt:
        raise RuntimeError('C15 needs the guarded verification hook in %s (mp_verif_point / MP_VERIF_POINT under '
                           '#ifdef AMPL_MP_VERIF): apply repo_patches/C15-hook.diff. Without it no signal can be '
                           'delivered between the individual stores; this is a set-up error, not a property verdict.' % src)


def run(ck):
    check_hook_present()
    # 1. regenerate lean/MpVerif/Gen/Signal.lean from the current source (clang AST; written only if changed)
    gen = os.path.join(LEAN, 'MpVerif', 'Gen', 'Signal.lean')
    rc, out, err = sh([sys.executable, os.path.join(VERIF, 'translators', 'gen_signal.py'), REPO, gen,
                       os.path.join(BUILD, 'tr')], timeout=600)
    ck.log((out.strip() or err.strip())[:400])
    translator_ok = rc == 0
    ck.cov['translator'] = {'ok': translator_ok, 'generated': 'lean/MpVerif/Gen/Signal.lean',
                            'functions': ['SignalHandler::SignalHandler', 'SignalHandler::~SignalHandler', 'SignalHandler::SetHandler',
                                          'SignalHandler::HandleSigInt', 'SignalHandler::Stop', 'BasicSolver::Stop',
                                          'BasicSolver::SetHandler', 'BasicSolver::set_interrupter']}
    if translator_ok:
        proof_ok, failing = ck.proof_stage('MpVerif.C15.Props', 'MpVerif/C15/Props.lean', 'C15_',
                                            ['MpVerif/C15/*.lean', 'MpVerif/Gen/Signal.lean'], expect_min=N_THEOREMS)
    else:
        # a statement of the anchored functions is not one of the shapes the model knows: the C15_gen_* obligations
        # cannot even be stated for this source
        proof_ok, failing = False, ['translator: ' + (out + err).strip()[-500:]]
        ck.cov.update({'obligations': N_THEOREMS, 'discharged': 0, 'checker_cmd': 'translators/gen_signal.py failed'})
    ck.log('proof stage: ok=%s failing=%s' % (proof_ok, [f[:160] for f in failing[:8]]))
    if ck.tier == 'thorough' and proof_ok:
        badm = ck.leanchecker(['MpVerif.C15.Props'])
        if badm:
            failing += ['leanchecker rejected %s' % m for m in badm]
            proof_ok = False
    exe = build_harness(ck)
    drv = ck.driver('drv_c15')
    global COUNTEREXAMPLES
    cf, rf, df, names = detect_layout(exe)
    layout = layout_name(cf, rf, df) if None not in (cf, rf, df) else None
    if layout is None:
        # neither the pinned order nor a proposed repair: keep the pinned model; the correspondence and the shape
        # check of the oracle will report exactly where the order of the stores differs
        ck.log('store order of the real code is not one the model knows: %s' % names)
        cf, rf, df = bool(cf), bool(rf), bool(df)
        layout = layout_name(cf, rf, df)
    set_layout(cf, rf, df)
    COUNTEREXAMPLES = [c[:3] for c in ALL_COUNTEREXAMPLES
                       if c[3] == 'any' or (c[3] == 'ctor' and not cf) or (c[3] == 'reg' and not rf) or (c[3] == 'dtor' and not df)]
    ck.log('store order observed in the real code: layout %s' % layout)
    ck.cov['layout_observed'] = layout
    ck.cov['layout_of_main_theorems'] = CURRENT_LAYOUT
    ck.cov['claim_for_this_layout'] = {
        'pinned': 'OLD store order (both repairs reverted): only C15_anyorder_* apply; ctor-window and SetHandler-window defects are back',
        'ctorfix': 'SetHandler repair missing: C15_pairing does not apply, SetHandler-window defect is back',
        'regfix': 'constructor repair missing: C15_no_lost / C15_no_early_exit / C15_third_exits_partial do not apply, ctor-window defect is back',
        'fixed': 'destructor repair missing (stop_ = 1 stored again): C15_third_exits does not apply, across-teardown defect is back',
        'fixed+dtor': 'main theorems C15_no_lost, C15_pairing, C15_no_early_exit, C15_third_exits apply at full strength; no open finding'}.get(layout, 'not the current store order')
    cases, enum_desc = gen_cases(ck)
    lines = [l for _, l in cases]
    ck.log('%d cases (%s)' % (len(lines), ', '.join('%s=%d' % (o, sum(1 for x, _ in cases if x == o))
                                                        for o in ['corpus', 'counterexample', 'enum', 'enum-stdout', 'enum-inherited-ign', 'poll', 'enum-nested', 'enum-backendapp', 'enum-extra', 'random', 'malformed'])))
    if os.environ.get('VERIF_COVERAGE'):
        sel = os.environ.get('VERIF_COVERAGE')
        old_origins = ('corpus', 'counterexample', 'enum', 'enum-extra', 'random', 'malformed')
        if sel == 'before':    # the input stream and harness as they were before rounds 2/3 (file stdout, default dispositions, no driver)
            use = [l for (o, l) in cases if o in old_origins and '/' not in l.split(' ', 1)[0] and ' N:' not in l and not l.startswith('bsd N')]
            res, cdir = coverage_run(ck, use, with_app=False)
        else:
            res, cdir = coverage_run(ck, lines, with_app=True)
        md, mt = coverage_report(res, 'coverage run "%s": %d cases' % (sel, len(use) if sel == 'before' else len(lines)))
        os.makedirs(os.path.join(VERIF, 'design_notes', 'coverage'), exist_ok=True)
        open(os.path.join(VERIF, 'design_notes', 'coverage', 'C15.%s.gen.md' % sel), 'w').write(md + '\n')
        tot_l = sum(res[a]['lines'] for a in ANCHOR_FILES); hit_l = sum(res[a]['lines_hit'] for a in ANCHOR_FILES)
        tot_b = sum(res[a]['branches'] for a in ANCHOR_FILES); hit_b = sum(res[a]['branches_hit'] for a in ANCHOR_FILES)
        summ = {'run': sel, 'cases': len(use) if sel == 'before' else len(lines), 'tier': ck.tier, 'seed': ck.seed,
                'per_file': {a: {'line_cov': round(100.0 * res[a]['lines_hit'] / max(1, res[a]['lines']), 1),
                                 'branch_cov': round(100.0 * res[a]['branches_hit'] / max(1, res[a]['branches']), 1),
                                 'lines': res[a]['lines'], 'branches': res[a]['branches']} for a in ANCHOR_FILES},
                'anchor_files_line_cov': round(100.0 * hit_l / max(1, tot_l), 1),
                'anchor_files_branch_cov': round(100.0 * hit_b / max(1, tot_b), 1),
                'mechanism_line_cov': round(100.0 * mt['lines_hit'] / max(1, mt['lines']), 1),
                'mechanism_branch_cov': round(100.0 * mt['branches_hit'] / max(1, mt['branches']), 1),
                'mechanism_lines': mt['lines'], 'mechanism_branches': mt['branches']}
        json.dump(summ, open(os.path.join(VERIF, 'design_notes', 'coverage', 'C15.%s.json' % sel), 'w'), indent=1)
        ck.log('coverage (%s): %s' % (sel, json.dumps({k: v for k, v in summ.items() if k != 'per_file'})))
    app_exe = build_app_harness(ck)
    poll_exe = build_poll_harness(ck)
    impl = run_impl(exe, lines, 8 if ck.tier == 'thorough' else 6, app_exe, poll_exe)
    ck.log('implementation runs done')
    model = run_model(drv, lines, layout)
    ck.log('model runs done')

    hist = {'stdout': {}, 'delivered_at': {}, 'outcome': {}, 'mode': {}, 'signals_per_case': {}, 'origin': {}}
    corr_bad = []
    oracle_bad = {}
    distinct = set()
    cx_seen = {}
    nontrivial = 0
    for (origin, case), il, ml in zip(cases, impl, model):
        hist['origin'][origin] = hist['origin'].get(origin, 0) + 1
        if origin == 'malformed':
            if il != 'bad-op' or ml != 'bad-op':
                corr_bad.append((case, il, ml, 'malformed input must be rejected by both sides'))
            continue
        if is_poll(case):
            hist['poll_steps'] = hist.get('poll_steps', 0) + case.split('|')[0].count(' P:')
            if 'poll-timeout' in il:
                oracle_bad.setdefault('poll:lost', []).append((case, 'a solver polling SignalHandler::Stop() in a call-free loop (optimised build) was still '
                                                              'spinning 400 ms after the signal had been delivered and handled: the stop query never observed it', il))
            case = unpoll(case)
        if is_app(case):
            # after ~BackendApp the backend (which holds the interrupter pointer) no longer exists: field not observable
            k = ml.find(' free[')
            if k >= 0:
                ml = ml[:k] + re.sub(r',i[SOX],', ',i-,', ml[k:])
            case = unapp(case)
            hist['backendapp_runs'] = hist.get('backendapp_runs', 0) + 1
        if case.split(' ', 1)[0].endswith('/ign'):
            # the state flags show 2 for an ignored signal; the model only tracks "HandleSigInt installed or not"
            il = il.replace(',I2,', ',I0,').replace(',T2]', ',T0]')
            hist['inherited_ignored'] = hist.get('inherited_ignored', 0) + 1
        if out_state(case) == 'part':
            # short write followed by a failing one: for the model this is a failing write; what arrived must be a prefix
            hist['short_writes'] = hist.get('short_writes', 0) + il.count('brk=P')
            il = il.replace('brk=P', 'brk=E').replace('brk=0', 'brk=E')    # (a zero-length write shows nothing either way)
        if out_state(case) == 'null':      # /dev/null: the break text cannot be observed; not compared
            il, ml = BRK_RE.sub('brk=~', il), BRK_RE.sub('brk=~', ml)
        if il != ml:
            corr_bad.append((case, il, ml, None))
        hist['stdout'][out_state(case)] = hist['stdout'].get(out_state(case), 0) + 1
        mode = case.split(' ', 1)[0].split('/')[0]
        hist['mode'][mode] = hist['mode'].get(mode, 0) + 1
        toks = il.split(' ')
        prev = 'start'
        nsig = 0
        for t in toks[1:]:
            if t.startswith('!'):
                nsig += 1
                hist['delivered_at'][prev] = hist['delivered_at'].get(prev, 0) + 1
                oc = 'killed' if 'killed=' in t else 'exit' if 'exit=' in t else 'callback' if 'cb=-' not in t else 'recorded-no-callback'
                hist['outcome'][oc] = hist['outcome'].get(oc, 0) + 1
            elif '[' in t:
                prev = t.split('[')[0].split('(')[0]
        hist['signals_per_case'][str(nsig)] = hist['signals_per_case'].get(str(nsig), 0) + 1
        if nsig:
            nontrivial += 1
        distinct.add(hashlib.md5(il.encode()).hexdigest())
        verdicts = oracle(case, il)
        for sig, what in verdicts:
            oracle_bad.setdefault(sig, []).append((case, what, il))
        if origin == 'counterexample':
            cx_seen[case] = [s for s, _ in verdicts]
    # re-entrance at instruction granularity on the real code, against the model's per-gap outcomes
    try:
        nreal, nmodel, nverd = nested_instruction_level(ck, drv, layout)
        rs = {sc: sorted(set(o for _, _, o in nreal[sc])) for sc in 'UO'}
        ms = {sc: sorted(set(nmodel[sc])) for sc in 'UO'}
        ck.cov['nested_instruction_level'] = {
            'instructions_tried': {sc: len(nreal[sc]) for sc in 'UO'},
            'real_outcomes': rs, 'model_outcomes_by_gap': nmodel,
            'windows_on_real_code': {sc: [(n, off, o) for n, off, o in nreal[sc] if o not in (nmodel[sc][0],)][:12] for sc in 'UO'},
            'note': 'SIGTERM injected (ptrace) after every instruction of HandleSigInt(SIGINT) that lies in HandleSigInt itself; scenario U: stop_ = 0 before, O: one earlier interrupt'}
        if rs != ms:
            corr_bad.append(('nested-instruction-level', str(rs), str(ms), 'set of outcomes of a nested SIGTERM over all instruction boundaries of the real handler vs. over all gaps of the model'))
        for sig, what, inp in nverd:
            oracle_bad.setdefault(sig, []).append(('h_signal_pt ' + inp, what, inp))
    except RuntimeError as e:
        ck.cov['nested_instruction_level'] = {'skipped': str(e)[:300]}
        ck.log('instruction-level re-entrance replay skipped: %s' % str(e)[:200])
    # which arms of the model functions did the compared stream exercise (counted on the model's own output)
    arms = {}

    def arm(k, n=1):
        arms[k] = arms.get(k, 0) + n
    ARM_KEYS = (['applyMicro.' + n for n in ('cAlloc', 'cIntr', 'cPtr(alive)', 'cSize', 'cSigInt', 'cSigTerm', 'cStop0', 'setH', 'setD', 'work', 'nreg',
                                              'dIntr', 'dStop1', 'dH0', 'dSize0', 'dFree(msgPtr live->dangling)')] +
                ['applyMicro.cPtr(not alive)', 'applyMicro.dFree(msgPtr not live)', 'applyMicro.dFree(intr obj->dangling)',
                 'deliver.killed(int)', 'deliver.killed(term)', 'deliver.sem=bsd', 'deliver.sem=sysv', 'deliver.exit1', 'deliver.callback', 'deliver.no-callback',
                 'deliver.sig=int', 'deliver.sig=term', 'writeObs.ok', 'writeObs.fail', 'writeObs.ok(flag false: read from dead/null string)',
                 'stopQuery.obj(stop!=0)', 'stopQuery.obj(stop=0)', 'stopQuery.self', 'stopQuery.dangling',
                 'schedule.signal-at-end', 'schedule.several-signals-in-one-gap', 'exec.after-halt(ignored events)'])
    NAME2ARM = {'sh.ctor.enter': 'cAlloc', 'sh.ctor.after_set_interrupter': 'cIntr', 'sh.ctor.after_msg_ptr': 'cPtr(alive)', 'sh.ctor.after_msg_size': 'cSize',
                'sh.ctor.after_signal_int': 'cSigInt', 'sh.ctor.after_signal_term': 'cSigTerm', 'sh.ctor.after_stop0': 'cStop0',
                'sh.set.after_handler_clear': 'setH', 'sh.set.after_handler': 'setH', 'sh.set.after_data': 'setD', 'N': 'nreg',
                'sh.dtor.after_set_interrupter': 'dIntr', 'sh.dtor.after_stop1': 'dStop1', 'sh.dtor.after_handler0': 'dH0',
                'sh.dtor.after_msg_size0': 'dSize0', 'free': 'dFree(msgPtr live->dangling)'}
    for (origin, case), ml in zip(cases, model):
        if origin == 'malformed' or ml == 'bad-op':
            continue
        sem = case.split(' ', 1)[0].split('/')[0]
        toks = ml.split(' ')
        prev_sig = False
        sched_gaps = [x.split(':')[0] for x in case.split('|', 1)[1].split()]
        if len(set(sched_gaps)) < len(sched_gaps):
            arm('schedule.several-signals-in-one-gap')
        halted = not ml.endswith(' end')
        if halted and len(sched_gaps) > sum(1 for t in toks if t.startswith('!')):
            arm('exec.after-halt(ignored events)')
        for i, t in enumerate(toks[1:], 1):
            head = t.split('[')[0]
            if t.startswith('!'):
                g = 'int' if t[1] == 'I' else 'term'
                if 'killed=' in t:
                    arm('deliver.killed(%s)' % g)
                    continue
                arm('deliver.sig=' + g)
                arm('deliver.sem=' + sem)
                arm('writeObs.fail' if 'brk=E' in t else 'writeObs.ok(flag false: read from dead/null string)' if 'brk=!' in t else 'writeObs.ok')
                if 'exit=' in t:
                    arm('deliver.exit1')
                else:
                    arm('deliver.no-callback' if 'cb=-' in t else 'deliver.callback')
                if i == len(toks) - 2 and toks[-1] == 'end':
                    arm('schedule.signal-at-end')
            elif head.startswith('W('):
                st_ = t.split('[')[1]
                if ',iO,' in st_:
                    arm('stopQuery.obj(stop!=0)' if 'q=1' in head else 'stopQuery.obj(stop=0)')
                elif ',iS,' in st_:
                    arm('stopQuery.self')
                else:
                    arm('stopQuery.dangling')
                arm('applyMicro.work')
            elif head in NAME2ARM:
                arm('applyMicro.' + NAME2ARM[head])
                if head == 'free' and ',iX,' in t:
                    arm('applyMicro.dFree(intr obj->dangling)')
            if ',pX,' in t and head == 'sh.ctor.after_msg_ptr':
                arm('applyMicro.cPtr(not alive)')
    ck.cov['model_arms'] = {k: arms.get(k, 0) for k in ARM_KEYS}
    ck.cov['model_arms_never_taken'] = [k for k in ARM_KEYS if not arms.get(k)]
    covf = os.path.join(VERIF, 'design_notes', 'coverage', 'C15.after.json')
    if os.path.exists(covf):
        cj = json.load(open(covf))
        ck.cov['anchor_line_cov'] = cj.get('mechanism_line_cov')
        ck.cov['anchor_branch_cov'] = cj.get('mechanism_branch_cov')
        ck.cov['anchor_cov_note'] = ('gcov of the functions named in anchors.mechanism (+ctor, stop query, BackendApp/StdBackend functions that use the handler) '
                                     'as measured by the last VERIF_COVERAGE=after run (design_notes/coverage/C15.after.json); whole anchored files: '
                                     'line %s %%, branch %s %%' % (cj.get('anchor_files_line_cov'), cj.get('anchor_files_branch_cov')))
    # the proved counterexamples must reproduce on the real code (otherwise model and code have drifted apart:
    # reported through the correspondence below; here only recorded)
    cx = []
    for name, line, cls in COUNTEREXAMPLES:
        cx.append({'theorem': name, 'case': line, 'expected_class': cls, 'reproduced_on_real_code': cls in cx_seen.get(line, [])})
    ck.cov['counterexample_theorems_replayed'] = cx

    ck.cov['evaluations'] = len(lines)
    ck.cov['traces_validated_against_impl'] = len(lines) - len(corr_bad)
    ck.cov['distinct_nontrivial'] = len(distinct)
    ck.cov['rule'] = ('a case = (signal semantics, program, schedule); run on the real SignalHandler in a forked child and on the Lean model; '
                      'distinct_nontrivial = number of distinct observation lines (state after every store and delivery) produced by the real code; '
                      '%d cases deliver at least one signal' % nontrivial)
    ck.cov['exhaustive'] = True
    ck.cov['exhaustive_note'] = ('finite family enumerated completely (gap tuples x signal kinds): ' + '; '.join(enum_desc) +
                                 '; plus all <=2-signal schedules (kinds I,T,alternating) of %d extra programs; random programs/schedules are sampled' % len(EXTRA_PROGRAMS))
    ck.cov['generator_histogram'] = hist
    ck.cov['correspondence'] = {'lines_compared_model_vs_impl': len(lines), 'disagreements': len(corr_bad)}
    for i in (0, len(lines) // 3, 2 * len(lines) // 3):
        ck.sample({'case': lines[i], 'real_code': impl[i]})
    for name, line, cls in COUNTEREXAMPLES[:3]:
        i = lines.index(line)
        ck.sample({'case': line, 'real_code': impl[i], 'theorem': name})

    for sig, lst in sorted(oracle_bad.items()):
        lst.sort(key=lambda x: (len(x[0]), x[0]))
        case, what, il = lst[0]
        ck.add_violation(sig, '%s  [case: %s] (%d such schedules in this run)' % (what, case, len(lst)),
                         {'case': case, 'real_code_output': il, 'violated': what, 'signature': sig,
                          'more_cases': [c for c, _, _ in lst[1:6]],
                          'how': 'echo "%s" | build/bin/h_signal-*   (or ./check C15 --replay <this file>)' % case},
                         # shape:* = the real code's steps are not the ones the model knows (a correspondence break,
                         # not by itself a violated clause of the property)
                         found_input=not sig.startswith('shape:'))
    ck.cov['correspondence']['first_disagreements'] = [{'case': c, 'real_code': i, 'model': m} for c, i, m, _ in corr_bad[:3]]
    if corr_bad and not ck.violations:
        corr_bad.sort(key=lambda x: (len(x[0]), x[0]))
        case, il, ml, note = corr_bad[0]
        d = first_diff(il, ml)
        verd = [s for s, _ in oracle(case, il)] if il != 'bad-op' and not il.startswith('bad') else []
        unknown = [s for s in verd if not any(k.get('property') == 'C15' and k.get('status') == 'open' and re.fullmatch(k['match'], s) for k in ck.known)]
        ck.add_violation('model-differs', 'Lean model and real SignalHandler disagree on %d of %d cases; first: [%s] token %s: real code %s, model %s%s' %
                         (len(corr_bad), len(lines), case, d[0] if d else '?', d[1] if d else il, d[2] if d else ml, ('; ' + note) if note else ''),
                         {'case': case, 'real_code_output': il, 'model_output': ml, 'first_difference': d,
                          'correspondence': 'drv_c15 vs h_signal', 'oracle_on_this_case': verd,
                          'more_cases': [c for c, _, _, _ in corr_bad[1:6]]},
                         found_input=False)
    if layout != CURRENT_LAYOUT and not ck.violations:
        ck.add_violation('store-order:%s' % layout,
                         'the real code performs the stores in order "%s" but the main theorems are stated for "%s" (Layout.current); '
                         'no schedule violating the property was found in this run' % (layout, CURRENT_LAYOUT),
                         {'observed_step_names': names, 'layout_observed': layout, 'layout_of_main_theorems': CURRENT_LAYOUT,
                          'theorem': 'C15_no_lost / C15_pairing (hypothesis Layout.current)'}, found_input=False)
    if not proof_ok:
        ck.cov['obligations_failed'] = [f[:300] for f in failing]
        if any(v['found_input'] for v in ck.violations):
            # the search found schedules on which the real code violates the property: those are the verdict; the broken
            # obligations are recorded in the evidence and named in each replay file
            for v in ck.violations:
                if isinstance(v.get('replay'), dict):
                    v['replay']['proof_obligations_that_no_longer_check'] = [f[:300] for f in failing]
        else:
            for fdecl in failing:
                sig = 'obligation:%s' % (fdecl.split(':')[0] if fdecl.startswith('translator') else fdecl)
                ck.add_violation(sig, 'proof obligation no longer checks: %s' % fdecl,
                                 {'theorem': fdecl, 'module': 'MpVerif.C15.Props',
                                  'searched': '%d schedules on the real code, none violates the property' % len(lines)}, found_input=False)
    ck.assumptions += [
        'signals are delivered on the interrupted thread; ONE nested delivery inside HandleSigInt is modelled (Reentrant.lean: local theorems, counterexamples for the two count windows) and exercised on the real code at the places reachable without call-outs (inside write, the callback, the re-arm); the whole-history theorems are stated without re-entrance; deeper nesting is not modelled',
        'a store to std::atomic<T> / volatile sig_atomic_t is one indivisible program step; delivery inside a store or inside write(2) is not modelled',
        'write(2) to fd 1 either succeeds completely or fails (both modelled and exercised: fd 1 = memfd, pipe, /dev/null, closed, /dev/full, read-only); partial writes are not modelled; the callback itself returns (its return value is ignored by HandleSigInt)',
        'signal(2) semantics: both the glibc/BSD one and the SysV reset-on-entry one are modelled and exercised (through an interposed ::signal in the harness)',
        'inherited dispositions: default action is modelled; inherited SIG_IGN is exercised on the real code only for schedules whose signals arrive after the constructor (where the property says it must not matter) and compared with the same model',
        'Windows signal repeater thread (SW_sigpipe) out of scope',
    ]
    ck.cov['trusted_base'] += [
        'hand-written Lean model MpVerif/C15/Model.lean: its step lists, deliver and stopQuery are PROVED equal to the meaning of the statement lists regenerated from the clang AST on every run (C15_gen_*); still hand-written and only sampled: the state type, the meaning given to each statement (SrcLang.lean), the environment (signal(2) semantics, object lifetime, interrupter pointer)',
        'translators/gen_signal.py + clang-14 AST: statement shapes are matched exactly, anything else is a loud failure',
        'guarded hook mp_verif_point in src/solver.cc (call-outs only; names are cross-checked against the model step order)',
        'harness reads SignalHandler private statics through explicit-instantiation access (no change to the class) and interposes ::signal',
    ]


def replay(ck, path):
    obj = json.load(open(path))
    rp = obj.get('replay', obj)
    case = rp.get('case')
    if not case:
        print('replay file names no case (obligation-only violation): %s' % json.dumps(rp)[:400])
        return 1
    exe = build_harness(ck)
    drv = ck.driver('drv_c15')
    cf, rf, df, names = detect_layout(exe)
    set_layout(bool(cf), bool(rf), bool(df))
    layout = layout_name(cf, rf, df)
    if case.startswith('h_signal_pt'):
        nreal, nmodel, nverd = nested_instruction_level(ck, drv, layout)
        for sc in 'UO':
            print('scenario %s, real code (instruction, pc offset, outcome) differing from the sequential outcome:' % sc)
            for n, off, o in nreal[sc]:
                if o != nmodel[sc][0]:
                    print('   N=%d HandleSigInt+%d  %s' % (n, off, o))
            print('scenario %s, model by gap k=0..6: %s' % (sc, nmodel[sc]))
        want = rp.get('signature')
        still = any(sg == want for sg, _, _ in nverd)
        print('REPRODUCED' if still else 'not reproduced')
        return 1 if still else 0
    il = run_impl(exe, [case], 1, build_app_harness(ck), build_poll_harness(ck) if is_poll(case) else None)[0]
    ml = run_model(drv, [case], layout)[0]
    if is_app(case):
        k = ml.find(' free[')
        if k >= 0:
            ml = ml[:k] + re.sub(r',i[SOX],', ',i-,', ml[k:])
    print('layout    : ' + layout)
    print('case      : ' + case)
    print('real code : ' + il)
    print('model     : ' + ml)
    verd = oracle(unpoll(case) if is_poll(case) else unapp(case), il)
    if 'poll-timeout' in il:
        verd.append(('poll:lost', 'the polling loop never observed the interrupt'))
    for s, w in verd:
        print('property oracle: %s — %s' % (s, w))
    if il != ml:
        print('model and real code DISAGREE (first difference: %s)' % (first_diff(il, ml),))
    want = rp.get('signature')
    still = (want in [s for s, _ in verd]) if want and want != 'model-differs' else (il != ml or bool(verd))
    print('REPRODUCED' if still else 'not reproduced')
    return 1 if still else 0

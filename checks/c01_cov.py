"""C01 coverage mode (VERIF_COVERAGE=1 ./check C01): not part of the normal tiers.

Builds recsolver + the mp library objects with `--coverage -O0`, runs the quick-tier input streams of both stages
(gadget correspondence and end-to-end) through it, runs `gcov-12 -b -c --json-format` on every .gcda and reports line /
branch coverage of the files anchored by the property (header-only template code is measured through the TUs that
instantiate it, chiefly harness/recsolver/recmodelmgr.cc).  Writes design_notes/coverage/C01.md and C01.json."""
import os, sys, json, glob, gzip, subprocess, shutil, re, time
from common import *
import recsolver

COVFLAGS = ('-O0', '--coverage')
ANCHORS = ['include/mp/flat/problem_flattener.h', 'include/mp/flat/converter.h', 'include/mp/flat/redef/MIP/*.h',
           'include/mp/flat/redef/std/range_con.h', 'include/mp/flat/redef/conic/cones.h',
           'include/mp/flat/constr_prop_down.h', 'include/mp/flat/constr_prepro.h', 'include/mp/flat/expr_bounds.h',
           'include/mp/flat/convert_functional.h', 'include/mp/flat/constr_keeper.h', 'include/mp/flat/constr_hash.h',
           'src/std_constr.cc', 'src/mp/flat/encodings.cpp', 'src/mp/flat/piecewise_linear.cpp', 'include/mp/expr-visitor.h']


def build_cov(ck):
    srcs = [os.path.join(recsolver.RDIR, f) for f in ['recmain.cc', 'recmodelmgr.cc', 'recmodelapi.cc', 'recbackend.cc']]
    objs = ck.objects(srcs, flags=COVFLAGS, extra_inc=[recsolver.RDIR], tag='covrec')
    lib = ck.libmp_objects(flags=COVFLAGS)
    exe = ck.link('recsolver_cov', objs + lib, flags=['--coverage'])
    return exe, objs + lib


def reset_counters():
    for f in glob.glob(os.path.join(BUILD, 'obj', '*.gcda')):
        os.remove(f)


def anchor_files():
    out = []
    for a in ANCHORS:
        out += sorted(glob.glob(os.path.join(REPO, a)))
    return [os.path.realpath(f) for f in out]


def collect(ck):
    """run gcov on every .gcda; merge per source file: line -> max count, (line, branch index) -> max count, functions"""
    work = os.path.join(BUILD, 'gcov')
    shutil.rmtree(work, ignore_errors=True)
    os.makedirs(work)
    anchors = set(anchor_files())
    lines, branches, funcs = {}, {}, {}
    for gcda in sorted(glob.glob(os.path.join(BUILD, 'obj', '*.gcda'))):
        sub = os.path.join(work, os.path.basename(gcda)[:40])
        os.makedirs(sub, exist_ok=True)
        r = subprocess.run(['gcov-12', '-b', '-c', '-m', '--json-format', '-o', os.path.dirname(gcda), gcda], cwd=sub,
                           capture_output=True, text=True)
        for jz in glob.glob(os.path.join(sub, '*.gcov.json.gz')):
            J = json.load(gzip.open(jz, 'rt'))
            for f in J.get('files', []):
                path = os.path.realpath(f['file'] if os.path.isabs(f['file']) else os.path.join(J.get('current_working_directory', ''), f['file']))
                if path not in anchors:
                    continue
                L = lines.setdefault(path, {})
                Bm = branches.setdefault(path, {})
                Fm = funcs.setdefault(path, {})
                for ln in f.get('lines', []):
                    n = ln['line_number']
                    L[n] = max(L.get(n, 0), ln.get('count', 0))
                    for i, b in enumerate(ln.get('branches', [])):
                        if b.get('throw'):
                            continue                      # exceptional edges of calls: not a decision of the code
                        k = (n, ln.get('function_name', ''), i)
                        Bm[k] = max(Bm.get(k, 0), b.get('count', 0))
                for fn in f.get('functions', []):
                    k = (fn['start_line'], short_name(fn.get('demangled_name') or fn['name']))
                    e = Fm.setdefault(k, {'count': 0, 'end': fn.get('end_line', fn['start_line'])})
                    e['count'] = max(e['count'], fn.get('execution_count', 0))
    return lines, branches, funcs


def short_name(n):
    """drop template arguments / parameter lists: Class<...>::method(...) -> Class::method"""
    out, depth = [], 0
    for ch in n:
        if ch in '<':
            depth += 1
        elif ch == '>':
            depth -= 1
        elif depth == 0:
            out.append(ch)
    s = ''.join(out)
    s = re.sub(r'\(.*$', '', s)
    s = re.sub(r'^.* ', '', s) if ' ' in s and '::' in s.split(' ')[-1] else s
    return s.replace('mp::', '')


def merge_branch_lines(Bm):
    """instantiations of a template repeat a line's branches: a branch index of a line counts as taken if taken in any"""
    per = {}
    for (n, fn, i), c in Bm.items():
        per[(n, i)] = max(per.get((n, i), 0), c)
    return per


def report(ck, lines, branches, funcs, stream_info, before=None):
    rows = []
    tot_l = tot_lc = tot_b = tot_bc = 0
    unc_funcs = {}
    unc_branches = {}
    for path in anchor_files():
        rel = os.path.relpath(path, os.path.realpath(REPO))
        L = lines.get(path, {})
        B = merge_branch_lines(branches.get(path, {}))
        nl, cl = len(L), sum(1 for c in L.values() if c > 0)
        nb, cb = len(B), sum(1 for c in B.values() if c > 0)
        tot_l += nl; tot_lc += cl; tot_b += nb; tot_bc += cb
        rows.append((rel, nl, cl, nb, cb))
        # functions never executed (merged over instantiations by start line)
        byline = {}
        for (sl, nm), e in funcs.get(path, {}).items():
            d = byline.setdefault(sl, {'names': set(), 'count': 0, 'end': e['end']})
            d['names'].add(nm); d['count'] = max(d['count'], e['count'])
        unc_funcs[rel] = sorted((sl, sorted(d['names'])[0]) for sl, d in byline.items() if d['count'] == 0)
        # branch sides never taken inside executed functions
        src = open(path, errors='replace').read().split('\n')
        ub = {}
        for (n, i), c in sorted(B.items()):
            if c == 0 and L.get(n, 0) > 0:
                ub.setdefault(n, []).append(i)
        unc_branches[rel] = [(n, idx, src[n - 1].strip()[:110] if n - 1 < len(src) else '') for n, idx in sorted(ub.items())]
    pct = lambda a, b: (100.0 * a / b) if b else 100.0
    summary = {'anchor_line_cov': round(pct(tot_lc, tot_l), 1), 'anchor_branch_cov': round(pct(tot_bc, tot_b), 1),
               'lines_total': tot_l, 'lines_covered': tot_lc, 'branches_total': tot_b, 'branches_covered': tot_bc,
               'stream': stream_info, 'per_file': {r[0]: {'lines': r[1], 'lines_cov': r[2], 'branches': r[3], 'branches_cov': r[4]} for r in rows},
               'measured': time.strftime('%Y-%m-%d'), 'repo_head': sh(['git', '-C', REPO, 'rev-parse', '--short', 'HEAD'])[1].strip()}
    if before:
        summary['before'] = before
    outdir = os.path.join(VERIF, 'design_notes', 'coverage')
    os.makedirs(outdir, exist_ok=True)
    json.dump(summary, open(os.path.join(outdir, 'C01.json'), 'w'), indent=1)
    md = ['# C01 — coverage of the anchored code by the quick-tier input streams', '',
          'Measured with `VERIF_COVERAGE=1 ./check C01` (gcov-12, `--coverage -O0` build of harness/recsolver + libmp; header templates',
          'measured through the instantiating TUs; a template line/branch counts as covered if covered in any instantiation; exceptional',
          '(`throw`) call edges are not counted as branches).  Stream: %s.' % json.dumps(stream_info), '',
          '**Total over the anchored files: lines %.1f %% (%d/%d), branches %.1f %% (%d/%d).**' %
          (summary['anchor_line_cov'], tot_lc, tot_l, summary['anchor_branch_cov'], tot_bc, tot_b), '']
    if before:
        md += ['Before this round (same measurement, generator of round 2b): lines %.1f %%, branches %.1f %%.' %
               (before['anchor_line_cov'], before['anchor_branch_cov']), '']
    md += ['| file | lines | line cov | branches | branch cov |', '|---|---|---|---|---|']
    for rel, nl, cl, nb, cb in rows:
        bf = ''
        if before and rel in before.get('per_file', {}):
            p0 = before['per_file'][rel]
            bf = ' (was %.0f / %.0f)' % (pct(p0['lines_cov'], p0['lines']), pct(p0['branches_cov'], p0['branches']))
        md.append('| %s | %d | %.1f %% | %d | %.1f %%%s |' % (rel, nl, pct(cl, nl), nb, pct(cb, nb), bf))
    md += ['', '## Functions never executed', '']
    for rel, lst in unc_funcs.items():
        if lst:
            md.append('* `%s`: ' % rel + ', '.join('%s (l.%d)' % (nm, sl) for sl, nm in lst))
    md += ['', '## Branch sides never taken inside executed functions', '']
    for rel, lst in unc_branches.items():
        if lst:
            md.append('### %s' % rel)
            for n, idx, txt in lst[:400]:
                md.append('* l.%d [%s]: `%s`' % (n, ','.join(str(i) for i in idx), txt.replace('`', "'")))
            md.append('')
    arms = ck.cov.get('gadget_model_arms') or {}
    if arms:
        md += ['', '## Lean model arms exercised by the gadget correspondence stream', '',
               '(gadget, stored context, answer shape = auxiliaries / rows / bound narrowing, refusal or unmodelled) : count', '']
        for k, v in arms.items():
            md.append('* `%s` : %d' % (k, v))
    open(os.path.join(outdir, 'C01.generated.md'), 'w').write('\n'.join(md) + '\n')
    return summary

"""C01 oracle: semantics of the model delivered to the solver API (as recorded by harness/recsolver) and
the decision  "do auxiliary values exist that satisfy the delivered model with the original variables fixed
to a point?"  (exact: z3 over Int/Real; every `sat` answer is re-verified with an independent exact evaluator
over fractions.Fraction; a brute-force enumerator over small integer auxiliaries cross-checks z3 both ways).

Semantics of delivered constraints (type names as printed by harness/recsolver/recjson.h):
  LinCon*/QuadCon* (Range/LE/EQ/GE)   lb <= body(x) <= ub
  Indicator<alg>                     x[b] == bv  ->  alg
  SOS1Constraint / SOS2Constraint    at most one non-zero / at most two non-zero and adjacent in weight order
                                     (sum_lb/sum_ub are conversion hints, not part of the constraint)
  functional constraints accepted natively: res == f(args)  (context-independent equality, what a solver
  implements):  Abs Min Max And Or Not IfThen Implication Count NumberofConst NumberofVar AllDiff Div PL
  Cond{Lin,Quad}Con{LT,LE,EQ,GE,GT}  (exact strict comparison), Linear/QuadraticFunctionalConstraint
  QuadraticCone / RotatedQuadraticCone (static)
  ComplementarityLinear/Quadratic    (expr>=0 & var at lb) | (expr<=0 & var at ub) | (expr==0)   [var bounds]
truth of a 0/1 argument v is `v >= 1/2` (as in mp's ComputeValue).
"""
from fractions import Fraction as F
import itertools
import sys, glob
try:
    import z3
except ImportError:          # ./check runs under the system python3; z3-solver lives in the python3-vt venv (same CPython version)
    for _p in glob.glob('/opt/veriftools/pyvenv/lib/python3*/site-packages'):
        if _p not in sys.path:
            sys.path.append(_p)
    import z3

INF = float('inf')


MAX_MANT_BITS = 34     # non-integer delivered numbers with a longer odd mantissa are roundings of non-dyadic reals (sqrt, 1/3, ...)
_inexact = [0]


def num(s):
    v = _num(s)
    if isinstance(v, F) and v.denominator != 1 and abs(v.numerator).bit_length() > MAX_MANT_BITS:
        _inexact[0] += 1
    return v


def _num(s):
    if s == 'inf':
        return INF
    if s == '-inf':
        return -INF
    if s == 'nan':
        raise ValueError('nan in delivered model')
    if '*2^' in s:
        m, e = s.split('*2^')
        return F(int(m)) * (F(2) ** int(e))
    return F(int(s))


class Unsupported(Exception):
    pass


def _lin(d):
    return [(num(c), int(v)) for c, v in zip(d['c'], d['v'])]


def _quad(d):
    return [(num(c), int(a), int(b)) for c, a, b in zip(d['c'], d['v1'], d['v2'])]


def _alg(d):
    b = d['body']
    if 'lin' in b:
        lin, quad = _lin(b['lin']), _quad(b['quad'])
    else:
        lin, quad = _lin(b), []
    return {'lin': lin, 'quad': quad, 'lb': num(d['lb']), 'ub': num(d['ub'])}


KINDS = ('LT', 'LE', 'EQ', 'GE', 'GT')
FUNC = {'AbsConstraint': 'abs', 'MinConstraint': 'min', 'MaxConstraint': 'max', 'AndConstraint': 'and',
        'OrConstraint': 'or', 'NotConstraint': 'not', 'IfThenConstraint': 'ifthen', 'ImplicationConstraint': 'impl',
        'CountConstraint': 'count', 'NumberofConstConstraint': 'nofc', 'NumberofVarConstraint': 'nofv',
        'AllDiffConstraint': 'alldiff', 'DivConstraint': 'div', 'PLConstraint': 'pl'}


def parse_con(e):
    """log 'con' event -> normalised dict"""
    t, d = e['type'], e['data']
    c = {'type': t, 'name': e.get('name', '')}
    if t.startswith('LinCon') or t.startswith('QuadCon'):
        c['k'] = 'alg'
        c.update(_alg(d))
    elif t.startswith('Indicator'):
        c['k'] = 'ind'
        c['b'], c['bv'] = int(d['b']), int(d['bv'])
        c['con'] = _alg(d['con'])
    elif t in ('SOS1Constraint', 'SOS2Constraint'):
        c['k'] = 'sos'
        c['sos'] = 1 if t == 'SOS1Constraint' else 2
        c['vars'] = [int(v) for v in d['vars']]
        c['w'] = [num(w) for w in d['weights']]
    elif t.startswith('Cond'):
        c['k'] = 'cond'
        c['res'] = int(d['res'])
        c['ctx'] = d['ctx']
        c['cmp'] = t[-2:]
        if c['cmp'] not in KINDS:
            raise Unsupported(t)
        c['con'] = _alg(d['con'])
    elif t in FUNC:
        c['k'] = 'func'
        c['f'] = FUNC[t]
        c['res'] = int(d['res'])
        c['ctx'] = d['ctx']
        c['args'] = [int(a) for a in d['args']]
        if c['f'] == 'pl':
            c['px'] = [num(v) for v in d['params']['x']]
            c['py'] = [num(v) for v in d['params']['y']]
        else:
            c['params'] = [num(p) for p in d['params']]
    elif t in ('LinearFunctionalConstraint', 'QuadraticFunctionalConstraint'):
        c['k'] = 'fexpr'
        c['res'] = int(d['res'])
        c['ctx'] = d['ctx']
        ex = d['expr']
        c['lin'] = _lin(ex['lin'])
        c['quad'] = _quad(ex['quad']) if 'quad' in ex else []
        c['const'] = num(ex['const'])
    elif t in ('QuadraticConeConstraint', 'RotatedQuadraticConeConstraint'):
        c['k'] = 'cone'
        c['rot'] = t.startswith('Rot')
        c['args'] = [int(a) for a in d['args']]
        c['params'] = [num(p) for p in d['params']]
    elif t.startswith('Complementarity'):
        c['k'] = 'compl'
        ex = d['expr']
        c['lin'] = _lin(ex['lin'])
        c['quad'] = _quad(ex['quad']) if 'quad' in ex else []
        c['const'] = num(ex['const'])
        c['var'] = int(d['var'])
    elif t == 'UnaryEncodingConstraint':
        c['k'] = 'marker'
    else:
        raise Unsupported(t)
    return c


class Delivered:
    """the model the ModelAPI received, from the recsolver log"""

    def __init__(self, log):
        self.lb, self.ub, self.int, self.names = [], [], [], []
        self.objs = {}
        self.cons = []
        self.solved = False
        self.begun = self.ended = False
        self.unsupported = []
        _inexact[0] = 0
        for e in log:
            ev = e.get('ev')
            if ev == 'begin':
                self.begun = True
            elif ev == 'end':
                self.ended = True
            elif ev == 'vars':
                self.lb += [num(s) for s in e['lb']]
                self.ub += [num(s) for s in e['ub']]
                self.int += [int(t) for t in e['int']]
                self.names += list(e.get('names') or [])
            elif ev == 'obj':
                o = {'sense': e['sense'], 'lin': _lin(e['lin']), 'quad': _quad(e['quad']) if 'quad' in e else []}
                self.objs[int(e['i'])] = o
            elif ev == 'con':
                try:
                    self.cons.append(parse_con(e))
                except Unsupported as u:
                    self.unsupported.append(str(u))
            elif ev == 'solve':
                self.solved = True
            elif ev == 'unparsable':
                self.unsupported.append('unparsable log line')
        self.n = len(self.lb)
        self.inexact = _inexact[0]      # number of delivered constants with a long mantissa (rounded non-dyadic reals)

    def types(self):
        h = {}
        for c in self.cons:
            h[c['type']] = h.get(c['type'], 0) + 1
        return h


# ------------------------------------------------------------------ exact evaluator (Fractions)
def _body(c, x):
    v = F(0)
    for cf, j in c['lin']:
        v += cf * x[j]
    for cf, a, b in c['quad']:
        v += cf * x[a] * x[b]
    return v


def _alg_holds(c, x, cmp=None):
    b = _body(c, x)
    if cmp is None:
        return c['lb'] <= b <= c['ub']
    if cmp == 'LT':
        return b < c['ub']
    if cmp == 'LE':
        return b <= c['ub']
    if cmp == 'EQ':
        return b == c['ub']
    if cmp == 'GE':
        return b >= c['lb']
    if cmp == 'GT':
        return b > c['lb']
    raise Unsupported(cmp)


def _tr(v):
    return v >= F(1, 2)


def pl_value(px, py, t):
    n = len(px)
    if n == 1:
        return py[0]

    def slope(i, j):
        return (py[j] - py[i]) / (px[j] - px[i]) if px[j] > px[i] else F(0)
    if t < px[0]:
        return py[0] - slope(0, 1) * (px[0] - t)
    if t > px[-1]:
        return py[-1] + slope(n - 2, n - 1) * (t - px[-1])
    i = 0
    while t > px[i]:
        i += 1
    if px[i] == t:
        return py[i]
    return py[i - 1] + (py[i] - py[i - 1]) * (t - px[i - 1]) / (px[i] - px[i - 1])


def func_value(c, x):
    """value f(args) of a native functional constraint; None when undefined (div by 0)"""
    f, a = c['f'], c['args']
    if f == 'abs':
        return abs(x[a[0]])
    if f == 'min':
        return min(x[j] for j in a)
    if f == 'max':
        return max(x[j] for j in a)
    if f == 'and':
        return F(int(all(_tr(x[j]) for j in a)))
    if f == 'or':
        return F(int(any(_tr(x[j]) for j in a)))
    if f == 'not':
        return F(int(not _tr(x[a[0]])))
    if f == 'ifthen':
        return x[a[1]] if _tr(x[a[0]]) else x[a[2]]
    if f == 'impl':
        return F(int(_tr(x[a[1]]) if _tr(x[a[0]]) else _tr(x[a[2]])))
    if f == 'count':
        return F(sum(1 for j in a if _tr(x[j])))
    if f == 'nofc':
        return F(sum(1 for j in a if x[j] == c['params'][0]))
    if f == 'nofv':
        return F(sum(1 for j in a[1:] if x[j] == x[a[0]]))
    if f == 'alldiff':
        vals = [x[j] for j in a]
        return F(int(len(set(vals)) == len(vals)))
    if f == 'div':
        if x[a[1]] == 0:
            return None
        return x[a[0]] / x[a[1]]
    if f == 'pl':
        return pl_value(c['px'], c['py'], x[a[0]])
    raise Unsupported(f)


def holds(c, x, D=None):
    k = c['k']
    if k == 'alg':
        return _alg_holds(c, x)
    if k == 'ind':
        return (x[c['b']] != c['bv']) or _alg_holds(c['con'], x)
    if k == 'sos':
        nz = [i for i, j in enumerate(c['vars']) if x[j] != 0]
        if c['sos'] == 1:
            return len(nz) <= 1
        return len(nz) <= 1 or (len(nz) == 2 and nz[1] - nz[0] == 1)
    if k == 'cond':
        return x[c['res']] == F(int(_alg_holds(c['con'], x, c['cmp'])))
    if k == 'func':
        v = func_value(c, x)
        return v is not None and x[c['res']] == v
    if k == 'fexpr':
        return x[c['res']] == _body(c, x) + c['const']
    if k == 'cone':
        a, p = c['args'], c['params']
        if c['rot']:
            s = sum(((p[i] * x[a[i]]) ** 2 for i in range(2, len(a))), F(0))
            return p[0] * x[a[0]] >= 0 and p[1] * x[a[1]] >= 0 and 2 * p[0] * x[a[0]] * p[1] * x[a[1]] >= s
        s = sum(((p[i] * x[a[i]]) ** 2 for i in range(1, len(a))), F(0))
        return p[0] * x[a[0]] >= 0 and (p[0] * x[a[0]]) ** 2 >= s
    if k == 'compl':
        e = _body(c, x) + c['const']
        v = x[c['var']]
        lb, ub = D.lb[c['var']], D.ub[c['var']]
        return (e >= 0 and v == lb) or (e <= 0 and v == ub) or e == 0
    if k == 'marker':
        return True
    raise Unsupported(k)


def violated(D, x):
    """indices of delivered constraints / bounds violated by the full assignment x (list of Fractions)"""
    bad = []
    for j in range(D.n):
        if x[j] < D.lb[j] or x[j] > D.ub[j]:
            bad.append(('bound', j))
        if D.int[j] and F(x[j]).denominator != 1:
            bad.append(('int', j))
    for i, c in enumerate(D.cons):
        if not holds(c, x, D):
            bad.append(('con', i))
    return bad


def obj_value(D, x, i=0):
    o = D.objs[i]
    v = F(0)
    for cf, j in o['lin']:
        v += cf * x[j]
    for cf, a, b in o['quad']:
        v += cf * x[a] * x[b]
    return v


# ------------------------------------------------------------------ z3 encoding
def _q(v):
    v = F(v)
    return z3.RealVal(v.numerator) / z3.RealVal(v.denominator) if v.denominator != 1 else z3.RealVal(v.numerator)


class Z3Enc:
    def __init__(self, D, timeout_ms=4000):
        self.D = D
        self.timeout = timeout_ms
        self.raw = [z3.Int('i%d' % j) if D.int[j] else z3.Real('r%d' % j) for j in range(D.n)]
        self.V = [z3.ToReal(v) if D.int[j] else v for j, v in enumerate(self.raw)]
        self.parts = []          # (label, formula)
        for j in range(D.n):
            if D.lb[j] != -INF:
                self.parts.append((('bound', j), self.V[j] >= _q(D.lb[j])))
            if D.ub[j] != INF:
                self.parts.append((('bound', j), self.V[j] <= _q(D.ub[j])))
        for i, c in enumerate(D.cons):
            self.parts.append((('con', i), self.enc(c)))
        self.objx = {i: self.expr(o['lin'], o['quad']) for i, o in D.objs.items()}
        self.stats = {'sat': 0, 'unsat': 0, 'unknown': 0}

    def expr(self, lin, quad, const=0):
        t = [_q(const)] if const != 0 or (not lin and not quad) else []
        for cf, j in lin:
            t.append(_q(cf) * self.V[j])
        for cf, a, b in quad:
            t.append(_q(cf) * self.V[a] * self.V[b])
        return z3.Sum(t) if len(t) > 1 else t[0]

    def alg(self, c, cmp=None):
        b = self.expr(c['lin'], c['quad'])
        if cmp is None:
            fs = []
            if c['lb'] != -INF:
                fs.append(b >= _q(c['lb']))
            if c['ub'] != INF:
                fs.append(b <= _q(c['ub']))
            return z3.And(fs) if fs else z3.BoolVal(True)
        if cmp == 'LT':
            return b < _q(c['ub'])
        if cmp == 'LE':
            return b <= _q(c['ub'])
        if cmp == 'EQ':
            return b == _q(c['ub'])
        if cmp == 'GE':
            return b >= _q(c['lb'])
        if cmp == 'GT':
            return b > _q(c['lb'])
        raise Unsupported(cmp)

    def tr(self, j):
        return self.V[j] >= _q(F(1, 2))

    def b2n(self, f):
        return z3.If(f, z3.RealVal(1), z3.RealVal(0))

    def enc(self, c):
        V = self.V
        k = c['k']
        if k == 'alg':
            return self.alg(c)
        if k == 'ind':
            return z3.Implies(V[c['b']] == _q(c['bv']), self.alg(c['con']))
        if k == 'sos':
            nz = [V[j] != 0 for j in c['vars']]
            n = len(nz)
            fs = []
            for i in range(n):
                for j in range(i + 1, n):
                    if c['sos'] == 1 or j - i > 1:
                        fs.append(z3.Not(z3.And(nz[i], nz[j])))
            if c['sos'] == 2:
                for i in range(n - 2):
                    fs.append(z3.Not(z3.And(nz[i], nz[i + 1], nz[i + 2])))
            return z3.And(fs) if fs else z3.BoolVal(True)
        if k == 'cond':
            return V[c['res']] == self.b2n(self.alg(c['con'], c['cmp']))
        if k == 'fexpr':
            return V[c['res']] == self.expr(c['lin'], c['quad'], c['const'])
        if k == 'func':
            f, a, r = c['f'], c['args'], V[c['res']]
            if f == 'abs':
                return r == z3.If(V[a[0]] >= 0, V[a[0]], -V[a[0]])
            if f in ('min', 'max'):
                fs = [(r <= V[j]) if f == 'min' else (r >= V[j]) for j in a]
                fs.append(z3.Or([r == V[j] for j in a]))
                return z3.And(fs)
            if f == 'and':
                return r == self.b2n(z3.And([self.tr(j) for j in a]))
            if f == 'or':
                return r == self.b2n(z3.Or([self.tr(j) for j in a]))
            if f == 'not':
                return r == self.b2n(z3.Not(self.tr(a[0])))
            if f == 'ifthen':
                return r == z3.If(self.tr(a[0]), V[a[1]], V[a[2]])
            if f == 'impl':
                return r == self.b2n(z3.If(self.tr(a[0]), self.tr(a[1]), self.tr(a[2])))
            if f == 'count':
                return r == z3.Sum([self.b2n(self.tr(j)) for j in a] + [z3.RealVal(0)])
            if f == 'nofc':
                return r == z3.Sum([self.b2n(V[j] == _q(c['params'][0])) for j in a] + [z3.RealVal(0)])
            if f == 'nofv':
                return r == z3.Sum([self.b2n(V[j] == V[a[0]]) for j in a[1:]] + [z3.RealVal(0)])
            if f == 'alldiff':
                return r == self.b2n(z3.Distinct([V[j] for j in a]) if len(a) > 1 else z3.BoolVal(True))
            if f == 'div':
                return z3.And(V[a[1]] != 0, r * V[a[1]] == V[a[0]])
            if f == 'pl':
                return r == self.pl(c['px'], c['py'], V[a[0]])
            raise Unsupported(f)
        if k == 'cone':
            a, p = c['args'], c['params']
            t = [_q(p[i]) * V[a[i]] for i in range(len(a))]
            if c['rot']:
                s = z3.Sum([t[i] * t[i] for i in range(2, len(a))] + [z3.RealVal(0)])
                return z3.And(t[0] >= 0, t[1] >= 0, 2 * t[0] * t[1] >= s)
            s = z3.Sum([t[i] * t[i] for i in range(1, len(a))] + [z3.RealVal(0)])
            return z3.And(t[0] >= 0, t[0] * t[0] >= s)
        if k == 'compl':
            e = self.expr(c['lin'], c['quad'], c['const'])
            v = V[c['var']]
            lb, ub = self.D.lb[c['var']], self.D.ub[c['var']]
            alts = [e == 0]
            if lb != -INF:
                alts.append(z3.And(e >= 0, v == _q(lb)))
            if ub != INF:
                alts.append(z3.And(e <= 0, v == _q(ub)))
            return z3.Or(alts)
        if k == 'marker':
            return z3.BoolVal(True)
        raise Unsupported(k)

    def pl(self, px, py, t):
        n = len(px)
        if n == 1:
            return _q(py[0])

        def sl(i, j):
            return (py[j] - py[i]) / (px[j] - px[i]) if px[j] > px[i] else F(0)
        e = _q(py[-1]) + _q(sl(n - 2, n - 1)) * (t - _q(px[-1]))            # t > last
        for i in range(n - 1, 0, -1):                                       # px[i-1] <= t <= px[i]
            seg = _q(py[i - 1]) + _q(sl(i - 1, i)) * (t - _q(px[i - 1]))
            e = z3.If(t <= _q(px[i]), seg, e)
        return z3.If(t < _q(px[0]), _q(py[0]) - _q(sl(0, 1)) * (_q(px[0]) - t), e)

    # ---- queries
    def subst_pairs(self, fixed):
        """fixed: {delivered var index: Fraction}"""
        pairs = []
        for j, v in fixed.items():
            v = F(v)
            if self.D.int[j]:
                if v.denominator != 1:
                    return None                      # integer variable cannot take this value
                pairs.append((self.raw[j], z3.IntVal(v.numerator)))
            else:
                pairs.append((self.raw[j], _q(v)))
        return pairs

    def solve(self, fixed, extra=None, skip=(), relax_bounds=(), add=()):
        """-> ('sat', x) | ('unsat', None) | ('unknown', None);  x = full assignment (Fractions) or None if inexact.
        skip: labels of parts to leave out; extra: function(self)->formula; add: extra formulas"""
        pairs = self.subst_pairs(fixed)
        if pairs is None:
            return 'unsat', None
        fs = [f for (lab, f) in self.parts if lab not in skip and not (lab[0] == 'bound' and lab[1] in relax_bounds)]
        fs += list(add)
        if extra is not None:
            fs.append(extra)
        g = z3.And(fs) if fs else z3.BoolVal(True)
        if pairs:
            g = z3.substitute(g, *pairs)
        s = z3.Solver()
        s.set('timeout', self.timeout)
        s.add(g)
        r = s.check()
        if r == z3.unsat:
            self.stats['unsat'] += 1
            return 'unsat', None
        if r != z3.sat:
            self.stats['unknown'] += 1
            return 'unknown', None
        self.stats['sat'] += 1
        m = s.model()
        x = []
        exact = True
        for j in range(self.D.n):
            if j in fixed:
                x.append(F(fixed[j]))
                continue
            v = m.eval(self.raw[j], model_completion=True)
            try:
                if z3.is_int_value(v):
                    x.append(F(v.as_long()))
                elif z3.is_rational_value(v):
                    x.append(F(v.numerator_as_long(), v.denominator_as_long()))
                else:
                    exact = False
                    x.append(None)
            except Exception:
                exact = False
                x.append(None)
        return 'sat', (x if exact else None)


def enumerate_aux(D, fixed, limit=20000):
    """brute force over auxiliaries when all of them are integer with small domains.
    -> list of full assignments satisfying the delivered model, or None if not enumerable"""
    aux = [j for j in range(D.n) if j not in fixed]
    doms = []
    total = 1
    for j in aux:
        if not D.int[j] or D.lb[j] == -INF or D.ub[j] == INF:
            return None
        lo, hi = D.lb[j], D.ub[j]
        lo = -(-lo.numerator // lo.denominator)
        hi = hi.numerator // hi.denominator
        d = list(range(lo, hi + 1))
        total *= max(1, len(d))
        if total > limit:
            return None
        doms.append(d)
    sols = []
    x = [None] * D.n
    for j, v in fixed.items():
        x[j] = F(v)
    for j, v in fixed.items():
        if x[j] < D.lb[j] or x[j] > D.ub[j] or (D.int[j] and x[j].denominator != 1):
            return []
    for combo in itertools.product(*doms):
        for j, v in zip(aux, combo):
            x[j] = F(v)
        if all(holds(c, x, D) for c in D.cons):
            sols.append(list(x))
    return sols

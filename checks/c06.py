"""C06 — inferred bounds / integrality / constant / alias decisions for result variables never cut off a value.

Stages: (1) Lean theorems + axiom audit; (2) correspondence: the real FlatConverter::AssignResult2Args
(harness/h_prepro.cc, compiled from $MP_REPO) against the Lean model driver on generated op scripts, exact
token comparison; (3) property oracle on what the real code returned: exact evaluation (fractions) of every
expression on sampled points of the argument boxes against the bounds / type / constant / alias the real code chose."""
import os, sys, subprocess, json, re, math
from fractions import Fraction as F
from common import *
sys.path.insert(0, os.path.join(VERIF, 'gen'))
import c06gen as G

INF = G.INF
N_THEOREMS = 55
NUMTOK = re.compile(r'-?\d+(?:p-?\d+)?')


def not_a_double(line):
    """true if a number printed by the exact model is not representable as a double (non-dyadic, or an odd
    mantissa of 2^53 or more): the real computation was rounded there"""
    if '/' in line:
        return True
    for t in NUMTOK.findall(line):
        if abs(int(t.split('p')[0])) >= 2 ** 53:
            return True
    return False


def build_harness(ck):
    objs = ck.objects([os.path.join(VERIF, 'harness', 'h_prepro.cc')], flags=['-O1', '-g'], tag='c06')
    return ck.link('h_prepro', objs + ck.libmp_objects(flags=('-O1', '-g')))


# ------------------------------------------------------------------ sampling
def sample_points(r, lb, ub, is_int):
    c = []
    fin_lb, fin_ub = lb != -INF, ub != INF
    if fin_lb:
        c += [lb, lb + F(1, 2 ** 30), lb + F(1, 4), lb + 1]
    if fin_ub:
        c += [ub, ub - F(1, 2 ** 30), ub - F(1, 4), ub - 1]
    if fin_lb and fin_ub:
        c += [(lb + ub) / 2, lb + (ub - lb) * F(r.rint(0, 64), 64), lb + (ub - lb) * F(r.rint(0, 64), 64)]
    base = lb if fin_lb else (ub if fin_ub else F(0))
    if not fin_lb:
        c += [base - 1, base - 1000, base - F(2) ** 60, F(-3), F(-7, 2)]
    if not fin_ub:
        c += [base + 1, base + 1000, base + F(2) ** 60, F(3), F(7, 2)]
    c += [F(0), F(1), F(-1), F(1, 2), F(-1, 2), F(2), F(-2), F(1, 2 ** 30), F(-1, 2 ** 30), F(r.rint(-40, 40), 4)]
    out = []
    for v in c:
        if is_int:
            for w in (F(math.floor(v)), F(math.ceil(v))):
                if lb <= w <= ub and w not in out:
                    out.append(w)
        elif lb <= v <= ub and v not in out:
            out.append(v)
    return out


def ref(t):
    return t if t.startswith('$') else int(t)


class CaseResult:
    pass


def def_refs(t):
    """variable indices used by a definition token list"""
    k = t[0]
    try:
        if k == 'lin':
            ts, _ = G.parse_lin(t, 2, int); return [v for _, v in ts]
        if k == 'quad':
            ts, i = G.parse_lin(t, 2, int); qs, _ = G.parse_quad(t, i, int)
            return [v for _, v in ts] + [a for _, a, _ in qs] + [b for _, _, b in qs]
        if k == 'clin':
            ts, _ = G.parse_lin(t, 3, int); return [v for _, v in ts]
        if k == 'cquad':
            ts, i = G.parse_lin(t, 3, int); qs, _ = G.parse_quad(t, i, int)
            return [v for _, v in ts] + [a for _, a, _ in qs] + [b for _, _, b in qs]
        if k in ('min', 'max', 'and', 'or', 'alldiff', 'count', 'nvar'):
            return [int(s) for s in t[2:2 + int(t[1])]]
        if k == 'nconst':
            return [int(s) for s in t[3:3 + int(t[2])]]
        if k in ('pow', 'expa', 'loga'):
            return [int(t[1])]
        return [int(s) for s in t[1:]]
    except Exception:
        return []


def oracle_case(ck, r, case, impl_lines, nsamples, stats):
    """impl_lines: harness output lines for the op lines of the case. Returns list of (sig, what, replay)."""
    viols = []
    nv = len(case.vars)
    vars_tab = [{'lb': lb, 'ub': ub, 'lb0': lb, 'ub0': ub, 'int': ii, 'def': None, 'orig': True, 'by': None} for lb, ub, ii, _ in case.vars]
    steps = []   # per op: dict(op, outcome, newvars[], narrowed[])
    for op, line in zip(case.ops, impl_lines):
        segs = line.split(' | ')
        head = segs[0].split(' ')
        st = {'op': op, 'outcome': head, 'new': [], 'narrowed': [], 'nvars_before': len(vars_tab)}
        if head[0] in ('bad-op', 'unsupported'):
            steps.append(st)
            continue
        for s in segs[1:]:
            t = s.split(' ')
            if t[0] == 'narrowed':
                v = int(t[1])
                st['narrowed'].append((v, vars_tab[v]['lb'], vars_tab[v]['ub']))
                vars_tab[v]['lb'], vars_tab[v]['ub'] = G.untok(t[2]), G.untok(t[3])
                vars_tab[v]['narrowed_by'] = op[0]
            elif t[0] == 'v':
                v = int(t[1])
                assert v == len(vars_tab), (v, len(vars_tab), line)
                d = t[5:]
                vars_tab.append({'lb': G.untok(t[2]), 'ub': G.untok(t[3]), 'lb0': G.untok(t[2]), 'ub0': G.untok(t[3]), 'int': t[4] == '1',
                                 'def': None if d == ['none'] else d, 'orig': False, 'by': op[0]})
                st['new'].append(v)
        steps.append(st)
        stats['outcome'][head[0] if head[0] != 'var' else
                         ('var-existing' if int(head[1]) < st['nvars_before'] else 'var-new')] = \
            stats['outcome'].get(head[0] if head[0] != 'var' else
                                 ('var-existing' if int(head[1]) < st['nvars_before'] else 'var-new'), 0) + 1
    # candidate points per original variable (original boxes)
    cands = [sample_points(r, lb, ub, ii) for lb, ub, ii, _ in case.vars]
    if any(not c for c in cands):
        stats['empty_domain_cases'] += 1
        return viols
    seen_sig = set()

    def add(sig, what, sample, extra):
        if sig in seen_sig:
            return
        seen_sig.add(sig)
        viols.append((sig, what, {'case': case.lines(), 'sample_original_vars': [str(x) for x in sample],
                                  'impl_lines': impl_lines, **extra}))

    for si in range(nsamples):
        if si == 0:
            sample = [c[0] for c in cands]
        elif si == 1:
            sample = [c[min(4, len(c) - 1)] for c in cands]
        else:
            sample = [r.choice(c) for c in cands]
        val = {i: sample[i] for i in range(nv)}
        all_defined = True
        for k, st in enumerate(steps):
            head = st['outcome']
            key = '$%d' % k
            if head[0] == 'throw' and head[1:2] != ['infeas']:
                # the converter refused with an error (e.g. "Asked to complement variable with bounds 1..1" under
                # cvt:pre:eqresult=0): a refusal, nothing is delivered, nothing is cut off
                stats['refusals'][' '.join(head[1:])] = stats['refusals'].get(' '.join(head[1:]), 0) + (1 if si == 0 else 0)
                all_defined = False
                break
            if head[0] == 'throw':
                # the converter declared the model infeasible (empty domain): wrong if the expression has a value here
                try:
                    expected = G.ev(st['op'], val, ref) if all_defined else None
                except (G.Undefined, KeyError):
                    expected = None
                if expected is not None:
                    add('%s:arg-domain-cut' % st['op'][0], '%s has the value %s at a point of the argument box, but the converter '
                        'declared the domain empty (%s)' % (' '.join(st['op']), expected, ' '.join(head)), sample, {'op_index': k})
                all_defined = False
                break
            if head[0] in ('bad-op', 'unsupported'):
                all_defined = False
                break
            for v in st['new']:
                d = vars_tab[v]['def']
                try:
                    if d is None:
                        val[v] = vars_tab[v]['lb']
                    elif any(a >= len(vars_tab) or a < 0 for a in def_refs(d)):
                        val[v] = None
                    else:
                        val[v] = G.ev(d, val, int)
                        if val[v] in (INF, -INF):
                            val[v] = None
                except G.Undefined:
                    val[v] = None
            try:
                expected = G.ev(st['op'], val, ref)
            except G.Undefined:
                expected = None
            except KeyError:
                expected = None
            if expected is None or expected in (INF, -INF):
                all_defined = False if expected is None else all_defined
                val[key] = None
                if expected is None:
                    break       # not a point of the model's domain: nothing can be cut off here
                continue
            stats['evaluations'] += 1
            if head[0] == 'const':
                got = G.untok(head[1])
                val[key] = got
                if got != expected:
                    add('%s:const-differs' % st['op'][0],
                        '%s replaced by the constant %s but its value is %s' % (' '.join(st['op']), got, expected), sample,
                        {'op_index': k, 'expected': str(expected), 'got': str(got)})
            else:
                v = int(head[1])
                got = val.get(v) if v < len(vars_tab) else None
                val[key] = got if got is not None else expected
                existing = v < st['nvars_before']
                if v >= len(vars_tab):
                    add('%s:result-var-out-of-range' % st['op'][0], 'result variable %d does not exist' % v, sample, {'op_index': k})
                elif got is not None and got != expected:
                    cls = ''
                    if st['op'][0] == 'abs':
                        a = ref(st['op'][1])
                        if isinstance(a, str):
                            ho = steps[int(a[1:])]['outcome']
                            a = int(ho[1]) if ho[0] == 'var' else ('const', G.untok(ho[1]))
                        if isinstance(a, tuple):
                            if a[1] is not None and a[1] < 0:
                                cls = 'fixed-negative-arg:'
                        elif a < len(vars_tab) and vars_tab[a]['lb0'] == vars_tab[a]['ub0'] and vars_tab[a]['ub0'] != INF \
                                and vars_tab[a]['ub0'] < 0:
                            cls = 'fixed-negative-arg:'
                    add('%s:%s%s' % (st['op'][0], cls, 'alias-differs' if existing else 'redef-differs'),
                        '%s = %s at the sample, but the variable x%d returned for it has value %s%s' %
                        (' '.join(st['op']), expected, v, got, '' if existing else ' (defined by: %s)' % ' '.join(vars_tab[v]['def'] or ['fixed'])),
                        sample, {'op_index': k, 'expected': str(expected), 'got': str(got), 'result_var': v})
        if not all_defined:
            stats['samples_outside_domain'] += 1
            continue
        # bounds / type of every variable the converter created or narrowed (final state)
        for v, vt in enumerate(vars_tab):
            x = val.get(v)
            if x is None:
                continue
            if vt['orig'] and not all_defined:
                continue   # a point outside the domain of some expression says nothing about argument narrowing
            who = vt['def'][0] if vt['def'] else (vt.get('narrowed_by') or 'fixed')
            if vt['orig']:
                who = vt.get('narrowed_by') or 'orig'
            tag = ''
            lo, hi = vt['lb'], vt['ub']
            if lo is None or hi is None:
                add('%s:nan-bound' % who, 'variable x%d has a NaN bound' % v, sample, {'var': v})
                continue
            stats['bound_checks'] += 1
            if x < lo or x > hi:
                side = 'lb' if x < lo else 'ub'
                exc = (lo - x) if x < lo else (x - hi)
                if who in ('asin', 'acos', 'atan') and exc < F(1, 10 ** 14):
                    tag = ':pi-literal'
                if vt['orig'] and who == 'log':
                    sig = 'log:arg-domain-cut'
                elif vt['orig']:
                    sig = '%s:arg-narrowed-cuts-point' % who
                else:
                    sig = '%s:%s-cuts-value%s' % (who, side, tag)
                add(sig, 'x%d = %s (%s) lies outside the bounds [%s, %s] the converter gave it (excess %s)' %
                    (v, x, ' '.join(vt['def']) if vt['def'] else 'argument', lo, hi, float(exc)), sample,
                    {'var': v, 'value': str(x), 'lb': str(lo), 'ub': str(hi)})
            if vt['int'] and x.denominator != 1:
                add('%s:integer-but-fractional' % who, 'x%d = %s (%s) is declared INTEGER' %
                    (v, x, ' '.join(vt['def']) if vt['def'] else 'argument'), sample, {'var': v, 'value': str(x)})
    return viols


# arms of the Lean model functions (Model.lean `match` / `if` arms), as recognisable from the driver's output for one operation
EXPECTED_ARMS = {
    'lin': ['const', 'new-self', 'mapfind'], 'quad': ['const', 'new-self', 'mapfind'],
    'pow': ['const', 'alias', 'new-self', 'mapfind', 'exp0', 'exp1', 'neg-exp-lb<0-skip', 'frac-exp-lb<0-skip', 'even-zero-crossing',
            'even-one-sided', 'odd', 'neg-exp-lb>=0', 'frac-exp-exact'],
    'min': ['const', 'new-self', 'mapfind'], 'max': ['const', 'new-self', 'mapfind'],
    'and': ['const', 'new-self', 'new-rewritten', 'mapfind'], 'or': ['const', 'new-self', 'new-rewritten', 'mapfind'],
    'alldiff': ['new-self'], 'count': ['const', 'new-self'], 'nvar': ['const', 'new-self'], 'nconst': ['const', 'new-self'],
    'abs': ['alias', 'redirect', 'redirect-const', 'new-self', 'mapfind'], 'not': ['new-self', 'mapfind'],
    'div': ['const', 'new-self', 'mapfind'], 'ifthen': ['const', 'new-self', 'mapfind'], 'impl': ['new-self', 'mapfind'],
    'clin': ['const', 'alias', 'redirect', 'new-self', 'new-rewritten', 'mapfind', 'throw complement', 'eq', 'ineq', 'empty-body',
             'opt-eqresult-off', 'opt-eqbinary-off'],
    'cquad': ['const', 'new-self', 'new-rewritten', 'mapfind', 'eq', 'ineq', 'empty-body'],
    'log': ['new-self', 'narrowed', 'throw infeas'], 'loga': ['new-self', 'narrowed', 'throw infeas'], 'expa': ['new-self'],
}


def op_arms(case, k, op, line, nvars_before, first_new_kind):
    """arms of the model taken by this operation, read off the driver's output line (+ the parameters of the operation)"""
    arms = []
    head = line.split(' | ')[0].split(' ')
    segs = line.split(' | ')[1:]
    news = [sg.split(' ') for sg in segs if sg.startswith('v ')]
    if head[0] == 'const':
        arms.append('const')
    elif head[0] == 'throw':
        arms.append('throw ' + ' '.join(head[1:]))
    elif head[0] == 'unsupported':
        arms.append('unsupported')
    elif head[0] == 'var':
        v = int(head[1])
        if v < nvars_before:
            arms.append('mapfind' if first_new_kind.get(v) == op[0] and op[0] not in ('abs',) or
                        (first_new_kind.get(v) == op[0]) else 'alias')
        else:
            mine = [t for t in news if int(t[1]) == v]
            dk = mine[0][5] if mine else '?'
            if dk == op[0]:
                same = mine[0][5:] == [t if not t.startswith('$') else None for t in op] or len(mine[0][5:]) == len(op) and \
                    all(a == b or b.startswith('$') for a, b in zip(mine[0][5:], op))
                arms.append('new-self' if same else 'new-rewritten')
            elif dk == 'none':
                arms.append('redirect-const')
            else:
                arms.append('redirect')
    if any(sg.startswith('narrowed') for sg in segs):
        arms.append('narrowed')
    if op[0] == 'pow' and head[0] != 'bad-op':
        p = G.untok(op[2])
        b = None
        mine = [t for t in news if t[5] == 'pow']
        skipped = bool(mine) and mine[0][2] == '-inf' and mine[0][3] == 'inf'
        if p == 0:
            arms.append('exp0')
        elif p == 1:
            arms.append('exp1')
        elif p.denominator != 1:
            arms.append('frac-exp-lb<0-skip' if skipped else 'frac-exp-exact')
        elif p < 0:
            arms.append('neg-exp-lb<0-skip' if skipped else 'neg-exp-lb>=0')
        elif int(p) % 2 == 1:
            arms.append('odd')
        else:
            arms.append('even-zero-crossing' if mine and mine[0][2] == '0' else 'even-one-sided')
    if op[0] in ('clin', 'cquad'):
        arms.append('eq' if op[1] == '0' else 'ineq')
        nlin = int(op[3])
        if nlin == 0 and (op[0] == 'clin' or op[3 + 1 + 2 * nlin] == '0'):
            arms.append('empty-body')
        for nm, val in case.opts:
            if val == 0 and nm in ('eqresult', 'eqbinary') and op[1] == '0':
                arms.append('opt-%s-off' % nm)
    return arms


def gen_cases(ck, quick):
    r = G.Rng(ck.seed * 1000003 + 17)
    cases = []
    corpus_dir = os.path.join(VERIF, 'corpus', 'C06')
    corpus_lines = []
    if os.path.isdir(corpus_dir):
        for fn in sorted(os.listdir(corpus_dir)):
            if fn.endswith('.txt'):
                cur = None
                for l in open(os.path.join(corpus_dir, fn)):
                    l = l.strip()
                    if not l or l.startswith('#'):
                        continue
                    t = l.split(' ')
                    if t[0] == 'case':
                        cur = G.Case('corpus-' + t[1]); cases.append(cur)
                    elif t[0] == 'opt' and cur is not None:
                        cur.opts.append((t[1], int(t[2])))
                    elif t[0] == 'var' and cur is not None:
                        cur.vars.append((G.untok(t[1]), G.untok(t[2]), t[3] == '1', 'corpus'))
                    elif t[0] == 'op' and cur is not None:
                        cur.ops.append(t[1:]); cur.kinds.append(t[1])
    n_corpus = len(cases)
    ncases = 2500 if quick else 30000
    focus_list = [None, None, 'pow', 'clin', 'quad', 'div', 'abs', 'tr', 'lin', 'and', 'or', 'cquad', 'powf', 'ifthen', 'min', 'max', 'eqbin']
    for i in range(ncases):
        cases.append(G.gen_case(r, 'g%d' % i, focus=focus_list[i % len(focus_list)]))
    cases = [c for c in cases if c.ops]
    return cases, n_corpus


def run(ck):
    if os.environ.get('VERIF_COVERAGE'):
        return coverage_run(ck)
    quick = ck.tier == 'quick'
    # ---- 0. regenerate the definitions translated from the current source (written only if changed)
    gen = os.path.join(LEAN, 'MpVerif', 'Gen', 'C06Prepro.lean')
    rc, out, err = sh([sys.executable, os.path.join(VERIF, 'translators', 'gen_c06.py'), REPO, gen, os.path.join(BUILD, 'tr')], timeout=600)
    ck.log((out.strip() or err.strip())[-300:])
    translator_ok = rc == 0
    # ---- 1. proof obligations
    if translator_ok:
        proof_ok, failing = ck.proof_stage('MpVerif.C06.Props', 'MpVerif/C06/Props.lean', 'C06_',
                                            ['MpVerif/C06/*.lean', 'MpVerif/Gen/C06Prepro.lean'], expect_min=N_THEOREMS)
    else:
        proof_ok, failing = False, ['translator: ' + (out + err).strip()[-300:]]
        ck.cov.update({'obligations': N_THEOREMS, 'discharged': 0, 'checker_cmd': 'translators/gen_c06.py failed'})
    ck.log('proof stage: ok=%s failing=%s' % (proof_ok, failing[:10]))
    if ck.tier == 'thorough' and proof_ok:
        bad = ck.leanchecker(['MpVerif.C06.Props'])
        if bad:
            failing += ['leanchecker rejected %s' % m for m in bad]
            proof_ok = False
    # ---- 2. harness + driver
    exe = build_harness(ck)
    drv = ck.driver('drv_c06')
    cases, n_corpus = gen_cases(ck, quick)
    opsf = os.path.join(BUILD, 'c06.ops.txt')
    with open(opsf, 'w') as f:
        for c in cases:
            f.write('\n'.join(c.lines()) + '\n')
    implf, modf = os.path.join(BUILD, 'c06.impl.out'), os.path.join(BUILD, 'c06.model.out')
    env = dict(os.environ); env['ASAN_OPTIONS'] = 'detect_leaks=0'
    with open(implf, 'w') as fo:
        p = subprocess.run([exe, opsf], stdout=fo, stderr=subprocess.PIPE, text=True, env=env)
    crashed = p.returncode != 0
    with open(opsf) as fi, open(modf, 'w') as fo:
        pm = subprocess.run([drv], stdin=fi, stdout=fo, stderr=subprocess.PIPE, text=True)
    impl = open(implf).read().split('\n')
    model = open(modf).read().split('\n')
    if crashed:
        ck.add_violation('harness-crash', 'harness exited with %s after %d output lines: %s' % (p.returncode, len(impl), p.stderr[-800:]),
                         {'cmd': '%s %s' % (exe, opsf), 'stderr': p.stderr[-2000:]}, found_input=True)
    if pm.returncode != 0:
        failing.append('model driver exited with %s' % pm.returncode)
        proof_ok = False
    # ---- 3. per case: correspondence + oracle
    stats = {'outcome': {}, 'evaluations': 0, 'bound_checks': 0, 'empty_domain_cases': 0, 'samples_outside_domain': 0, 'refusals': {}}
    kinds = {}
    boxcls = {}
    li = 0
    corr_bad = {}
    n_lines = 0
    oracle_viol = {}
    orr = G.Rng(ck.seed * 7919 + 5)
    nsamples = 24 if quick else 40
    n_unsupported = 0
    n_inexact = 0
    arms = {}
    distinct = set()
    for c in cases:
        nl = 1 + len(c.opts) + len(c.vars) + len(c.ops)
        il = impl[li:li + nl]
        ml = model[li:li + nl]
        li += nl
        if len(il) < nl:
            break
        for (_, _, _, cl) in c.vars:
            boxcls[cl] = boxcls.get(cl, 0) + 1
        op_impl = il[1 + len(c.opts) + len(c.vars):]
        op_model = ml[1 + len(c.opts) + len(c.vars):]
        case_corr = None
        nvb = len(c.vars)
        first_new_kind = {}
        for k, op in enumerate(c.ops):
            if k < len(op_model) and op_model[k] not in ('unsupported', '<missing>'):
                for a_ in op_arms(c, k, op, op_model[k], nvb, first_new_kind):
                    arms.setdefault(op[0], {})
                    arms[op[0]][a_] = arms[op[0]].get(a_, 0) + 1
                for sg in op_model[k].split(' | ')[1:]:
                    if sg.startswith('v '):
                        t_ = sg.split(' ')
                        first_new_kind[int(t_[1])] = t_[5]
                        nvb += 1

            kinds[op[0]] = kinds.get(op[0], 0) + 1
            n_lines += 1
            a, b = op_impl[k], (op_model[k] if k < len(op_model) else '<missing>')
            distinct.add((op[0], a.split(' ')[0], ' '.join(op[1:])[:60]))
            if not_a_double(b):
                # a non-dyadic number in the exact model: the double computation of the real code was rounded here
                n_inexact += 1
                op_impl = op_impl[:k] + ['unsupported'] * (len(c.ops) - k)
                break
            if b == 'unsupported':
                # the real code runs into undefined behaviour / inexact arithmetic here (see design notes): not compared
                n_unsupported += 1
                op_impl = op_impl[:k] + ['unsupported'] * (len(c.ops) - k)
                break
            if a != b and case_corr is None:
                case_corr = (k, op, a, b)
        ov = oracle_case(ck, orr, c, op_impl, nsamples, stats)
        for sig, what, rep in ov:
            oracle_viol.setdefault(sig, []).append((what, rep))
        if case_corr:
            k, op, a, b = case_corr
            corr_bad.setdefault(op[0], []).append({'case': c.lines(), 'op_index': k, 'impl': a, 'model': b,
                                                    'oracle_failed_on_case': bool(ov)})
        if len(ck.cov['samples']) < 6 and c.ops:
            ck.sample('%s  =>  %s' % (' ; '.join(c.lines()[1:]), ' ; '.join(op_impl)))
    for sig, lst in sorted(oracle_viol.items()):
        what, rep = lst[0]
        rep['replay_cmd'] = 'printf "%%s\\n" <case lines> | %s   (harness built from $MP_REPO by ./check C06)' % os.path.basename(exe)
        ck.add_violation(sig, '%s (%d cases in this run)' % (what, len(lst)), rep, found_input=True)
    for kind, lst in sorted(corr_bad.items()):
        e = lst[0]
        found = any(x['oracle_failed_on_case'] for x in lst)
        if found and not any(v['sig'].startswith(kind + ':') for v in ck.violations):
            # the oracle failure on these cases is a known finding only; the disagreement itself is new
            found = False
        ck.add_violation('corr:%s' % kind,
                         'Lean model and real code disagree on %d case(s) of kind %s; first: op %s -> impl "%s" / model "%s"' %
                         (len(lst), kind, [l for l in e['case'] if l.startswith('op ')][e['op_index']], e['impl'], e['model']),
                         {'first': e, 'more': lst[1:4], 'correspondence': 'h_prepro vs drv_c06'}, found_input=found)
    if not proof_ok:
        for fdecl in failing:
            ck.add_violation('obligation:%s' % fdecl[:60], 'proof obligation no longer checks: %s' % fdecl,
                             {'theorem': fdecl, 'module': 'MpVerif.C06.Props',
                              'searched': '%d exact evaluations on the real code' % stats['evaluations']}, found_input=False)
    ck.cov['evaluations'] = stats['evaluations']
    ck.cov['bound_checks'] = stats['bound_checks']
    ck.cov['distinct_nontrivial'] = len(distinct)
    ck.cov['rule'] = 'distinct (constraint kind, outcome class, parameters/arguments) triples of operations run through the real AssignResult2Args'
    ck.cov['traces_validated_against_impl'] = n_lines
    ck.cov['correspondence'] = {'op_lines_compared_model_vs_impl': n_lines, 'cases': len(cases), 'corpus_cases': n_corpus,
                                'disagreements': sum(len(v) for v in corr_bad.values()), 'model_unsupported': n_unsupported, 'inexact_not_compared': n_inexact}
    ck.cov['op_kinds'] = kinds
    ck.cov['model_arms'] = arms
    missing = {k: [a for a in v if not arms.get(k, {}).get(a)] for k, v in EXPECTED_ARMS.items()}
    ck.cov['model_arms_never_taken'] = {k: v for k, v in missing.items() if v}
    ck.log('model arms never taken by this stream: %s' % json.dumps(ck.cov['model_arms_never_taken'], sort_keys=True))
    cj = os.path.join(VERIF, 'design_notes', 'coverage', 'C06.json')
    if os.path.exists(cj):
        cm = json.load(open(cj))
        ck.cov['anchor_line_cov'] = cm.get('anchor_line_cov')
        ck.cov['anchor_branch_cov'] = cm.get('anchor_branch_cov')
        ck.cov['anchor_cov_note'] = 'measured in the last VERIF_COVERAGE=1 run (design_notes/coverage/C06.json), not recomputed here'
    ck.cov['outcomes'] = stats['outcome']
    ck.cov['box_classes'] = boxcls
    ck.cov['empty_domain_cases'] = stats['empty_domain_cases']
    ck.cov['samples_outside_domain'] = stats['samples_outside_domain']
    ck.cov['converter_refusals'] = stats['refusals']
    if (n_unsupported + n_inexact) * 50 > max(n_lines, 1):
        ck.add_violation('generator:too-many-unsupported', '%d of %d operations are outside the executable model' % (n_unsupported, n_lines),
                         {'n_unsupported': n_unsupported}, found_input=False)
    ck.cov['exhaustive'] = False
    ck.log('cases=%d ops=%d evaluations=%d bound_checks=%d corr_disagreements=%d unsupported=%d' %
           (len(cases), n_lines, stats['evaluations'], stats['bound_checks'], sum(len(v) for v in corr_bad.values()), n_unsupported))
    ck.log('op kinds: %s' % json.dumps(kinds, sort_keys=True))
    ck.log('outcomes: %s' % json.dumps(stats['outcome'], sort_keys=True))
    e2e_stage(ck, quick)
    if not quick:
        try:
            e2e_abs(ck)
        except Exception as ex:   # recsolver not buildable: reported, not fatal for the property verdict
            ck.notes.append('e2e_abs skipped: %r' % (ex,))
    ck.assumptions += [
        'double arithmetic is exact on the generated data (dyadic, bounded mantissa growth); rounding of bounds is outside the model',
        'arguments of and/or/not/implication/if-then conditions are binary variables (asserted by the C++ in debug builds)',
        'expression semantics as in include/mp/flat/constr_eval.h (logical arguments thresholded at 1/2); pow/div/log undefined points are outside the domain',
        'converter options at their defaults (cvt:pre:eqresult=1, cvt:pre:eqbinary=1, cvt:pre:unnest=1)']
    ck.cov['trusted_base'] += ['harness/h_prepro.cc (calls FlatConverter::AssignResult2Args of MIPFlatConverter built from the current tree with -DNDEBUG)',
                               'gen/c06gen.py reference semantics of the flat constraints (exact fractions; libm for transcendental values)']


def e2e_abs(ck):
    """End-to-end replay of finding C06-abs-fixed-negative through the NL reader, flattener and a recording ModelAPI
    (harness/recsolver): NL model  x0 in [7,9], x1 fixed at -2, s.t. abs(x1) <= 5  (feasible: |x1| = 2).
    Every delivered linear constraint over the original variables must hold at the NL-feasible point (7,-2)."""
    import recsolver as R
    import nlgen as N
    exe = R.build(ck)
    m = N.Model()
    x0 = m.var(7, 9); x1 = m.var(-2, -2)
    m.obj('min', lin={x0: 1})
    m.con(None, 5, lin={x0: 0}, nl=('abs', ('v', x1)))
    d = os.path.join(BUILD, 'c06_e2e'); os.makedirs(d, exist_ok=True)
    stub = os.path.join(d, 'absfix')
    m.write(stub)
    res = R.run(exe, stub, accept='LinConRange,LinConLE,LinConEQ,LinConGE,AbsConstraint')
    pt = {0: F(7), 1: F(-2)}
    n = 0
    for ev in res['log']:
        if ev.get('ev') == 'con' and ev['type'].startswith('LinCon'):
            b = ev['data']['body']
            if all(v in pt for v in b['v']):
                n += 1
                val = sum(R.num(c) * pt[v] for c, v in zip(b['c'], b['v']))
                lo, hi = R.num(ev['data']['lb']), R.num(ev['data']['ub'])
                if not (lo <= val <= hi):
                    ck.add_violation('abs:fixed-negative-arg:alias-differs',
                                     'end to end: NL model {x0 in [7,9], x1 = -2, abs(x1) <= 5} is feasible at (7,-2) but the delivered '
                                     'constraint %s violates it (abs(x1) was replaced by x0)' % json.dumps(ev['data']),
                                     {'nl_stub': stub, 'accept': 'AbsConstraint', 'log': res['log']}, found_input=True)
    ck.cov['e2e_abs_constraints_checked'] = n


# ------------------------------------------------------------------ stage 4: end to end through the real driver
E2E_CORPUS = [   # (vars [(lb, ub, int)], logical constraints)
    ([(0, 5, True), (0, 5, True)], [('not', ('and', ('ge', ('v', 0), ('n', F(3))), ('ge', ('v', 1), ('n', F(3)))))]),
    ([(0, 5, True), (0, 5, True)], [('not', ('or', ('eq', ('v', 0), ('n', F(2))),
                                                 ('and', ('le', ('v', 0), ('n', F(1))), ('ge', ('v', 1), ('n', F(4))))))]),
    ([(0, 5, True), (0, 5, True)], [('implies', ('forall', [('ge', ('v', 0), ('n', F(2))), ('le', ('v', 1), ('n', F(3)))]),
                                     ('F',), ('T',))]),
    ([(0, 1, True), (0, 4, True), (0, 4, True)], [('iff', ('ge', ('v', 0), ('n', F(1))),
                                                    ('not', ('and', ('ge', ('v', 1), ('n', F(2))), ('le', ('v', 2), ('n', F(2))))))]),
]


TR_TYPES = {'ExpConstraint': 'exp', 'LogConstraint': 'log', 'SinConstraint': 'sin', 'CosConstraint': 'cos', 'TanConstraint': 'tan',
            'AsinConstraint': 'asin', 'AcosConstraint': 'acos', 'AtanConstraint': 'atan', 'SinhConstraint': 'sinh',
            'CoshConstraint': 'cosh', 'TanhConstraint': 'tanh', 'AsinhConstraint': 'asinh', 'AcoshConstraint': 'acosh',
            'AtanhConstraint': 'atanh', 'PowConstraint': 'pow', 'ExpAConstraint': 'expa', 'LogAConstraint': 'loga'}


def e2e_add_nonlinear(D, log):
    """functional constraints c01_oracle does not decode (pow and the transcendental functions), accepted natively"""
    for e in log:
        if e.get('ev') == 'con' and e['type'] in TR_TYPES:
            d = e['data']
            D.cons.append({'type': e['type'], 'k': 'func', 'f': 'tr:' + TR_TYPES[e['type']], 'res': int(d['res']), 'ctx': d['ctx'],
                           'args': [int(a) for a in d['args']], 'params': [_num_or_none(p) for p in d['params']], '_float': True})
    D.unsupported = [u for u in D.unsupported if u not in TR_TYPES]


def _num_or_none(s):
    import recsolver as R
    try:
        return R.num(s)
    except Exception:
        return None


def tr_value(c, x):
    """value of pow / transcendental constraints (exact for integer powers, libm double otherwise)"""
    f = c['f'][3:]
    a = x[c['args'][0]]
    toks = {'pow': ['pow', '0', G.tok(c['params'][0])] if f == 'pow' and (c['params'][0].denominator & (c['params'][0].denominator - 1)) == 0 else None}
    try:
        if f == 'pow':
            p = c['params'][0]
            if p.denominator == 1:
                if a == 0 and p < 0:
                    return None
                return F(a) ** int(p)
            if a < 0:
                return None
            return F(math.pow(float(a), float(p)))
        if f == 'expa':
            return F(math.pow(float(c['params'][0]), float(a)))
        if f == 'loga':
            return F(math.log(float(a)) / math.log(float(c['params'][0]))) if a > 0 else None
        if f == 'log':
            return F(math.log(float(a))) if a > 0 else None
        return F(getattr(math, f)(float(a)))
    except (ValueError, OverflowError, ZeroDivisionError):
        return None


def fev(e, x):
    """float value of an NL expression that may contain transcendental functions; raises ValueError outside the domain"""
    import nlgen as N
    try:
        return float(N.ev(e, x))
    except N.Undefined as u:
        if 'no exact semantics' not in str(u) and 'fractional' not in str(u):
            raise ValueError(str(u))
    k = e[0]
    if k in ('+', '-', '*'):
        a, b = fev(e[1], x), fev(e[2], x)
        return a + b if k == '+' else a - b if k == '-' else a * b
    if k == 'cpow':
        return math.pow(fev(e[1], x), fev(e[2], x))
    if k == 'sum':
        return sum(fev(a, x) for a in e[1])
    a = fev(e[1], x)
    if k in ('log', 'log10') and a <= 0:
        raise ValueError(k)
    if k == 'sqrt' and a < 0:
        raise ValueError(k)
    if k in ('asin', 'acos') and abs(a) > 1:
        raise ValueError(k)
    if k == 'acosh' and a < 1:
        raise ValueError(k)
    if k == 'atanh' and abs(a) >= 1:
        raise ValueError(k)
    return getattr(math, k)(a)


def objectives_defined(m, p):
    for o in m.objs:
        if o['nl'] is not None:
            try:
                fev(o['nl'], p)
            except (ValueError, OverflowError, AttributeError, KeyError, TypeError, ZeroDivisionError):
                return False
    return True


def e2e_eval(D, orc, pt):
    """values of all variables that are determined by the point of the original variables through the delivered
    functional constraints (res == f(args)), computed exactly; returns dict var -> Fraction and the list of definitions"""
    x = dict(pt)
    defs = [c for c in D.cons if c['k'] in ('func', 'cond', 'fexpr') and c['res'] >= 0]
    defined = {c['res'] for c in defs}
    for v in range(D.n):
        if v not in x and v not in defined and D.lb[v] == D.ub[v] and D.lb[v] not in (INF, -INF):
            x[v] = D.lb[v]
    pending = list(defs)
    progress = True
    while pending and progress:
        progress = False
        rest = []
        for c in pending:
            if c['k'] == 'func':
                deps = c['args']
            elif c['k'] == 'cond':
                deps = [j for _, j in c['con']['lin']] + [j for q in c['con']['quad'] for j in q[1:]]
            else:
                deps = [j for _, j in c['lin']] + [j for q in c['quad'] for j in q[1:]]
            if not all(j in x for j in deps):
                rest.append(c)
                continue
            progress = True
            try:
                if c['k'] == 'func' and c['f'].startswith('tr:'):
                    val = tr_value(c, x)
                elif c['k'] == 'func':
                    val = orc.func_value(c, x)
                elif c['k'] == 'cond':
                    val = F(int(orc._alg_holds(c['con'], x, c['cmp'])))
                else:
                    val = c['const'] + orc._body(c, x)
            except Exception:
                val = None
            if val is not None and c['res'] not in x:
                x[c['res']] = val
                c['_val_known'] = True
        pending = rest
    return x, defs


def e2e_fits(D, orc, pt, n, override):
    q = dict(pt); q.update(override)
    x, defs = e2e_eval(D, orc, q)
    for c in defs:
        rv = c['res']
        if rv < n or rv not in x or rv >= D.n:
            continue
        if not (D.lb[rv] <= x[rv] <= D.ub[rv]) or (D.int[rv] and x[rv].denominator != 1):
            return False
    return True


def e2e_only_unused_zero(D, orc, pt, n):
    """input class of finding C06-unused-var-fixed-zero: the delivered model has auxiliary variables with bounds [0,0] that are
    the result of NO delivered constraint but are arguments of delivered ones (FixUnusedDefinedVars fixed them to 0 after
    their defining constraint was marked unused), and giving those variables other 0/1 values makes every delivered
    functional constraint fit the bounds of its result variable at this point."""
    defs = [c for c in D.cons if c['k'] in ('func', 'cond', 'fexpr') and c['res'] >= 0]
    defined = {c['res'] for c in defs}
    used = set()
    for c in defs:
        if c['k'] == 'func':
            used.update(c['args'])
    Z = [v for v in sorted(used) if v >= n and v not in defined and D.lb[v] == 0 and D.ub[v] == 0]
    if not Z or len(Z) > 6:
        return False
    import itertools
    for bits in itertools.product([F(0), F(1)], repeat=len(Z)):
        if any(bits) and e2e_fits(D, orc, pt, n, dict(zip(Z, bits))):
            return True
    return False


def e2e_models(ck, quick):
    import nlgen as N
    import c01gen
    r = G.Rng(ck.seed * 48271 + 11)
    models = []
    for vs, lcs in E2E_CORPUS:
        m = N.Model(); grids = []
        for lo, hi, ii in vs:
            m.var(lo, hi, ii); grids.append([F(v) for v in range(lo, hi + 1)])
        for l in lcs:
            m.lcon(l)
        models.append(('corpus', m, grids))
    n_own = 900 if quick else 6000
    n_c01 = 300 if quick else 2000
    for i in range(n_own):
        m, grids = G.gen_e2e_model(r)
        models.append(('own', m, grids))
    for i in range(n_c01):
        case = c01gen.gen_case(ck.seed * 7 + 3, i, 'quick')
        m, grids = c01gen.model_from_json(case['model'])
        if getattr(m, 'sos', None):
            continue
        models.append(('c01gen', m, grids))
    return models


def e2e_stage(ck, quick):
    """property statement evaluated on the real converter including all later narrowing: every value a delivered functional
    constraint's expression takes at an NL-feasible point must lie within the bounds / type the ModelAPI received for its
    result variable."""
    import recsolver as R
    import nlgen as N
    import c01gen
    import c01_oracle as orc
    exe = R.build(ck)
    wdir = os.path.join(BUILD, 'c06_e2e')
    os.makedirs(wdir, exist_ok=True)
    r = G.Rng(ck.seed * 48271 + 12)
    models = e2e_models(ck, quick)
    st = {'models': 0, 'delivered': 0, 'refused': 0, 'points': 0, 'feasible_points': 0, 'result_var_checks': 0,
          'types': {}, 'refusal_kinds': {}, 'unsupported_types': {}, 'configs': {}, 'orig_var_checks': 0}
    seen = set()
    for mi, (src, m, grids) in enumerate(models):
        st['models'] += 1
        stub = os.path.join(wdir, 'm%d' % (mi % 8))
        m.write(stub, names=False)
        cfg = getattr(m, 'c06cfg', None) or {'accept': 'ALL', 'options': []}
        res = R.run(exe, stub, accept=cfg['accept'], options=cfg['options'], timeout=60)
        D = orc.Delivered(res['log'])
        e2e_add_nonlinear(D, res['log'])
        st['configs'][cfg['accept'][:12] + ' ' + ' '.join(cfg['options'])] = st['configs'].get(cfg['accept'][:12] + ' ' + ' '.join(cfg['options']), 0) + 1
        if not (D.begun and D.ended):
            st['refused'] += 1
            txt = (res['err'] or '') + (res['out'] or '') + (res['sol'] or '')[:600]
            kind = ('infeasible' if 'nfeasib' in txt else 'empty-cmp' if 'empty_cmp' in txt else 'unsupported' if 'nsupported' in txt
                    else 'timeout' if res['rc'] == 'timeout' else 'other')
            st['refusal_kinds'][kind] = st['refusal_kinds'].get(kind, 0) + 1
            if kind == 'infeasible' and src != 'c01gen':
                # the converter declared the model infeasible: wrong if an NL-feasible grid point exists
                for p in c01gen.all_points(grids)[:600]:
                    try:
                        ok = m.feasible(p)
                    except Exception:
                        ok = False
                    if ok and objectives_defined(m, p):
                        sig = 'e2e:declared-infeasible-but-feasible-point'
                        if sig not in seen:
                            seen.add(sig)
                            ck.add_violation(sig, 'the converter declared the model infeasible (%s) but the NL model is feasible at %s' %
                                             (txt.strip()[-160:], [str(v) for v in p]),
                                             {'model': c01gen.model_to_json(m, grids), 'point_model_order': [str(v) for v in p]}, found_input=True)
                        break
            continue
        st['delivered'] += 1
        for u in D.unsupported:
            st['unsupported_types'][u] = st['unsupported_types'].get(u, 0) + 1
        n = len(m.vars)
        pts = c01gen.all_points(grids)
        if len(pts) > 400:
            pts = [pts[r.below(len(pts))] for _ in range(400)]
        for c in D.cons:
            if c['k'] in ('func', 'cond', 'fexpr'):
                st['types'][c['type']] = st['types'].get(c['type'], 0) + 1
        for p in pts:
            st['points'] += 1
            try:
                if not m.feasible(p):
                    continue
            except Exception:
                continue
            if not objectives_defined(m, p):
                st['points_outside_objective_domain'] = st.get('points_outside_objective_domain', 0) + 1
                continue
            st['feasible_points'] += 1
            for i in range(n):
                st['orig_var_checks'] += 1
                xv = F(p[m.perm[i]])
                if not (D.lb[i] <= xv <= D.ub[i]):
                    sig = 'e2e:original-variable-domain-cut'
                    if sig not in seen:
                        seen.add(sig)
                        ck.add_violation(sig, 'end to end: the NL-feasible point %s has x%d = %s, but the ModelAPI received bounds [%s, %s] for this '
                                         'original variable (accept=%s options=%s)' % ([str(v) for v in p], i, xv, D.lb[i], D.ub[i], cfg['accept'], cfg['options']),
                                         {'model': c01gen.model_to_json(m, grids), 'cfg': cfg, 'point_model_order': [str(v) for v in p]}, found_input=True)
            x, defs = e2e_eval(D, orc, {i: F(p[m.perm[i]]) for i in range(n)})
            for c in defs:
                rv = c['res']
                if rv < n or rv not in x or rv >= D.n:
                    continue
                val = x[rv]
                st['result_var_checks'] += 1
                lo, hi = D.lb[rv], D.ub[rv]
                tol = 0 if (D.inexact == 0 and not c.get('_float') and (val.denominator & (val.denominator - 1)) == 0) else F(1, 10 ** 9) * (1 + abs(val))
                bad = None
                if val < lo - tol:
                    bad = 'lb'
                elif val > hi + tol:
                    bad = 'ub'
                elif D.int[rv] and val.denominator != 1:
                    bad = 'int'
                if bad:
                    sig = 'e2e:%s:%s-cuts-value' % (c['type'], bad)
                    if e2e_only_unused_zero(D, orc, {i: F(p[m.perm[i]]) for i in range(n)}, n):
                        sig = 'e2e:unused-result-var-fixed-to-0-but-referenced'
                    if sig in seen:
                        continue
                    seen.add(sig)
                    ck.add_violation(sig,
                                     'end to end (NL -> flattener -> converter -> ModelAPI, all functional constraints accepted): at the NL-feasible '
                                     'point %s the delivered %s defines x%d = %s, but the ModelAPI received bounds [%s, %s]%s for x%d' %
                                     ([str(v) for v in p], c['type'], rv, val, lo, hi, ' integer' if D.int[rv] else '', rv),
                                     {'model': c01gen.model_to_json(m, grids), 'source': src, 'point_model_order': [str(v) for v in p],
                                      'delivered_constraint': {k: str(v) for k, v in c.items()},
                                      'how': 'write the model with gen/nlgen.py, run harness/recsolver with RECSOLVER_ACCEPT=ALL, '
                                             'evaluate the delivered functional constraints at the point', 'nl_stub': stub},
                                     found_input=True)
    ck.cov['e2e'] = st
    ck.log('e2e: models=%d delivered=%d feasible_points=%d result_var_checks=%d types=%s' %
           (st['models'], st['delivered'], st['feasible_points'], st['result_var_checks'], json.dumps(st['types'], sort_keys=True)))


# ------------------------------------------------------------------ coverage mode (VERIF_COVERAGE=1, not part of quick/thorough)
ANCHOR_FILES = ['include/mp/flat/constr_prepro.h', 'include/mp/flat/expr_bounds.h', 'include/mp/flat/preprocess.h',
                'include/mp/flat/convert_functional.h', 'include/mp/flat/converter_model.h',
                'include/mp/flat/constr_prop_down.h', 'include/mp/flat/redef/MIP/lin_approx.h']
# functions of anchors.mechanism (+ the helpers they are made of), matched on the demangled name
MECH = {'include/mp/flat/constr_prepro.h': None,        # every function of the file (all are PreprocessConstraint overloads / helpers)
        'include/mp/flat/expr_bounds.h': None,
        'include/mp/flat/preprocess.h': None,
        'include/mp/flat/convert_functional.h': ['Convert', 'AddResultVariable', 'PreprocessArguments', 'MapFind', 'AddConstraint'],
        'include/mp/flat/converter_model.h': ['lb_array', 'lb_max_array', 'ub_array', 'ub_min_array', 'is_fixed', 'fixed_value',
                                              'is_binary_var', 'common_type', 'is_integer_var', 'is_integer_value', 'set_lb', 'set_ub'],
        'include/mp/flat/constr_prop_down.h': None,
        'include/mp/flat/converter.h': ['NarrowVarBounds', 'PropagateResultOfInitExpr', 'FixAsTrue', 'MakeFixedVar', 'AddVar(',
                                        'MakeComplementVar', 'AssignResult2Args', 'AssignResultVar2Args', 'FixUnusedDefinedVars'],
        'include/mp/flat/redef/MIP/lin_approx.h': None}


def coverage_run(ck):
    import gzip, shutil
    import recsolver as R
    quick = True
    cov = os.path.join(VERIF, 'build', 'cov')
    os.makedirs(cov, exist_ok=True)
    inc = ['-I' + os.path.join(REPO, 'include'), '-I' + os.path.join(REPO, 'src'), '-I' + os.path.join(VERIF, 'harness'),
           '-I' + os.path.join(VERIF, 'harness', 'recsolver')]
    defs = ['-DNDEBUG', '-DMP_DATE=20240320', '-DMP_SYSINFO="Linux x86_64"', '-DMP_USE_ATOMIC', '-DMP_USE_HASH', '-DMP_USE_UNIQUE_PTR',
            '-DAMPL_MP_VERIF']
    srcs = {'h_prepro': [os.path.join(VERIF, 'harness', 'h_prepro.cc')],
            'recsolver': [os.path.join(VERIF, 'harness', 'recsolver', f) for f in ('recmain.cc', 'recmodelmgr.cc', 'recmodelapi.cc', 'recbackend.cc')]}
    from concurrent.futures import ThreadPoolExecutor
    jobs = []
    for name, lst in srcs.items():
        for src in lst:
            obj = os.path.join(cov, os.path.basename(src).replace('.cc', '.o'))
            jobs.append((src, obj))

    def comp(j):
        src, obj = j
        if os.path.exists(obj) and os.path.getmtime(obj) > max(os.path.getmtime(src), os.path.getmtime(os.path.join(REPO, 'include/mp/flat/constr_prepro.h'))) \
                and not os.environ.get('VERIF_COVERAGE_REBUILD'):
            return
        rc, out, err = sh(['g++', '-std=c++17', '-w', '-O0', '--coverage'] + defs + inc + ['-c', src, '-o', obj], timeout=3000)
        if rc != 0:
            raise RuntimeError(err[-3000:])
    with ThreadPoolExecutor(max_workers=5) as ex:
        list(ex.map(comp, jobs))
    libmp = ck.libmp_objects(flags=('-O1', '-g'))
    exes = {}
    for name, lst in srcs.items():
        exe = os.path.join(cov, name)
        objs = [os.path.join(cov, os.path.basename(x).replace('.cc', '.o')) for x in lst]
        rc, out, err = sh(['g++', '--coverage'] + objs + libmp + ['-o', exe, '-ldl'], timeout=1800)
        if rc != 0:
            raise RuntimeError(err[-3000:])
        exes[name] = exe
    for f in os.listdir(cov):
        if f.endswith('.gcda') or f.endswith('.gcov.json.gz'):
            os.remove(os.path.join(cov, f))
    # the quick-tier input streams
    cases, _ = gen_cases(ck, quick)
    opsf = os.path.join(cov, 'ops.txt')
    with open(opsf, 'w') as f:
        for c in cases:
            f.write('\n'.join(c.lines()) + '\n')
    subprocess.run([exes['h_prepro'], opsf], stdout=subprocess.DEVNULL, stderr=subprocess.DEVNULL)
    models = e2e_models(ck, quick)
    wdir = os.path.join(cov, 'nl'); os.makedirs(wdir, exist_ok=True)
    for mi, (src, m, grids) in enumerate(models):
        stub = os.path.join(wdir, 'm%d' % (mi % 8))
        m.write(stub, names=False)
        cfg = getattr(m, 'c06cfg', None) or {'accept': 'ALL', 'options': []}
        R.run(exes['recsolver'], stub, accept=cfg['accept'], options=cfg['options'], timeout=60)
    for extra in e2e_extra_runs(ck, exes['recsolver'], wdir):
        pass
    # gcov
    data = {}      # file -> line -> {'count', 'branches': [counts], 'fn': set}
    funcs = {}     # file -> name -> {'start','end','count'}
    for tu in ('h_prepro', 'recmodelmgr'):
        sh(['gcov-12', '-b', '-c', '-j', tu + '.gcda'], cwd=cov, timeout=1800)
        for gz in [f for f in os.listdir(cov) if f.endswith('.gcov.json.gz')]:
            J = json.load(gzip.open(os.path.join(cov, gz)))
            os.remove(os.path.join(cov, gz))
            for fe in J['files']:
                fn = fe['file']
                rel = None
                for a in list(MECH):
                    if fn.endswith(a):
                        rel = a
                if rel is None:
                    continue
                d = data.setdefault(rel, {})
                for ln in fe['lines']:
                    e = d.setdefault(ln['line_number'], {'count': 0, 'branches': []})
                    e['count'] += ln['count']
                    br = [b['count'] for b in ln.get('branches', []) if not b.get('throw')]
                    if len(br) == len(e['branches']):
                        e['branches'] = [x + y for x, y in zip(e['branches'], br)]
                    elif not e['branches']:
                        e['branches'] = br
                    elif br:
                        k = min(len(br), len(e['branches']))
                        e['branches'] = [e['branches'][i] + br[i] for i in range(k)] + (e['branches'][k:] or br[k:])
                ff = funcs.setdefault(rel, {})
                for fu in fe['functions']:
                    key = (fu['start_line'], fu['end_line'])
                    g = ff.setdefault(key, {'name': fu['demangled_name'], 'count': 0})
                    g['count'] += fu['execution_count']
    summary = {}
    md = ['# C06 — coverage of the anchored code by the quick-tier input streams', '',
          'Measured by `VERIF_COVERAGE=1 ./check C06` (seed %d): `harness/h_prepro.cc` and `harness/recsolver/*` compiled `-O0 --coverage` '
          'against `%s`, the quick-tier op script (%d cases) and end-to-end NL models (%d) run through them, `gcov-12 -b -c` on the two '
          'TUs that instantiate the templates (`h_prepro`, `recmodelmgr`), lines/branches merged over all instantiations and both TUs '
          '(exception-edge branches excluded).' % (ck.seed, REPO, len(cases), len(models)), '']
    md += ['| file | lines | line cov | branches | branch cov | functions hit |', '|---|---|---|---|---|---|']
    tl = tc = tb = tbc = 0
    details = []
    for rel in list(MECH):
        d = data.get(rel, {})
        mech = MECH[rel]

        def in_mech(line):
            if mech is None:
                return True
            for (a, b), g in funcs.get(rel, {}).items():
                if a <= line <= b and any(k in g['name'] for k in mech):
                    return True
            return False
        lines = {l: e for l, e in d.items() if in_mech(l)}
        nl = len(lines); nc = sum(1 for e in lines.values() if e['count'] > 0)
        nb = sum(len(e['branches']) for e in lines.values()); nbc = sum(sum(1 for b in e['branches'] if b > 0) for e in lines.values())
        fl = [(k, g) for k, g in funcs.get(rel, {}).items() if mech is None or any(x in g['name'] for x in mech)]
        fh = sum(1 for _, g in fl if g['count'] > 0)
        if rel in ANCHOR_FILES:
            tl += nl; tc += nc; tb += nb; tbc += nbc
        summary[rel] = {'lines': nl, 'lines_hit': nc, 'branches': nb, 'branches_hit': nbc, 'functions': len(fl), 'functions_hit': fh}
        md.append('| %s%s | %d | %.1f%% | %d | %.1f%% | %d/%d |' % (rel, '' if mech is None else ' (mechanism functions only)', nl,
                                                                 100.0 * nc / max(nl, 1), nb, 100.0 * nbc / max(nb, 1), fh, len(fl)))
        try:
            src = open(os.path.join(REPO, rel)).read().split('\n')
        except Exception:
            src = []
        un_f = sorted((k[0], g['name']) for k, g in fl if g['count'] == 0)
        un_l = sorted(l for l, e in lines.items() if e['count'] == 0)
        un_b = sorted((l, [i for i, b in enumerate(e['branches']) if b == 0]) for l, e in lines.items()
                      if e['count'] > 0 and any(b == 0 for b in e['branches']))
        details.append('\n### %s\n' % rel)
        details.append('uncovered functions (%d):' % len(un_f))
        for l, nme in un_f:
            details.append('* line %d: `%s`' % (l, nme[:150]))
        details.append('\nuncovered lines in covered functions:')
        covered_fn_ranges = [k for k, g in fl if g['count'] > 0]
        for l in un_l:
            if any(a <= l <= b for a, b in covered_fn_ranges):
                details.append('* %d: `%s`' % (l, src[l - 1].strip()[:110] if l - 1 < len(src) else ''))
        details.append('\nlines with a branch never taken:')
        for l, idx in un_b:
            details.append('* %d (branch %s): `%s`' % (l, ','.join(map(str, idx)), src[l - 1].strip()[:110] if l - 1 < len(src) else ''))
    md.append('| **anchors.files total** | %d | **%.1f%%** | %d | **%.1f%%** | |' % (tl, 100.0 * tc / max(tl, 1), tb, 100.0 * tbc / max(tb, 1)))
    md += details
    cdir = os.path.join(VERIF, 'design_notes', 'coverage')
    os.makedirs(cdir, exist_ok=True)
    cls = os.path.join(cdir, 'C06.classification.md')
    text = '\n'.join(md) + '\n'
    if os.path.exists(cls):
        text = open(cls).read() + '\n\n---\n\n' + text
    open(os.path.join(cdir, 'C06.md'), 'w').write(text)
    out = {'anchor_line_cov': round(100.0 * tc / max(tl, 1), 1), 'anchor_branch_cov': round(100.0 * tbc / max(tb, 1), 1),
           'per_file': summary, 'seed': ck.seed, 'cases': len(cases), 'e2e_models': len(models)}
    json.dump(out, open(os.path.join(cdir, 'C06.json'), 'w'), indent=1)
    ck.log('coverage: anchors line %.1f%% branch %.1f%%' % (out['anchor_line_cov'], out['anchor_branch_cov']))
    ck.cov.update({'obligations': 0, 'discharged': 0, 'checker_cmd': 'coverage mode', 'coverage_mode': out})


def e2e_extra_runs(ck, exe, wdir):
    """additional end-to-end configurations (option / acceptance variants); used by the e2e stage and the coverage mode"""
    return []


def replay(ck, path):
    rep = json.load(open(path))['replay']
    lines = rep.get('case') or rep.get('first', {}).get('case')
    exe = build_harness(ck)
    p = subprocess.run([exe], input='\n'.join(lines) + '\n', capture_output=True, text=True)
    print('\n'.join(lines))
    print('--- real code:')
    print(p.stdout)
    drv = ck.driver('drv_c06')
    pm = subprocess.run([drv], input='\n'.join(lines) + '\n', capture_output=True, text=True)
    print('--- Lean model:')
    print(pm.stdout)
    return 0

"""Shared machinery for all property checks (see DESIGN.md §2, §4).

Every check:
  1. regenerates generated Lean files / rebuilds harnesses from $MP_REPO (default /repo) working tree
  2. builds the property's Lean theorems (proof obligations) and audits axioms
  3. runs the correspondence between the Lean model (compiled driver) and the real code
  4. evaluates the property oracle on the implementation
  5. writes evidence/<id>.json and prints VIOLATION / KNOWN-FINDING lines
"""
import os, sys, json, time, subprocess, hashlib, re, fcntl, shutil, glob

VERIF = os.path.dirname(os.path.dirname(os.path.abspath(__file__)))
REPO = os.environ.get('MP_REPO', '/repo')
LEAN = os.path.join(VERIF, 'lean')
BUILD = os.environ.get('VERIF_BUILD', os.path.join(VERIF, 'build'))
EVID = os.path.join(VERIF, 'evidence')
REPLAY = os.path.join(VERIF, 'replay')
ALLOWED_AXIOMS = {'propext', 'Classical.choice', 'Quot.sound'}
FORBIDDEN = re.compile(r'\bsorry\b|\badmit\b|^\s*axiom\s|native_decide|bv_decide|implemented_by|\bunsafe\s|maxHeartbeats\s+0\b'
                       r'|^\s*opaque\s|@\[\s*extern\b|@\[\s*csimp\b', re.M)
# `partial def` is acceptable only for the IO read loops of the line-protocol drivers (no theorem can unfold one);
# anywhere else it is reported like a forbidden token.
PARTIAL_OK = re.compile(r'(^|/)Driver[^/]*\.lean$')
PARTIAL = re.compile(r'^\s*(?:private\s+|protected\s+)?partial\s+def\b', re.M)

TRUSTED_BASE = [
    "Lean 4.33.0 kernel (axioms allowed: propext, Classical.choice, Quot.sound; audited with collectAxioms on every run)",
    "Lean compiler/runtime for the compiled model driver used in the correspondence",
    "this check's harness, generators and canonicalisation (python + C++), g++ 12 / clang 14",
]


def sh(cmd, cwd=None, timeout=None, env=None, input=None):
    e = dict(os.environ)
    if env:
        e.update(env)
    p = subprocess.run(cmd, cwd=cwd, shell=isinstance(cmd, str), capture_output=True, text=True,
                       timeout=timeout, env=e, input=input)
    return p.returncode, p.stdout, p.stderr


class LakeLock:
    def __enter__(self):
        os.makedirs(BUILD, exist_ok=True)
        self.f = open(os.path.join(BUILD, '.lake.lock'), 'w')
        fcntl.flock(self.f, fcntl.LOCK_EX)
        return self

    def __exit__(self, *a):
        fcntl.flock(self.f, fcntl.LOCK_UN)
        self.f.close()


def strip_lean_comments(text):
    # remove /- ... -/ (nested) and -- line comments
    out = []
    i, n, depth = 0, len(text), 0
    while i < n:
        if text.startswith('/-', i):
            depth += 1
            i += 2
        elif depth and text.startswith('-/', i):
            depth -= 1
            i += 2
        elif depth:
            if text[i] == '\n':
                out.append('\n')
            i += 1
        elif text.startswith('--', i):
            j = text.find('\n', i)
            i = n if j < 0 else j
        else:
            out.append(text[i])
            i += 1
    return ''.join(out)


class Check:
    def __init__(self, pid, tier, seed):
        self.pid = pid
        self.tier = tier
        self.seed = seed
        self.t0 = time.time()
        self.violations = []      # dicts: sig, what, replay(obj), found_input(bool)
        self.known_hits = []
        self.cov = {'trusted_base': list(TRUSTED_BASE), 'samples': []}
        self.assumptions = []
        self.level = 'proof'
        self.notes = []
        os.makedirs(BUILD, exist_ok=True)
        os.makedirs(EVID, exist_ok=True)
        os.makedirs(REPLAY, exist_ok=True)
        # scratch worktrees of the repo lack the two git-ignored files its CMake build generates into the
        # source tree (src/expr-info.cc, nl-writer2/include/mp/nl-opcodes.h).  Do what that build does: compile the
        # tree's OWN src/gen-expr-info.cc and let it write them (never copy /repo's, which could mask a changed table).
        self._ensure_generated_tables()
        kf = os.path.join(VERIF, 'known_findings.json')
        self.known = [f for f in json.load(open(kf)).get('findings', [])] if os.path.exists(kf) else []

    def _ensure_generated_tables(self):
        ei = os.path.join(REPO, 'src', 'expr-info.cc')
        oh = os.path.join(REPO, 'nl-writer2', 'include', 'mp', 'nl-opcodes.h')
        if REPO == '/repo' or (os.path.exists(ei) and os.path.exists(oh)):
            return
        srcs = [os.path.join(REPO, 'src', f) for f in ('gen-expr-info.cc', 'format.cc', 'posix.cc')]
        if not all(os.path.exists(x) for x in srcs) or not os.path.isdir(os.path.dirname(oh)):
            return                      # not an mp tree (or a partial copy): the harness build will say what is missing
        os.makedirs(os.path.join(BUILD, 'bin'), exist_ok=True)
        exe = os.path.join(BUILD, 'bin', 'gen_expr_info_boot-%d' % os.getpid())
        r = subprocess.run(['g++', '-std=c++17', '-O0', '-w', '-I' + os.path.join(REPO, 'include'), '-I' + os.path.join(REPO, 'src')]
                           + srcs + ['-o', exe], capture_output=True, text=True)
        if r.returncode == 0:
            r = subprocess.run([exe, ei, oh], capture_output=True, text=True, timeout=120)
        try:
            os.remove(exe)
        except OSError:
            pass
        if r.returncode != 0:
            print('[%s] cannot generate expr-info.cc / nl-opcodes.h from the tree under test: %s' % (self.pid, (r.stdout + r.stderr)[-400:]), flush=True)

    def log(self, *a):
        print('[%s %6.1fs]' % (self.pid, time.time() - self.t0), *a, flush=True)

    # ---------------------------------------------------------------- Lean
    def lake(self, targets, timeout=3000):
        if isinstance(targets, str):
            targets = [targets]
        with LakeLock():
            rc, out, err = sh(['lake', 'build'] + targets, cwd=LEAN, timeout=timeout)
        return rc == 0, out + err

    def failing_decls(self, output, relfile):
        """names of declarations in lean/<relfile> that have errors in `output`
        (declaration spans start at the doc comment / attribute line: checks/failing_spans.py)"""
        try:
            from failing_spans import failing_decls_spans
            return failing_decls_spans(output, relfile, LEAN)
        except Exception:
            pass
        path = os.path.join(LEAN, relfile)
        lines = open(path).read().split('\n')
        decl_at = []
        cur = None
        pat = re.compile(r'^\s*(?:@\[[^\]]*\]\s*)?(?:private\s+|protected\s+)?(?:theorem|lemma|example|def|instance|c\d\d_\w+)\s+([\w.\']+)')
        for ln in lines:
            m = pat.match(ln)
            if m:
                cur = m.group(1)
            decl_at.append(cur)
        bad = []
        for m in re.finditer(r'error: ' + re.escape(relfile) + r':(\d+):(\d+):', output):
            ln = int(m.group(1))
            nm = decl_at[min(ln, len(decl_at)) - 1] if ln >= 1 else None
            nm = nm or ('%s:%d' % (relfile, ln))
            if nm not in bad:
                bad.append(nm)
        return bad

    def prop_theorems(self, module, prefix):
        """(theorem name, axioms) for every theorem named <prefix>* in `module`'s namespace, via Lean itself"""
        script = os.path.join(BUILD, 'audit_%s.lean' % self.pid)
        open(script, 'w').write('''import %s
import Lean
open Lean Elab Command in
run_cmd do
  let env ← getEnv
  let some modIdx := env.getModuleIdx? `%s | throwError "module not found"
  let mut names : Array Name := #[]
  for (n, ci) in env.constants.map₁.toList do
    if env.getModuleIdxFor? n == some modIdx then
      match ci with
      | .thmInfo _ =>
        if (n.getString!).startsWith "%s" && !n.isInternal then names := names.push n
      | _ => pure ()
  for n in names.qsort (fun a b => a.toString < b.toString) do
    let ax ← liftCoreM (collectAxioms n)
    logInfo m!"AUDIT {n} :: {ax.toList}"
''' % (module, module, prefix))
        with LakeLock():
            rc, out, err = sh(['lake', 'env', 'lean', script], cwd=LEAN, timeout=1200)
        res = []
        for m in re.finditer(r'AUDIT (\S+) :: \[(.*?)\]', out + err, re.S):
            ax = [a.strip() for a in m.group(2).replace('\n', ' ').split(',') if a.strip()]
            res.append((m.group(1), ax))
        return rc == 0, res, out + err

    def grep_forbidden(self, relpaths):
        hits = []
        for rp in relpaths:
            for path in sorted(glob.glob(os.path.join(LEAN, rp), recursive=True)):
                txt = strip_lean_comments(open(path).read())
                for m in FORBIDDEN.finditer(txt):
                    ln = txt.count('\n', 0, m.start()) + 1
                    hits.append('%s:%d: %s' % (os.path.relpath(path, LEAN), ln, m.group(0).strip()))
                if not PARTIAL_OK.search(path):
                    for m in PARTIAL.finditer(txt):
                        ln = txt.count('\n', 0, m.start()) + 1
                        hits.append('%s:%d: partial def outside a driver' % (os.path.relpath(path, LEAN), ln))
        return hits

    def proof_stage(self, module, relfile, prefix, grep_paths, expect_min=1, extra_modules=()):
        """build the property module, audit axioms; returns (ok, failing decl names).
        Fills coverage obligations/discharged."""
        ok, out = self.lake([module] + list(extra_modules))
        failing = []
        if not ok:
            failing = self.failing_decls(out, relfile)
            if not failing:
                # failure elsewhere (a lemma file, a generated file): name the first error lines
                errs = re.findall(r'error: (\S+?):(\d+):\d+:', out)
                failing = ['%s:%s' % e for e in errs[:5]] or ['lake build %s' % module]
            self.cov['lake_output_tail'] = out[-3000:]
        hits = self.grep_forbidden(grep_paths)
        thms = []
        bad_axioms = []
        if ok:
            aok, thms, aout = self.prop_theorems(module, prefix)
            if not aok or len(thms) < expect_min:
                failing.append('axiom-audit(%d theorems found, expected >= %d)' % (len(thms), expect_min))
                self.cov['audit_output_tail'] = aout[-2000:]
            for n, ax in thms:
                extra = [a for a in ax if a not in ALLOWED_AXIOMS]
                if extra:
                    bad_axioms.append((n, extra))
        n_obl = max(len(thms), expect_min)
        n_bad = len(set(failing)) + len(bad_axioms)
        self.cov['obligations'] = n_obl
        self.cov['discharged'] = max(0, n_obl - n_bad) if (ok and not hits) else max(0, n_obl - max(n_bad, 1))
        self.cov['checker_cmd'] = 'cd lean && lake build %s && lake env lean <audit script: Lean.collectAxioms on every %s* theorem>' % (module, prefix)
        self.cov['theorems'] = [n for n, _ in thms][:400]
        self.cov['axioms_used'] = sorted({a for _, ax in thms for a in ax})
        self.cov['forbidden_token_hits'] = hits
        for n, extra in bad_axioms:
            failing.append('%s uses axioms %s' % (n, extra))
        for h in hits:
            failing.append('forbidden token ' + h)
        return (ok and not hits and not bad_axioms and not failing), failing

    def leanchecker(self, modules):
        res = []
        for m in modules:
            with LakeLock():
                rc, out, err = sh(['lake', 'env', 'leanchecker', m], cwd=LEAN, timeout=3000)
            res.append((m, rc == 0, (out + err)[-500:]))
        self.cov['leanchecker'] = [{'module': m, 'ok': ok} for m, ok, _ in res]
        return [m for m, ok, _ in res if not ok]

    def driver(self, exe):
        ok, out = self.lake([exe])
        if not ok:
            raise RuntimeError('cannot build lean driver %s:\n%s' % (exe, out[-3000:]))
        return os.path.join(LEAN, '.lake', 'build', 'bin', exe)

    # ---------------------------------------------------------------- C++
    def _gc_bins(self, name):
        """remove stale executables of this harness (older than 12 h only: another check run, e.g. against a
        different tree, may be using a sibling binary right now)"""
        now = time.time()
        for old in glob.glob(os.path.join(BUILD, 'bin', name + '-*')):
            try:
                if now - os.path.getmtime(old) > 12 * 3600:
                    os.remove(old)
            except OSError:
                pass

    def cxx(self, name, sources, flags=(), libs=(), cxx='g++', std='c++17', deps_key=''):
        """compile+link a harness against the *current* repo tree; cached by hash of the preprocessed sources"""
        os.makedirs(os.path.join(BUILD, 'bin'), exist_ok=True)
        inc = ['-I' + os.path.join(REPO, 'include'), '-I' + os.path.join(REPO, 'nl-writer2', 'include'),
               '-I' + os.path.join(VERIF, 'harness')]
        base = [cxx, '-std=' + std, '-DAMPL_MP_VERIF'] + list(flags) + inc
        h = hashlib.sha256()
        h.update((' '.join(base) + ' '.join(libs) + deps_key).encode())
        for s in sources:
            rc, out, err = sh(base + ['-E', '-P', s], timeout=600)
            if rc != 0:
                raise RuntimeError('preprocess failed for %s:\n%s' % (s, err[-3000:]))
            h.update(out.encode())
        exe = os.path.join(BUILD, 'bin', '%s-%s' % (name, h.hexdigest()[:16]))
        if not os.path.exists(exe):
            self._gc_bins(name)
            tmp = exe + '.tmp%d' % os.getpid()
            rc, out, err = sh(base + list(sources) + ['-o', tmp] + list(libs), timeout=1800)
            if rc != 0:
                raise RuntimeError('compile failed for %s:\n%s' % (name, err[-4000:]))
            os.rename(tmp, exe)
        return exe

    def objects(self, sources, flags=(), extra_inc=(), cxx='g++', std='c++17', tag='obj'):
        """compile each TU of the *current* repo tree to an object file, cached by the hash of its
        preprocessed text + flags (so an unchanged tree costs only preprocessing); parallel."""
        from concurrent.futures import ThreadPoolExecutor
        inc = ['-I' + os.path.join(REPO, 'include'), '-I' + os.path.join(REPO, 'src'),
               '-I' + os.path.join(REPO, 'nl-writer2', 'include'), '-I' + os.path.join(VERIF, 'harness')] + ['-I' + i for i in extra_inc]
        defs = ['-DNDEBUG', '-DMP_DATE=20240320', '-DMP_SYSINFO="Linux x86_64"', '-DMP_USE_ATOMIC', '-DMP_USE_HASH', '-DMP_USE_UNIQUE_PTR', '-DAMPL_MP_VERIF']
        base = [cxx, '-std=' + std, '-w'] + defs + list(flags) + inc
        odir = os.path.join(BUILD, 'obj')
        os.makedirs(odir, exist_ok=True)

        def one(src):
            rc, out, err = sh(base + ['-E', '-P', src], timeout=900)
            if rc != 0:
                raise RuntimeError('preprocess failed for %s:\n%s' % (src, err[-3000:]))
            h = hashlib.sha256((' '.join(base) + '\0' + out).encode()).hexdigest()[:20]
            obj = os.path.join(odir, '%s-%s-%s.o' % (tag, os.path.basename(src).replace('.', '_'), h))
            if not os.path.exists(obj):
                tmp = obj + '.tmp%d' % os.getpid()
                rc, out, err = sh(base + ['-c', src, '-o', tmp], timeout=3000)
                if rc != 0:
                    raise RuntimeError('compile failed for %s:\n%s' % (src, err[-4000:]))
                os.rename(tmp, obj)
            else:
                os.utime(obj)
            return obj
        with ThreadPoolExecutor(max_workers=16) as ex:
            objs = list(ex.map(one, sources))
        # garbage-collect objects not touched for a day
        now = time.time()
        for f in glob.glob(os.path.join(odir, '*.o')):
            if now - os.path.getmtime(f) > 86400:
                try:
                    os.remove(f)
                except OSError:
                    pass
        return objs

    LIBMP_SRC = ['src/format.cc', 'src/posix.cc', 'src/expr.cc', 'src/nl-reader.cc', 'src/option.cc', 'src/os.cc',
                 'src/problem.cc', 'src/rstparser.cc', 'src/sol.cc', 'src/solver.cc', 'src/sp.cc', 'src/std_constr.cc',
                 'src/utils_file.cc', 'src/utils_string.cc', 'src/utils_clock.cc', 'src/mp/flat/encodings.cpp',
                 'src/mp/flat/piecewise_linear.cpp', 'src/expr-info.cc']
    LIBNLW2_SRC = ['nl-writer2/src/dtoa.cc', 'nl-writer2/src/nl-model-c.cc', 'nl-writer2/src/nl-solver-c.cc',
                   'nl-writer2/src/nl-solver.cc', 'nl-writer2/src/nl-utils.cc', 'nl-writer2/src/nl-writer2.cc']

    def libmp_objects(self, flags=('-O1', '-g')):
        """objects of the mp library (as in CMake target `mp`) built from the current tree"""
        return self.objects([os.path.join(REPO, s) for s in self.LIBMP_SRC], flags=flags, tag='mp')

    def libnlw2_objects(self, flags=('-O1', '-g')):
        return self.objects([os.path.join(REPO, s) for s in self.LIBNLW2_SRC], flags=flags, tag='nlw2')

    def link(self, name, objs, flags=(), libs=('-ldl',), cxx='g++'):
        os.makedirs(os.path.join(BUILD, 'bin'), exist_ok=True)
        h = hashlib.sha256((' '.join(objs) + ' '.join(flags) + ' '.join(libs)).encode()).hexdigest()[:16]
        exe = os.path.join(BUILD, 'bin', '%s-%s' % (name, h))
        if not os.path.exists(exe):
            self._gc_bins(name)
            tmp = exe + '.tmp%d' % os.getpid()
            rc, out, err = sh([cxx] + list(flags) + list(objs) + ['-o', tmp] + list(libs), timeout=1800)
            if rc != 0:
                raise RuntimeError('link failed for %s:\n%s' % (name, err[-4000:]))
            os.rename(tmp, exe)
        return exe

    # ---------------------------------------------------------------- verdicts
    def add_violation(self, sig, what, replay, found_input=True):
        """sig: short stable signature of the failing input class (matched against known_findings.json)"""
        for k in self.known:
            if k.get('property') == self.pid and k.get('status') == 'open' and re.fullmatch(k['match'], sig):
                if not any(h[0] is k for h in self.known_hits):
                    self.known_hits.append((k, sig, what))
                return False
        if any(v['sig'] == sig for v in self.violations):
            return True
        self.violations.append({'sig': sig, 'what': what, 'replay': replay, 'found_input': found_input})
        return True

    def sample(self, s):
        if len(self.cov['samples']) < 12:
            self.cov['samples'].append(s)

    def finish(self):
        wall = time.time() - self.t0
        for k, sig, what in self.known_hits:
            print('KNOWN-FINDING: property=%s %s [%s] %s' % (self.pid, k.get('id', ''), sig, k.get('what', what)))
        vio_lines = []
        for v in self.violations:
            hsh = hashlib.sha256((v['sig'] + json.dumps(v['replay'], sort_keys=True, default=str)).encode()).hexdigest()[:10]
            path = os.path.join('replay', '%s-%s.json' % (self.pid, hsh))
            json.dump({'property': self.pid, 'signature': v['sig'], 'what': v['what'], 'tier': self.tier,
                       'seed': self.seed, 'found_failing_input': v['found_input'], 'replay': v['replay']},
                      open(os.path.join(VERIF, path), 'w'), indent=1, default=str)
            line = 'VIOLATION property=%s replay=%s' % (self.pid, path)
            if not v['found_input']:
                line += ' no-failing-input-found'
            vio_lines.append(line)
        ev = {
            'property_id': self.pid, 'tier': self.tier, 'seed': self.seed, 'level': self.level,
            'coverage': self.cov, 'assumptions': self.assumptions, 'wall_s': round(wall, 2),
            'violations': len(self.violations),
            'known_findings_reported': [k.get('id') for k, _, _ in self.known_hits],
            'notes': self.notes,
        }
        if not self.cov['samples']:
            self.cov['samples'] = ['(no samples recorded)']
        json.dump(ev, open(os.path.join(EVID, self.pid + '.json'), 'w'), indent=1, default=str)
        for l in vio_lines:
            print(l, flush=True)
        self.log('done: %d violation(s), %d known finding(s), %.1fs' % (len(self.violations), len(self.known_hits), wall))
        return 1 if self.violations else 0

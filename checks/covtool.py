"""Coverage measurement for the C14 / C05 harnesses (ROUND 3).  Not part of the normal tiers:
    VERIF_COVERAGE=1 ./check C14      (or C05)
builds the harness (and the anchored library TUs) with --coverage -O0 in build/cov_<id>, runs the quick-tier input stream
through it, runs gcov-12 (JSON) and writes design_notes/coverage/<id>.md + <id>.json."""
import os, sys, json, gzip, glob, subprocess, shutil, re
from common import *

GCOV = 'gcov-12'


def build(covdir, sources, extra_objs=(), defs=(), incs=()):
    os.makedirs(covdir, exist_ok=True)
    for f in glob.glob(os.path.join(covdir, '*.gc*')):
        os.remove(f)
    inc = ['-I' + os.path.join(REPO, 'include'), '-I' + os.path.join(REPO, 'src'), '-I' + os.path.join(REPO, 'nl-writer2', 'include'),
           '-I' + os.path.join(VERIF, 'harness')] + ['-I' + i for i in incs]
    base = ['g++', '-std=c++17', '-w', '--coverage', '-O0', '-g', '-DNDEBUG', '-DVERIF_COVERAGE', '-DMP_DATE=20240320', '-DMP_SYSINFO="Linux x86_64"',
            '-DMP_USE_ATOMIC', '-DMP_USE_HASH', '-DMP_USE_UNIQUE_PTR', '-DAMPL_MP_VERIF'] + list(defs) + inc
    objs = []
    for src in sources:
        o = os.path.join(covdir, os.path.basename(src).replace('.', '_') + '.o')
        rc, out, err = sh(base + ['-c', src, '-o', o], timeout=1800)
        if rc != 0:
            raise RuntimeError('coverage compile failed for %s:\n%s' % (src, err[-3000:]))
        objs.append(o)
    exe = os.path.join(covdir, 'harness_cov')
    rc, out, err = sh(['g++', '--coverage'] + objs + list(extra_objs) + ['-o', exe, '-ldl'], timeout=1800)
    if rc != 0:
        raise RuntimeError('coverage link failed:\n%s' % err[-3000:])
    return exe


def collect(covdir):
    """run gcov on every .gcda of covdir; returns {source path: {'lines': {ln: count}, 'branches': {ln: [counts]}, 'fn': {ln: fn}, 'functions': {name: (count, start)}}}"""
    for f in glob.glob(os.path.join(covdir, '*.gcov.json.gz')):
        os.remove(f)
    gcdas = glob.glob(os.path.join(covdir, '*.gcda'))
    rc, out, err = sh([GCOV, '-b', '-c', '-j'] + [os.path.basename(g) for g in gcdas], cwd=covdir, timeout=1800)
    files = {}
    for jf in glob.glob(os.path.join(covdir, '*.gcov.json.gz')):
        d = json.load(gzip.open(jf))
        for f in d['files']:
            path = os.path.normpath(os.path.join(d.get('current_working_directory', covdir), f['file']))
            e = files.setdefault(path, {'lines': {}, 'branches': {}, 'fn': {}, 'functions': {}})
            for l in f['lines']:
                ln = l['line_number']
                e['lines'][ln] = e['lines'].get(ln, 0) + l['count']
                if l.get('function_name'):
                    e['fn'].setdefault(ln, l['function_name'])
                brs = [br for br in l.get('branches', []) if not br.get('throw')]    # exceptional (call-throws) edges are not code branches
                if brs:
                    b = e['branches'].setdefault(ln, [0] * len(brs))
                    if len(b) < len(brs):
                        b += [0] * (len(brs) - len(b))
                    for k, br in enumerate(brs):
                        b[k] += br['count']
            for fn in f['functions']:
                nm = fn.get('demangled_name', fn['name'])
                c, s0 = e['functions'].get(nm, (0, fn['start_line']))
                e['functions'][nm] = (c + fn['execution_count'], fn['start_line'])
    return files


def summarize(files, anchors, mech_patterns, src_root=REPO):
    """per anchored file: line %, branch %, uncovered functions, and uncovered lines/branches inside mechanism functions"""
    res = {'files': {}, 'mechanism_uncovered': []}
    tl = tc = tb = tbc = 0
    ml = mc = mb = mbc = 0
    for a in anchors:
        path = os.path.normpath(os.path.join(src_root, a))
        e = files.get(path)
        if not e:
            res['files'][a] = None
            continue
        nl = len(e['lines']); cl = sum(1 for c in e['lines'].values() if c > 0)
        nb = sum(len(b) for b in e['branches'].values()); cb = sum(1 for b in e['branches'].values() for c in b if c > 0)
        tl += nl; tc += cl; tb += nb; tbc += cb
        unc_fn = sorted(nm for nm, (c, _) in e['functions'].items() if c == 0)
        res['files'][a] = {'lines': nl, 'lines_covered': cl, 'branches': nb, 'branches_covered': cb, 'uncovered_functions': unc_fn}
        src = open(path, errors='replace').read().split('\n')
        # demangle table for line -> function
        dem = {}
        for nm, (c, st) in e['functions'].items():
            dem[st] = nm
        for ln in sorted(e['lines']):
            fn = e['fn'].get(ln, '')
            if not any(re.search(p, fn) for p in mech_patterns):
                continue
            text = src[ln - 1].strip() if ln - 1 < len(src) else ''
            ml += 1; mc += 1 if e['lines'][ln] > 0 else 0
            if ln in e['branches']:
                mb += len(e['branches'][ln]); mbc += sum(1 for c in e['branches'][ln] if c > 0)
            if e['lines'][ln] == 0:
                res['mechanism_uncovered'].append({'file': a, 'line': ln, 'kind': 'line', 'fn': fn[:60], 'text': text[:110]})
            elif ln in e['branches'] and any(c == 0 for c in e['branches'][ln]):
                b = e['branches'][ln]
                res['mechanism_uncovered'].append({'file': a, 'line': ln, 'kind': 'branch %d/%d taken' % (sum(1 for c in b if c > 0), len(b)),
                                                   'fn': fn[:60], 'text': text[:110]})
    res['anchor_line_cov'] = round(100.0 * tc / tl, 1) if tl else None
    res['anchor_branch_cov'] = round(100.0 * tbc / tb, 1) if tb else None
    res['mechanism_line_cov'] = round(100.0 * mc / ml, 1) if ml else None
    res['mechanism_branch_cov'] = round(100.0 * mbc / mb, 1) if mb else None
    return res


def write_report(pid, res, extra_md=''):
    d = os.path.join(VERIF, 'design_notes', 'coverage')
    os.makedirs(d, exist_ok=True)
    json.dump({'anchor_line_cov': res['anchor_line_cov'], 'anchor_branch_cov': res['anchor_branch_cov'],
               'mechanism_line_cov': res['mechanism_line_cov'], 'mechanism_branch_cov': res['mechanism_branch_cov'],
               'files': {k: (v and {x: v[x] for x in ('lines', 'lines_covered', 'branches', 'branches_covered')}) for k, v in res['files'].items()},
               'mechanism_uncovered_items': len(res['mechanism_uncovered'])},
              open(os.path.join(d, pid + '.json'), 'w'), indent=1)
    md = ['# %s — coverage of the anchored code by the quick-tier stream (VERIF_COVERAGE=1 ./check %s)\n' % (pid, pid),
          'gcov-12 -b -c (exceptional call edges not counted as branches), harness built `--coverage -O0 -DNDEBUG`; template/header code is attributed through the TU that instantiates it.\n',
          '**All anchored files: %s %% of lines, %s %% of branches.  Functions of the anchored mechanisms only: %s %% of lines, %s %% of branches.**\n' % (res['anchor_line_cov'], res['anchor_branch_cov'], res['mechanism_line_cov'], res['mechanism_branch_cov']),
          '| file | lines | branches | functions never called |', '|---|---|---|---|']
    for a, v in res['files'].items():
        if not v:
            md.append('| %s | not compiled into the harness | | |' % a)
        else:
            md.append('| %s | %d/%d (%.1f %%) | %d/%d (%.1f %%) | %s |' % (
                a, v['lines_covered'], v['lines'], 100.0 * v['lines_covered'] / max(1, v['lines']), v['branches_covered'], v['branches'],
                100.0 * v['branches_covered'] / max(1, v['branches']), '; '.join(x[:70] for x in v['uncovered_functions'][:40]) or '—'))
    md.append('\n## Uncovered lines / partially taken branches inside the mechanism functions\n')
    md.append('| file:line | what | function | source |')
    md.append('|---|---|---|---|')
    for u in res['mechanism_uncovered']:
        md.append('| %s:%d | %s | `%s` | `%s` |' % (os.path.basename(u['file']), u['line'], u['kind'], u['fn'].replace('|', '\\|'), u['text'].replace('|', '\\|')))
    md.append('\n<!-- AUTO-END -->\n')
    p = os.path.join(d, pid + '.md')
    manual = ''
    if os.path.exists(p):
        old = open(p).read()
        if '<!-- AUTO-END -->' in old:
            manual = old.split('<!-- AUTO-END -->', 1)[1]
    open(p, 'w').write('\n'.join(md) + (manual or extra_md))
    return p

"""Coverage mode of the C12 check (VERIF_COVERAGE=1 ./check C12): the quick-tier stream is run through a
`--coverage -O0` build of the recording driver; gcov data of all TUs are merged per source line and reported for
the property's anchored files, with the uncovered lines/branches inside the mechanism functions.
Not part of the normal quick/thorough runs."""
import os, re, json, glob, gzip, subprocess
from common import *

ANCHOR_FILES = ['include/mp/nl-reader.h', 'include/mp/solver-io.h', 'src/solver.cc', 'include/mp/solver-base.h',
                'include/mp/flat/problem_flattener.h', 'include/mp/model-mgr-with-pb.h', 'include/mp/sol.h']

# mechanism regions: (file, label, regex of the line that starts the function / block, occurrence index)
REGIONS = [
    ('include/mp/nl-reader.h', 'NLProblemBuilder::OnHeader', r'^\s*void OnHeader\(const NLHeader &h\) \{', 1),
    ('include/mp/nl-reader.h', 'NLProblemBuilder::resulting_nobj', r'int resulting_nobj\(int nobj_header\) const \{', 0),
    ('include/mp/nl-reader.h', 'NLProblemBuilder::NeedObj', r'bool NeedObj\(int obj_index\) const \{', 1),
    ('include/mp/nl-reader.h', 'NLProblemBuilder::resulting_obj_index', r'int resulting_obj_index\(int index\) const \{', 0),
    ('include/mp/nl-reader.h', 'NLProblemBuilder::OnObj', r'void OnObj\(int index, obj::Type type, NumericExpr expr\) \{', 1),
    ('include/mp/nl-reader.h', 'NLProblemBuilder::OnLinearObjExpr', r'LinearObjHandler OnLinearObjExpr\(int obj_index, int num_linear_terms\) \{', 1),
    ('include/mp/nl-reader.h', 'ObjHandler::SkipExpr', r'bool SkipExpr\(int obj_index\) const \{', 0),
    ('include/mp/nl-reader.h', 'ObjHandler::OnLinearExpr', r'typename Handler::LinearObjHandler OnLinearExpr\(int index, int num_terms\) \{', 0),
    ('include/mp/nl-reader.h', "NLReader::ReadLinearExpr<>() (G/J segment head)", r'^void NLReader<Reader, Handler>::ReadLinearExpr\(\) \{', 0),
    ('include/mp/nl-reader.h', "NLReader::Read case 'O'", r"^\s*case 'O': \{", 0),
    ('include/mp/solver-io.h', 'SolverNLHandlerImpl::objno', r'int objno\(\) const override', 0),
    ('include/mp/solver-io.h', 'SolverNLHandlerImpl::multiobj', r'bool multiobj\(\) const override', 0),
    ('include/mp/solver-io.h', 'SolverNLHandlerImpl::notify_obj_added', r'void notify_obj_added\(\) const override', 0),
    ('include/mp/solver-io.h', 'SolverNLHandlerImpl::OnHeader', r'^void SolverNLHandlerImpl<Solver, PB, NLPB>::OnHeader\(const NLHeader &h\) \{', 0),
    ('include/mp/solver-io.h', 'SolutionWriterImpl::HandleFeasibleSolution', r'^HandleFeasibleSolution\(', 0),
    ('include/mp/solver-io.h', 'SolutionWriterImpl::HandleSolution', r'^void SolutionWriterImpl<Solver, PB, Writer>::HandleSolution\(', 0),
    ('include/mp/solver-io.h', 'SolutionAdapter::objno', r'int objno\(\) const \{ return objno_; \}', 0),
    ('include/mp/solver-base.h', 'BasicSolver::GetObjNo', r'int GetObjNo\(const SolverOption &\) const', 0),
    ('include/mp/solver-base.h', 'BasicSolver::SetObjNo', r'void SetObjNo\(const SolverOption &opt, int value\) \{', 0),
    ('include/mp/solver-base.h', 'BasicSolver::objno_used', r'int objno_used\(\) const \{', 0),
    ('include/mp/solver-base.h', 'BasicSolver::objno_specified', r'int objno_specified\(\) const', 0),
    ('include/mp/solver-base.h', 'BasicSolver::is_objno_specified', r'bool is_objno_specified\(\) const', 0),
    ('include/mp/solver-base.h', 'BasicSolver::notify_obj_added', r'void notify_obj_added\(\) \{', 0),
    ('include/mp/solver-base.h', 'BasicSolver::notify_start_opts', r'void notify_start_opts\(\)', 0),
    ('include/mp/solver-base.h', 'BasicSolver::notify_end_opts', r'void notify_end_opts\(\)', 0),
    ('include/mp/solver-base.h', 'BasicSolver::multiobj', r'bool multiobj\(\) const \{', 0),
    ('src/solver.cc', 'obj:multi BoolOption (GetValue/SetValue)', r'^\s*struct BoolOption : TypedSolverOption<int> \{', 0),
    ('src/solver.cc', 'obj:no registration', r'^\s*"obj:no objno",', 0),
    ('src/solver.cc', 'obj:multi registration', r'if \(\(flags & MULTIPLE_OBJ\) != 0\) \{', 0),
    ('include/mp/flat/problem_flattener.h', 'ProblemFlattener::ConvertStandardItems (objective loop)', r'^\s*ifFltCon_ = 0;', 0),
    ('include/mp/flat/problem_flattener.h', 'ProblemFlattener::Convert(MutObjective)', r'void Convert\(typename ProblemType::MutObjective obj\) \{', 0),
    ('include/mp/model-mgr-with-pb.h', 'ModelManagerWithPB::ReadNLFile', r'^\s*void ReadNLFile\(', 0),
    ('include/mp/model-mgr-with-pb.h', 'ModelManagerWithPB::SetObjNames', r'void SetObjNames\(NameProvider& npco\) \{', 0),
    ('include/mp/sol.h', "WriteSolFile ('objno' line)", r'^void WriteSolFile\(fmt::CStringRef filename, const Solution &sol\) \{', 0),
]


def region_extent(lines, pat, occ, label):
    """1-based (start, end) of the brace-balanced block starting at the occ-th line matching pat.
    For `"obj:no objno",` style registrations: the statement up to the terminating `;`."""
    idx = [i for i, l in enumerate(lines) if re.search(pat, l)]
    if len(idx) <= occ:
        return None
    i = idx[occ]
    if 'registration' in label and 'obj:no' in label:
        j = i
        while ';' not in lines[j]:
            j += 1
        return (i, j + 1)
    if 'objective loop' in label:
        j = i
        while 'Algebraic constraints' not in lines[j]:
            j += 1
        return (i + 1, j)
    if label.startswith("NLReader::Read case 'O'"):
        j = i
        while 'break;' not in lines[j]:
            j += 1
        return (i + 1, j + 1)
    depth, j, seen = 0, i, False
    while j < len(lines):
        for ch in lines[j]:
            if ch == '{':
                depth += 1
                seen = True
            elif ch == '}':
                depth -= 1
        if seen and depth <= 0:
            break
        j += 1
    return (i + 1, j + 1)


def collect(objdir):
    """merge gcov JSON of every .gcda under objdir: {file: {line: {'count': n, 'branches': [counts of non-throw branches]}}}"""
    merged = {}
    for gcda in sorted(glob.glob(os.path.join(objdir, '*.gcda'))):
        p = subprocess.run(['gcov-12', '-b', '-c', '--json-format', '--stdout', gcda], cwd=objdir, capture_output=True, text=True)
        if p.returncode != 0 or not p.stdout.strip():
            continue
        for doc in p.stdout.strip().split('\n'):
            try:
                d = json.loads(doc)
            except Exception:
                continue
            for f in d.get('files', []):
                fn = os.path.normpath(f['file'])
                rel = None
                for a in ANCHOR_FILES:
                    if fn.endswith(a):
                        rel = a
                if rel is None:
                    continue
                m = merged.setdefault(rel, {})
                # several instantiations of one template line appear as several entries: add them up
                per = {}
                for ln in f['lines']:
                    k = ln['line_number']
                    e = per.setdefault(k, {'count': 0, 'branches': None})
                    e['count'] += ln['count']
                    br = [b['count'] for b in ln.get('branches', []) if not b.get('throw')]
                    if br:
                        if e['branches'] is None or len(e['branches']) != len(br):
                            e['branches'] = br if e['branches'] is None else [x + y for x, y in zip(e['branches'] + [0] * len(br), br + [0] * len(e['branches']))][:max(len(br), len(e['branches']))]
                        else:
                            e['branches'] = [x + y for x, y in zip(e['branches'], br)]
                for k, e in per.items():
                    t = m.setdefault(k, {'count': 0, 'branches': None})
                    t['count'] += e['count']
                    if e['branches']:
                        if t['branches'] is None:
                            t['branches'] = list(e['branches'])
                        elif len(t['branches']) == len(e['branches']):
                            t['branches'] = [x + y for x, y in zip(t['branches'], e['branches'])]
                        else:     # different instantiations with different branch shapes: keep the longer, add overlap
                            a, b = (t['branches'], e['branches']) if len(t['branches']) >= len(e['branches']) else (e['branches'], t['branches'])
                            t['branches'] = [x + (b[i] if i < len(b) else 0) for i, x in enumerate(a)]
    return merged


def report(merged, repo):
    out = {'files': {}, 'regions': []}
    tot_l = tot_lc = tot_b = tot_bc = 0
    rl = rlc = rb = rbc = 0
    for a in ANCHOR_FILES:
        m = merged.get(a, {})
        L = len(m)
        LC = sum(1 for e in m.values() if e['count'] > 0)
        B = sum(len(e['branches']) for e in m.values() if e['branches'])
        BC = sum(sum(1 for c in e['branches'] if c > 0) for e in m.values() if e['branches'])
        out['files'][a] = {'lines': L, 'lines_hit': LC, 'branches': B, 'branches_hit': BC}
        tot_l += L; tot_lc += LC; tot_b += B; tot_bc += BC
    for a, label, pat, occ in REGIONS:
        src = open(os.path.join(repo, a), errors='replace').read().split('\n')
        ext = region_extent(src, pat, occ, label)
        if ext is None:
            out['regions'].append({'file': a, 'name': label, 'error': 'pattern not found'})
            continue
        m = merged.get(a, {})
        ls = {k: e for k, e in m.items() if ext[0] <= k <= ext[1]}
        unl = sorted(k for k, e in ls.items() if e['count'] == 0)
        unb = []
        nb = nbc = 0
        for k in sorted(ls):
            e = ls[k]
            if e['branches']:
                nb += len(e['branches'])
                nbc += sum(1 for c in e['branches'] if c > 0)
                if e['count'] > 0 and any(c == 0 for c in e['branches']):
                    unb.append({'line': k, 'taken': e['branches'], 'text': src[k - 1].strip()[:110]})
        out['regions'].append({'file': a, 'name': label, 'extent': list(ext), 'lines': len(ls), 'lines_hit': len(ls) - len(unl),
                               'branches': nb, 'branches_hit': nbc,
                               'uncovered_lines': [{'line': k, 'text': src[k - 1].strip()[:110]} for k in unl],
                               'partial_branches': unb, 'instantiated': bool(ls)})
        rl += len(ls); rlc += len(ls) - len(unl); rb += nb; rbc += nbc
    out['anchor_line_cov'] = round(100.0 * tot_lc / max(1, tot_l), 1)
    out['anchor_branch_cov'] = round(100.0 * tot_bc / max(1, tot_b), 1)
    out['mechanism_line_cov'] = round(100.0 * rlc / max(1, rl), 1)
    out['mechanism_branch_cov'] = round(100.0 * rbc / max(1, rb), 1)
    out['mechanism_totals'] = {'lines': rl, 'lines_hit': rlc, 'branches': rb, 'branches_hit': rbc}
    return out


def markdown(rep, title):
    o = ['### ' + title, '',
         'Whole anchored files (lines/branches that exist in the instrumented driver; branch = gcov branch, exception edges excluded): '
         '**line %.1f%%, branch %.1f%%**.  Mechanism functions only: **line %.1f%%, branch %.1f%%** (%d/%d lines, %d/%d branches).' %
         (rep['anchor_line_cov'], rep['anchor_branch_cov'], rep['mechanism_line_cov'], rep['mechanism_branch_cov'],
          rep['mechanism_totals']['lines_hit'], rep['mechanism_totals']['lines'], rep['mechanism_totals']['branches_hit'], rep['mechanism_totals']['branches']), '',
         '| file | lines hit / instrumented | % | branches hit / total | % |', '|---|---|---|---|---|']
    for a, f in rep['files'].items():
        o.append('| %s | %d / %d | %.1f | %d / %d | %.1f |' % (a, f['lines_hit'], f['lines'], 100.0 * f['lines_hit'] / max(1, f['lines']),
                                                           f['branches_hit'], f['branches'], 100.0 * f['branches_hit'] / max(1, f['branches'])))
    o += ['', '| mechanism function | lines | branches | uncovered lines | partially taken branches (line: counts) |', '|---|---|---|---|---|']
    for r in rep['regions']:
        if 'error' in r:
            o.append('| %s | %s | | | |' % (r['name'], r['error']))
            continue
        if not r['instantiated']:
            o.append('| %s (%s:%d-%d) | not instantiated in the driver | | | |' % (r['name'], os.path.basename(r['file']), r['extent'][0], r['extent'][1]))
            continue
        o.append('| %s (%s:%d-%d) | %d/%d | %d/%d | %s | %s |' % (
            r['name'], os.path.basename(r['file']), r['extent'][0], r['extent'][1], r['lines_hit'], r['lines'], r['branches_hit'], r['branches'],
            '; '.join('%d `%s`' % (u['line'], u['text'].replace('|', '\\|')) for u in r['uncovered_lines']) or '-',
            '; '.join('%d: %s' % (u['line'], u['taken']) for u in r['partial_branches']) or '-'))
    return '\n'.join(o) + '\n'

"""C02 coverage mode (VERIF_COVERAGE=1 ./check C02): builds the harness + the mp library with --coverage -O0
(no sanitizers) in build/c02cov, runs the quick-tier input stream through it, runs gcov-12 (JSON) and writes
design_notes/coverage/C02.md + design_notes/coverage/C02.json (line/branch coverage of the anchored files)."""
import os, sys, subprocess, json, gzip, glob, re, shutil
from concurrent.futures import ThreadPoolExecutor
from common import *

ANCHOR_FILES = ['include/mp/nl-reader.h', 'src/nl-reader.cc', 'include/mp/nl.h', 'include/mp/nl-header.h',
                'include/mp/nl-header-c.h', 'include/mp/problem.h', 'src/problem.cc', 'include/mp/expr.h',
                'include/mp/safeint.h', 'include/mp/os.h', 'src/os.cc', 'src/posix.cc', 'src/expr-info.cc']
# functions named in anchors.mechanism (substring match on the demangled name) per file
MECH = {
    'include/mp/nl-reader.h': ['NLReader', 'TextReader', 'BinaryReader', 'ReaderBase', 'NLFileReader', 'ReadBinary', 'ReadNLString',
                               'ReadNLFile', 'EndiannessConverter', 'VarBoundHandler', 'NLProblemBuilder'],
    'src/nl-reader.cc': ['ReadError::init', 'GetKind', 'ReaderBase', 'TextReader', 'BinaryReaderBase', 'NLFileReader'],
    'include/mp/expr.h': ['BeginIterated', 'BeginPLTerm', 'MakeStringLiteral', 'Allocate', 'BeginCall', 'EndIterated'],
    'include/mp/problem.h': ['AddVars', 'AddCommonExprs', 'AddObjs', 'AddAlgebraicCons', 'AddLogicalCons', 'AddFunctions', 'AddSuffix',
                             'AddIntSuffix', 'AddDblSuffix', 'set_linear_expr', 'DefineFunction'],
    'src/problem.cc': ['GetSuffixSize', 'SetInfo', 'SetComplementarity'],
    'include/mp/safeint.h': [''],
    'include/mp/os.h': ['MemoryMappedFile', 'ConvertFileToMmapSize'],
    'src/os.cc': ['MemoryMappedFile', 'map', 'ConvertFileToMmapSize'],
    'src/posix.cc': ['fmt::File::File', 'fmt::File::size', 'fmt::File::read', 'getpagesize', 'fmt::File::~File'],
}


def run_coverage(ck, cases, strtods):
    cdir = os.path.join(BUILD, 'c02cov')
    shutil.rmtree(cdir, ignore_errors=True)
    os.makedirs(cdir)
    inc = ['-I' + os.path.join(REPO, 'include'), '-I' + os.path.join(REPO, 'src'), '-I' + os.path.join(VERIF, 'harness')]
    defs = ['-DNDEBUG', '-DMP_DATE=20240320', '-DMP_SYSINFO="Linux x86_64"', '-DMP_USE_ATOMIC', '-DMP_USE_HASH', '-DMP_USE_UNIQUE_PTR']
    base = ['g++', '-std=c++17', '-w', '-O0', '-g', '--coverage'] + defs + inc
    srcs = [os.path.join(REPO, s) for s in ck.LIBMP_SRC] + [os.path.join(VERIF, 'harness', 'h_nlread.cc')]

    def one(src):
        obj = os.path.join(cdir, os.path.basename(src).replace('.', '_') + '.o')
        rc, out, err = sh(base + ['-c', src, '-o', obj], timeout=3000)
        if rc != 0:
            raise RuntimeError('coverage compile failed for %s:\n%s' % (src, err[-2000:]))
        return obj
    with ThreadPoolExecutor(max_workers=12) as ex:
        objs = list(ex.map(one, srcs))
    exe = os.path.join(cdir, 'h_nlread_cov')
    rc, out, err = sh(['g++', '--coverage'] + objs + ['-o', exe, '-ldl'], timeout=1800)
    if rc != 0:
        raise RuntimeError('coverage link failed:\n' + err[-2000:])
    ops = os.path.join(cdir, 'ops.txt')
    with open(ops, 'w') as f:
        for i, (fl, o, d, tag) in enumerate(cases):
            f.write('case %d %d %d %s\n' % (i, fl, o, d.hex() or '-'))
        for s in strtods:
            f.write('strtod %s\n' % s.hex())
        f.write('fileerr 0 nonexistent\nfileerr 1 directory\n')
    env = dict(os.environ, C02_TMPDIR=cdir)
    first, n = 0, len(cases) + len(strtods) + 2
    crashes = 0
    # without sanitizers a hostile allocation is std::bad_alloc; limit the address space so that it stays cheap
    while first < n and crashes < 50:
        p = subprocess.run('ulimit -v 4000000; exec "%s" "%s" %d 1' % (exe, ops, first), shell=True, capture_output=True, env=env)
        got = [l for l in p.stdout.decode('latin-1').split('\n') if l]
        if p.returncode == 0 and len(got) >= n - first:
            break
        crashes += 1
        first += len(got) + 1
    ck.log('coverage run: %d ops, %d restarts' % (n, crashes))
    # gcov (json) per TU
    lines, branches, funcs = {}, {}, {}      # file -> {line: count}; file -> {(line, idx): count}; file -> {name: (start,end,count)}
    for obj in objs:
        gcda = obj[:-2] + '.gcda'
        if not os.path.exists(gcda):
            continue
        subprocess.run(['gcov-12', '--json-format', '-b', '-c', '-o', cdir, gcda], cwd=cdir, capture_output=True)
    for jz in glob.glob(os.path.join(cdir, '*.gcov.json.gz')):
        data = json.load(gzip.open(jz))
        for fobj in data['files']:
            fn = os.path.normpath(os.path.join(data.get('current_working_directory', ''), fobj['file']))
            if not fn.startswith(REPO + '/'):
                continue
            rel = fn[len(REPO) + 1:]
            if rel not in ANCHOR_FILES:
                continue
            L, B, F = lines.setdefault(rel, {}), branches.setdefault(rel, {}), funcs.setdefault(rel, {})
            for fu in fobj.get('functions', []):
                nm = fu.get('demangled_name') or fu['name']
                key = (nm, fu['start_line'])
                old = F.get(key, (fu['start_line'], fu['end_line'], 0))
                F[key] = (fu['start_line'], fu['end_line'], old[2] + fu['execution_count'])
            for ln in fobj['lines']:
                L[ln['line_number']] = L.get(ln['line_number'], 0) + ln['count']
                for bi, br in enumerate(ln.get('branches', [])):
                    if br.get('throw'):
                        continue            # exceptional edges of calls: not source-level branches
                    k = (ln['line_number'], bi)
                    B[k] = B.get(k, 0) + br['count']
    return lines, branches, funcs


def _short(nm):
    out, depth = [], 0
    for ch in nm:
        if ch == '<':
            depth += 1
        elif ch == '>':
            depth -= 1
        elif depth == 0:
            out.append(ch)
    s = ''.join(out).split('(')[0]
    return '::'.join(s.split('::')[-2:]).strip()


def summarize(lines, branches, funcs):
    summ = {}
    for rel in ANCHOR_FILES:
        L, B, F = lines.get(rel, {}), branches.get(rel, {}), funcs.get(rel, {})
        mech = MECH.get(rel)
        in_mech = set()
        unc_funcs, unc_lines = [], []
        if mech is not None:
            byname = {}
            for (nm, st), (s, e, c) in F.items():
                if any(m in nm for m in mech):
                    sh_ = _short(nm)
                    o = byname.get((sh_, s), (s, e, 0))
                    byname[(sh_, s)] = (s, e, o[2] + c)
            for (sh_, s0), (s, e, c) in sorted(byname.items(), key=lambda kv: kv[1][0]):
                for l in range(s, e + 1):
                    in_mech.add(l)
                if c == 0:
                    unc_funcs.append('%s (line %d)' % (sh_, s))
        ml = [l for l in L if (not in_mech or l in in_mech)] if mech is not None else list(L)
        mb = [k for k in B if (not in_mech or k[0] in in_mech)] if mech is not None else list(B)
        summ[rel] = {
            'lines': len(L), 'lines_hit': sum(1 for v in L.values() if v > 0),
            'branches': len(B), 'branches_hit': sum(1 for v in B.values() if v > 0),
            'mech_lines': len(ml), 'mech_lines_hit': sum(1 for l in ml if L[l] > 0),
            'mech_branches': len(mb), 'mech_branches_hit': sum(1 for k in mb if B[k] > 0),
            'uncovered_functions': unc_funcs,
            'uncovered_mech_lines': sorted(l for l in ml if L[l] == 0),
            'uncovered_mech_branches': sorted(set(k[0] for k in mb if B[k] == 0 and L.get(k[0], 0) > 0)),
        }
    return summ


def pct(a, b):
    return '%.1f%%' % (100.0 * a / b) if b else 'n/a'


def write_report(ck, summ, tag):
    d = os.path.join(VERIF, 'design_notes', 'coverage')
    os.makedirs(d, exist_ok=True)
    tl = sum(s['mech_lines'] for s in summ.values()); hl = sum(s['mech_lines_hit'] for s in summ.values())
    tb = sum(s['mech_branches'] for s in summ.values()); hb = sum(s['mech_branches_hit'] for s in summ.values())
    js = {'tag': tag, 'seed': ck.seed, 'anchor_line_cov': round(100.0 * hl / max(tl, 1), 1), 'anchor_branch_cov': round(100.0 * hb / max(tb, 1), 1),
          'files': {k: {kk: vv for kk, vv in v.items() if not kk.startswith('uncovered')} for k, v in summ.items()}}
    json.dump(js, open(os.path.join(d, 'C02.json'), 'w'), indent=1)
    out = ['## measured run `%s` (seed %d, quick-tier stream, gcov-12 -b, -O0 --coverage, -DNDEBUG)' % (tag, ck.seed), '',
           'mechanism functions = the reader/builder code named in `anchors.mechanism` (whole file where the file is the mechanism).',
           '', '| file | lines (file) | branches (file) | lines (mechanism) | branches (mechanism) |', '|---|---|---|---|---|']
    for rel in ANCHOR_FILES:
        s = summ[rel]
        out.append('| %s | %s (%d/%d) | %s (%d/%d) | %s (%d/%d) | %s (%d/%d) |' % (
            rel, pct(s['lines_hit'], s['lines']), s['lines_hit'], s['lines'], pct(s['branches_hit'], s['branches']), s['branches_hit'], s['branches'],
            pct(s['mech_lines_hit'], s['mech_lines']), s['mech_lines_hit'], s['mech_lines'],
            pct(s['mech_branches_hit'], s['mech_branches']), s['mech_branches_hit'], s['mech_branches']))
    out += ['', '**total over the mechanism code: lines %s (%d/%d), branches %s (%d/%d)**' % (pct(hl, tl), hl, tl, pct(hb, tb), hb, tb), '']
    for rel in ANCHOR_FILES:
        s = summ[rel]
        if s['uncovered_functions'] or s['uncovered_mech_lines'] or s['uncovered_mech_branches']:
            out.append('### %s' % rel)
            if s['uncovered_functions']:
                out.append('uncovered functions: ' + '; '.join(s['uncovered_functions']))
            if s['uncovered_mech_lines']:
                out.append('uncovered lines: ' + ' '.join(map(str, s['uncovered_mech_lines'])))
            if s['uncovered_mech_branches']:
                out.append('lines with an untaken branch: ' + ' '.join(map(str, s['uncovered_mech_branches'])))
            out.append('')
    open(os.path.join(d, 'C02-measured-%s.md' % tag), 'w').write('\n'.join(out) + '\n')
    ck.log('coverage (%s): mechanism lines %s, branches %s -> design_notes/coverage/C02-measured-%s.md' % (tag, pct(hl, tl), pct(hb, tb), tag))
    return js

"""C14 — SOL reader is total and memory-safe on arbitrary files."""
import os, sys, subprocess, struct, math, random, re, json
from common import *
sys.path.insert(0, os.path.join(VERIF, 'gen'))
import solgen

SAN = ['-O1', '-g', '-DNDEBUG', '-fsanitize=address,undefined', '-fsanitize=float-cast-overflow', '-fno-sanitize-recover=all']
DOCUMENTED = {'OK', 'FailOpen', 'EarlyEOF', 'BadFormat', 'BadLine', 'BadOptions', 'VecNotFinished', 'BadSuffix'}
OOB_CLASSES = {'index', 'stack-buffer-overflow', 'SEGV', 'heap-buffer-overflow', 'stack-buffer-underflow', 'global-buffer-overflow',
               'dynamic-stack-buffer-overflow', 'stack-overflow'}


# ---------------------------------------------------------------- number tokens (outside the Lean model)
def tok2double(tok):
    """value of the text strtod consumed (glibc semantics; python float() is correctly rounded like glibc)"""
    s = tok.decode('latin1').lstrip(' \t\n\v\f\r')
    neg = s.startswith('-')
    if s[:1] in '+-':
        s = s[1:]
    low = s.lower()
    if low.startswith('inf'):
        v = math.inf
    elif low.startswith('nan'):
        v = math.nan
    elif low.startswith('0x'):
        v = float.fromhex(s)
    else:
        v = float(s)
    return -v if neg else v


def dbits(x):
    return 'Rnan' if x != x else 'R' + struct.pack('<d', x).hex()


def canon_R(h):
    x = struct.unpack('<d', bytes.fromhex(h))[0]
    return dbits(x)


class CastUB(Exception):
    pass


def to_int(x):
    if x != x or x >= 2147483648.0 or x <= -2147483649.0:
        raise CastUB()
    return int(x)


def conv_val(v, ctx):
    """v: 'T<hex>' | 'R<hex>' from the model; ctx 'd' or 'i' -> impl notation"""
    tag, h = v[0], v[1:]
    b = bytes.fromhex(h) if h != '-' else b''
    if tag == 'T':
        x = tok2double(b)
        return dbits(x) if ctx == 'd' else 'I%d' % to_int(x)
    if ctx == 'd':
        return canon_R(h)
    return 'I%d' % struct.unpack('<i', b)[0]


def conv_vec(parts, ctx, sparse):
    offered, rr, rem, items = parts
    if items != '-':
        out = []
        for it in items.split(','):
            if sparse:
                i, v = it.split(':')
                out.append(i + ':' + conv_val(v, ctx))
            else:
                out.append(conv_val(it, ctx))
        items = ','.join(out)
    return '%s %s %s %s' % (offered, rr, rem, items)


def norm_model(line, binary):
    """model line -> (expected impl line, tag) ; tag in {None,'oob','overflow','uninit','cast'}"""
    head, _, evs = line.partition(' | ')
    cid, code, msg = head.split(' ')
    out = []

    def bad_line():
        return '%s code=BadLine msg=1 | %s' % (cid, ' ; '.join(out)), None

    for e in ([x for x in evs.split(' ; ')] if evs else []):
        p = e.split(' ')
        if p[0] == 'opts':
            vb = conv_val(('R' if binary else 'T') + p[3], 'd') if p[2] == '1' else '-'
            out.append('opts %s %s %s' % (p[1], p[2], vb))
        elif p[0] in ('dual', 'primal'):
            out.append(p[0] + ' ' + conv_vec(p[1:5], 'd', False))
        elif p[0] in ('cast', 'objno'):
            try:
                vals = [conv_val(v, 'i') for v in p[1:]]   # (int)x of each number, in evaluation order
            except CastUB:
                # with the range check the line is rejected (ReportBadLine) before anything is delivered
                return bad_line() if (P4['objno'] and not binary) else ('%s ABORT' % cid, 'cast')
            if p[0] == 'objno':
                out.append('objno %s %s' % tuple(vals))
        elif p[0] == 'suf':
            ctx = 'd' if int(p[1]) & 4 else 'i'
            try:
                out.append('suf %s %s %s %s' % (p[1], p[2], p[3], conv_vec(p[4:8], ctx, True)))
            except CastUB:
                if not (P4['isuf'] and not binary):
                    return '%s ABORT' % cid, 'cast'
                # the failing element ends the vector with Bad_Line; elements before it were delivered
                good = []
                for it in p[7].split(','):
                    i, v = it.split(':')
                    try:
                        good.append(i + ':' + conv_val(v, ctx))
                    except CastUB:
                        break
                out.append('suf %s %s %s %s BadLine 0 %s' % (p[1], p[2], p[3], p[4], ','.join(good) or '-'))
                return bad_line()
        else:
            out.append(e)
    c = code.split('=')[1]
    if c == 'UB-oob':
        return '%s ABORT' % cid, 'oob'
    if c == 'UB-overflow':
        return '%s ABORT' % cid, 'overflow'
    if c == 'UB-uninit':
        return '%s ?' % cid, 'uninit'
    return '%s %s %s | %s' % (cid, code, msg, ' ; '.join(out)), None


def easy_expected(model_line, nv, nc):
    """what mp::NLSolver::ReadSolution() with the library's SOLHandler_Easy must report, derived from the model's (normalised) events
    for a while(Size()) handler: (ok, x size, y size, solve_result, nbs, registered suffixes, message, result code)"""
    head, _, evs = model_line.partition(' | ')
    code = head.split(' ')[0].split('=')[1]
    x = y = nsuf = nbs = 0
    sr = -2
    msg = '-'
    alt = None
    registered = set()
    for e in (evs.split(' ; ') if evs else []):
        p = e.split(' ')
        if p[0] == 'msg':
            msg, nbs = p[1], int(p[2])
        elif p[0] == 'dual':
            y = (0 if p[4] == '-' else p[4].count(',') + 1) + (0 if p[2] == 'OK' else 1)    # the failed ReadNext is pushed too
        elif p[0] == 'primal':
            x = nv
        elif p[0] == 'objno':
            sr = int(p[2][1:])
        elif p[0] == 'suf':
            kind = int(p[1])
            nmax = [nv, nc, 1, 1][kind & 3]
            idxs = [int(it.split(':')[0]) for it in p[7].split(',')] if p[7] != '-' else []
            if any(i < 0 or i >= nmax for i in idxs):
                code = 'BadSuffix'          # the handler calls SetError(Bad_Suffix, "bad suffix element index") and the reader stops
                break
            if p[5] == 'OK':
                registered.add((p[2], kind & 3))      # NLSuffixSet is keyed by (name, kind & 3): a repeated suffix is not added again
                nsuf = len(registered)
            elif p[5] in ('BadLine', 'EarlyEOF'):
                # SOLHandler_Easy tests the index of the pair returned by the FAILED ReadNext too (the index may already have been parsed when the
                # value was not): if that index is out of range it overrides the read error with Bad_Suffix.  The model does not expose the
                # partially read pair, so both codes are accepted for this case.
                alt = 'BadSuffix'
    return 'easy ok=%d x=%d y=%d sr=%d nbs=%d nsuf=%d m=%s' % (1 if code == 'OK' else 0, x, y, sr, nbs, nsuf, msg), (code, alt)


def capi_expected(model_line, cap=9):
    """what the C API (NLW2_Read2SOLHandler_C with plain C callbacks that read every offered value) must record, derived from the model's
    normalised events for a read-all handler; `*` = values not comparable (the vector read failed: the C wrapper hands out indeterminate values)"""
    head, _, evs = model_line.partition(' | ')
    code = head.split(' ')[0].split('=')[1]
    out = []
    nopts = None
    for e in (evs.split(' ; ') if evs else []):
        p = e.split(' ')
        if p[0] == 'opts':
            ints = p[1].split(',')
            nopts = len(ints)
            out.append('opts n=%d cap=%d %s %s' % (len(ints), cap, ','.join(ints[:cap]), p[2]))
        elif p[0] in ('dual', 'primal'):
            out.append('%s %s %s' % (p[0], p[1], p[4] if p[2] == 'OK' else '*'))
        elif p[0] == 'suf':
            out.append('suf %s %s %s %s %s' % (p[1], p[2], p[3], 'OK' if p[5] == 'OK' else 'ERR', p[7]))
        else:
            out.append(e)
    ok = code == 'OK'
    return 'code=%s msg=%d | capi ok=%d ; %s' % ('OK' if ok else 'Error', 0 if ok else 1, 1 if ok else 0, ' ; '.join(out)), nopts


def capi_match(exp, got):
    a, b = exp.split(' ; '), got.split(' ; ')
    if len(a) != len(b):
        return False
    for x, y in zip(a, b):
        if x.endswith(' *'):
            if x.split(' ')[:2] != y.split(' ')[:2]:
                return False
        elif x != y:
            return False
    return True


def canon_impl(line):
    """canonicalise NaN payloads in an implementation line"""
    return re.sub(r'R([0-9a-f]{16})', lambda m: canon_R(m.group(1)), line)


# ---------------------------------------------------------------- case generation
def gen_cases(rng, n_cases):
    cases = []   # dict: id, nv, nc, pol, bytes, family, mut, meta
    def add(family, b, nv, nc, pol, **meta):
        cases.append(dict(id='c%d' % len(cases), family=family, bytes=b, nv=nv, nc=nc, pol=pol, **meta))
    # fixed corpus first
    cdir = os.path.join(VERIF, 'corpus', 'C14')
    if os.path.isdir(cdir):
        for fn in sorted(os.listdir(cdir)):
            if fn.endswith('.json'):
                c = json.load(open(os.path.join(cdir, fn)))
                meta = {'expect_sig': c.get('sig')}
                if 'namelen' in c:
                    meta['namelen'] = c['namelen']
                if c.get('easy'):
                    meta['easy'] = True
                if c.get('mixed'):
                    meta['mixed'] = True
                if c.get('capi'):
                    meta['capi'] = True
                add('corpus:' + fn[:-5], bytes.fromhex(c['hex']), c['nv'], c['nc'], tuple(c.get('pol', (0, 'all', 'all', 'all'))), **meta)
    for famname, b, nv, nc in solgen.fixed_stream():
        add(famname, b, nv, nc, (0, 'while', 'while', 'while'))
    for nm, body in [('negative-index', b'-1 3\n'), ('index-too-large', b'7 3\n'), ('index-ok', b'1 3\n')]:
        add('easy-handler:targeted-' + nm, b'm\n\nOptions\n3\n1\n1\n0\n1\n1\n2\n2\n0.5\n1\n2\nobjno 0 0\nsuffix 0 1 4 0 0\nfoo\n' + body, 2, 1,
            (0, 'while', 'while', 'while'), easy=True)
    n_cases += len(cases)
    while len(cases) < n_cases:
        r = rng.random()
        binary = rng.random() < 0.45
        if r < 0.004:
            add('missing-file', b'', rng.choice([0, 2]), rng.choice([0, 2]), solgen.rand_policy(rng), missing=True)
        elif r < 0.03:
            # the C API: NLW2_Read2SOLHandler_C -> NLW2_SOLHandler_C_Impl -> plain C callbacks (valid and damaged files, all option counts, vbtol)
            s0 = solgen.rand_sol(rng, maxn=rng.choice([3, 12]), with_options=rng.random() < 0.85)
            b = solgen.bin_bytes(s0) if binary else solgen.text_bytes(s0)
            mut = 'valid'
            if rng.random() < 0.4:
                b, mut = solgen.mutate(rng, b, binary)
            add('c-api:' + mut, b, s0.nvars if s0.options is not None else len(s0.primals), s0.ncons if s0.options is not None else len(s0.duals),
                (0, 'all', 'all', 'all'), capi=True)
        elif r < 0.06:
            # the library's own handler: NLSolver::ReadSolution() / SOLHandler_Easy (nl-writer2/src/nl-solver.cc) on valid and damaged files
            s0 = solgen.rand_sol(rng, maxn=rng.choice([3, 12]), with_options=True)
            s0.nvars = max(1, s0.nvars)
            mixed = rng.random() < 0.7
            if mixed:
                # partial primal / dual vectors (0 < n_primal < num_vars) on a model whose variable permutation is not the identity
                s0.nvars = max(s0.nvars, rng.choice([3, 5, 6, 9]))
                k = rng.choice([0, 1, s0.nvars // 2, s0.nvars - 1, s0.nvars])
                s0.primals = [solgen.rand_double(rng) for _ in range(k)]
                s0.ncons = max(s0.ncons, rng.choice([1, 3]))
                s0.duals = s0.duals[:rng.choice([0, 1, s0.ncons])]
                s0.sufs = [x for x in s0.sufs if True]
            b = solgen.bin_bytes(s0) if binary else solgen.text_bytes(s0)
            mut = 'valid'
            if rng.random() < 0.3:
                b, mut = solgen.mutate(rng, b, binary)
            add('easy-handler%s:%s' % ('-permuted' if mixed else '', mut), b, s0.nvars, s0.ncons, (0, 'while', 'while', 'while'), easy=True, mixed=mixed)
        elif r < 0.12 and not binary:
            # printf directives inside the offending line of every malformed-line kind (text format quotes lines in its messages)
            b, nv_true, nc_true, kinds = solgen.printf_hostile_text(rng)
            add('printf-hostile-text:' + kinds[0], b, nv_true, nc_true, (0, rng.choice(['all', 'while']), rng.choice(['all', 'while']), rng.choice(['all', 'while', 'all', 'err:1:7'])))
        elif r < 0.22:
            # hostile count lines of the Options block (each of the four independently), text and binary
            b, nv_true, nc_true, counts = solgen.hostile_counts_file(rng, binary)
            pol = (0, rng.choice(['all', 'while', 'while']), rng.choice(['all', 'while', 'while']), 'all') if rng.random() < 0.8 else solgen.rand_policy(rng)
            add('hostile-counts-bin' if binary else 'hostile-counts-text', b, rng.choice([nv_true, nv_true, nv_true + 3, 0]),
                rng.choice([nc_true, nc_true, nc_true + 3, 0]), pol, counts=counts)
        elif r < 0.26:
            # binary file cut inside an element of the dual / primal vector: that element is not in the file
            s0 = solgen.rand_sol(rng, maxn=rng.choice([3, 12]))
            while not (s0.duals or s0.primals):
                s0 = solgen.rand_sol(rng, maxn=rng.choice([3, 12]))
            full = solgen.bin_bytes(s0)
            s1 = s0.clone(); s1.duals = []; s1.primals = []; s1.objno = None
            # offset of the dual data = everything before the dual record + its 4-byte length
            head = solgen.bin_bytes(s1)
            dstart = len(head) - 16 + 4          # bin_bytes(s1) ends with two empty records (8 bytes each)
            pstart = dstart + 8 * len(s0.duals) + 4 + 4
            assert full[dstart - 4:dstart] == struct.pack('<I', 8 * len(s0.duals)) and full[pstart - 4:pstart] == struct.pack('<I', 8 * len(s0.primals))
            if s0.duals and (not s0.primals or rng.random() < 0.5):
                k = rng.randrange(len(s0.duals)); cut = dstart + 8 * k + rng.randint(1, 7); avail = {'dual': k, 'primal': 0}
            else:
                k = rng.randrange(len(s0.primals)); cut = pstart + 8 * k + rng.randint(1, 7); avail = {'dual': len(s0.duals), 'primal': k}
            add('truncate-in-vector-bin', full[:cut], s0.nvars, s0.ncons, (0, rng.choice(['all', 'while']), rng.choice(['all', 'while']), 'all'), avail=avail)
        elif r < 0.27:
            # binary suffix record whose name is not NUL-terminated inside namelen
            s0 = solgen.rand_sol(rng, maxn=3)
            s0.sufs = []
            s0.objno = 0
            nm = rng.choice([b'foo', b'ab', b'sstatus'])
            tb = rng.choice([b't\0', b'tab\0', b'x' * 7 + b'\0'])
            recb = b'\nSuffix\n' + struct.pack('<iiii', 0, 0, len(nm), len(tb)) + nm + tb
            b = solgen.bin_bytes(s0) + solgen.rec(recb)
            add('bin-name-unterminated', b, s0.nvars, s0.ncons, (0, 'all', 'all', 'all'), namelen=len(nm))
        elif r < 0.45:
            # valid file, sizes as the reader needs them, read-all handler: full expected events known
            s = solgen.rand_sol(rng, maxn=rng.choice([3, 12, 40]))
            b = solgen.bin_bytes(s) if binary else solgen.text_bytes(s, rng.choice([b'\n', b'\n', b'\r\n']))
            if s.options is not None:
                nv = s.nvars + rng.choice([0, 0, 3])
                nc = s.ncons + rng.choice([0, 0, 3])
            else:
                nv, nc = len(s.primals), len(s.duals)
            add('valid-bin' if binary else 'valid-text', b, nv, nc, (0, 'all', 'all', 'all'), expected=solgen.expected_events(s, binary))
        elif r < 0.60:
            # valid file x declared sizes {0, smaller, equal, larger} x handler policies
            s = solgen.rand_sol(rng, maxn=rng.choice([3, 12]))
            b = solgen.bin_bytes(s) if binary else solgen.text_bytes(s)
            add('sizes-bin' if binary else 'sizes-text', b, solgen.declared(rng, s.nvars), solgen.declared(rng, s.ncons), solgen.rand_policy(rng))
        elif r < 0.84:
            s = solgen.rand_sol(rng, maxn=rng.choice([3, 12]))
            b = solgen.bin_bytes(s) if binary else solgen.text_bytes(s)
            muts = []
            for _ in range(rng.choice([1, 1, 2, 3])):
                b, m = solgen.mutate(rng, b, binary)
                muts.append(m)
            pol = solgen.rand_policy(rng) if rng.random() < 0.5 else (0, 'all', 'all', 'all')
            add(('mut-bin:' if binary else 'mut-text:') + muts[0], b, solgen.declared(rng, s.nvars), solgen.declared(rng, s.ncons), pol)
        elif r < 0.95:
            if binary:
                b, s = solgen.hostile_suffix_bin(rng)
            else:
                b, s = solgen.hostile_suffix_text(rng)
            pol = solgen.rand_policy(rng) if rng.random() < 0.3 else (0, 'all', 'all', 'all')
            add('hostile-suffix-bin' if binary else 'hostile-suffix-text', b, s.nvars, s.ncons, pol)
        else:
            # raw garbage / tiny files
            k = rng.choice([0, 1, 3, 4, 5, 10, 16, 17, 40, 200])
            alphabet = rng.choice([bytes(range(256)), b'0123456789 \n.-eE', b'\n\rO\b 6\0'])
            b = bytes(rng.choice(alphabet) for _ in range(k))
            if rng.random() < 0.3:
                b = struct.pack('<I', 6) + b'binary' + struct.pack('<I', rng.choice([6, 6, 5])) + b
            add('garbage', b, rng.choice([0, 1, 3]), rng.choice([0, 1, 3]), solgen.rand_policy(rng))
    return cases


EMSG = {}  # case id -> error message returned by the real reader
FX = [0]   # model flags word for the tree under test, decided by behavioural probes: bit0 = bounds fix 602adf1 (fx), bit1 = Bad_Options message (fm)
P4 = {'objno': False, 'isuf': False}   # tree has repo_patches/C14-objno-int-range.diff / C14-int-suffix-range.diff (number values are outside the Lean model)


def case_line(c, for_driver=False):
    rv, da, pa, sa = c['pol']
    if c.get('easy'):
        da = pa = sa = 'while' if for_driver else ('easyp' if c.get('mixed') else 'easy')
    if c.get('capi'):
        da = pa = sa = 'all' if for_driver else 'capi'
    if c.get('missing') and not for_driver:
        return 'case %s %d %d %d %d %s %s %s missing' % (c['id'], FX[0], c['nv'], c['nc'], rv, da, pa, sa)
    return 'case %s %d %d %d %d %s %s %s %s' % (c['id'], FX[0], c['nv'], c['nc'], rv, da, pa, sa, c['bytes'].hex() or '-')


# ---------------------------------------------------------------- property oracle on the implementation's output
def parse_events(evs):
    return [e.split(' ') for e in evs.split(' ; ')] if evs else []


def oracle(c, line):
    """returns list of (signature, description) of property failures visible in what the real reader did"""
    bad = []
    fmt = 'binary' if c['bytes'][:4] == b'\x06\0\0\0' else 'text'
    p = line.split(' ')
    if p[1] == 'ABORT':
        bad.append(('%s:abort:%s' % (fmt, p[2]), 'reader aborted (%s): memory error / undefined behaviour / hang' % p[2]))
        return bad
    head, _, evs = line.partition(' | ')
    _, code, msg = head.split(' ')
    code = code.split('=')[1]
    msg = msg.split('=')[1]
    if code not in DOCUMENTED:
        bad.append(('%s:undocumented-result:%s' % (fmt, code), 'result %s is not a documented NLW2_SOLReadResultCode' % code))
    # the message may quote file text verbatim, or not at all: never an expansion of it (file text used as a printf format)
    em = EMSG.get(c['id'], b'')
    for m in re.finditer(rb'@@(.*?)@@', em, re.S):
        if m.group(0) not in c['bytes']:
            bad.append(('%s:file-text-expanded-in-error-message' % fmt,
                        'the error message contains %r, the file contains no such text (a line of the file was used as a printf format); message: %r' % (m.group(0)[:60], em[:200])))
            break
    if code != 'OK' and msg != '1':
        bad.append(('error-without-message:%s' % code, 'error code %s returned with an empty message' % code))
    events = parse_events(evs)
    for k, e in enumerate(events):
        vec = None
        if e[0] in ('dual', 'primal'):
            vec = e[1:5]
            lim, what = (c['nc'], 'constraints') if e[0] == 'dual' else (c['nv'], 'variables')
            offered_ = int(vec[0])
            delivered = 0 if vec[3] == '-' else vec[3].count(',') + 1      # ReadNext calls that returned data
            if offered_ > lim or delivered > lim:
                bad.append(('%s:%s-offer-exceeds-problem-size' % (fmt, e[0]), 'handler was offered %d and delivered %d %s values, problem has %d %s'
                            % (offered_, delivered, e[0], lim, what)))
            if offered_ < 0:
                bad.append(('%s:%s-negative-count-offered' % (fmt, e[0]), 'handler was offered a vector of Size() = %d (%d values delivered to a while(Size()) loop)'
                            % (offered_, delivered)))
            if 'avail' in c and delivered > c['avail'][e[0]]:
                bad.append(('%s:partial-vector-reported-complete' % fmt if (vec[1] == 'OK' and vec[2] == '0') else '%s:value-not-in-file-delivered' % fmt,
                            '%s vector: %d values delivered with status %s and Size() = %s, but the file contains only %d complete elements (it is cut inside the next one)'
                            % (e[0], delivered, vec[1], vec[2], c['avail'][e[0]])))
        elif e[0] == 'suf':
            vec = e[4:8]
        if vec:
            offered, rr, rem = int(vec[0]), vec[1], int(vec[2])
            nitems = 0 if vec[3] == '-' else vec[3].count(',') + 1
            if rr == 'OK' and offered >= 0 and nitems + rem != offered:
                bad.append(('%s:vector-count-mismatch' % fmt, 'status OK but %d delivered + %d remaining != %d offered' % (nitems, rem, offered)))
            if rr != 'OK' and rem != 0 and rr in ('EarlyEOF', 'BadLine'):
                bad.append(('%s:failed-vector-still-open' % fmt, 'read failed (%s) but Size() = %d' % (rr, rem)))
            incomplete = rr != 'OK' or rem != 0
            if incomplete and (code == 'OK' or k != len(events) - 1):
                bad.append(('%s:partial-vector-not-reported' % fmt, 'vector %s ended with status %s, %d unread, yet the reader went on / returned %s'
                            % (e[0], rr, rem, code)))
    if 'expected' in c:
        exp = [canon_impl(x) for x in c['expected']]
        got = evs.split(' ; ') if evs else []
        if code != 'OK' or got != exp:
            d = next((i for i in range(min(len(exp), len(got))) if exp[i] != got[i]), min(len(exp), len(got)))
            bad.append(('%s:valid-file-misread' % fmt, 'well-formed file: result %s, first differing event #%d: expected %r got %r' %
                        (code, d, exp[d] if d < len(exp) else None, got[d] if d < len(got) else None)))
    if 'namelen' in c:
        for e in events:
            if e[0] == 'suf' and e[2] != '-' and len(e[2]) // 2 > c['namelen'] - 1:
                bad.append(('%s:suffix-name-longer-than-stated' % fmt, 'namelen %d but the delivered name has %d characters' % (c['namelen'], len(e[2]) // 2)))
    return bad


def run_streams(ck, cases, tag):
    work = os.path.join(BUILD, 'c14work')
    os.makedirs(work, exist_ok=True)
    cf = os.path.join(work, tag + '.cases')
    with open(cf, 'w') as f:
        for c in cases:
            f.write(case_line(c) + '\n')
    cfd = cf + '.drv'          # same cases for the Lean driver: the library's own handler is a while(Size()) handler, a missing file is outside the model
    with open(cfd, 'w') as f:
        for c in cases:
            f.write(case_line(c, True) + '\n')
    exe = ck.link('h_solread', ck.objects([os.path.join(VERIF, 'harness', 'h_solread.cc')], flags=SAN, tag='c14') + ck.libnlw2_objects(flags=tuple(SAN)),
                  flags=['-fsanitize=address,undefined'])
    env = {'ASAN_OPTIONS': 'detect_leaks=0:allocator_may_return_null=0:max_allocation_size_mb=3000', 'UBSAN_OPTIONS': 'print_stacktrace=0'}
    rc, out, err = sh([exe, cf, work], env=env, timeout=3000)
    impl = out.split('\n')[:-1] if out.endswith('\n') else out.split('\n')
    for k, l in enumerate(impl):          # split off the error message text
        if ' || emsg=' in l:
            l, _, h = l.partition(' || emsg=')
            EMSG[l.split(' ')[0]] = bytes.fromhex(h) if h != '-' else b''
            impl[k] = l
    if rc != 0 or len(impl) != len(cases):
        raise RuntimeError('harness h_solread failed: rc=%s, %d lines for %d cases: %s' % (rc, len(impl), len(cases), err[-800:]))
    drv = ck.driver('drv_c14')
    with open(cfd) as fi:
        p = subprocess.run([drv], stdin=fi, capture_output=True, text=True, timeout=3000)
    model = p.stdout.split('\n')[:-1]
    if p.returncode != 0 or len(model) != len(cases):
        raise RuntimeError('lean driver drv_c14 failed: rc=%s, %d lines for %d cases: %s' % (p.returncode, len(model), len(cases), p.stderr[-800:]))
    return impl, model, exe, cf


def valgrind_confirm(ck, cases):
    """run the cases through an unsanitized build of the harness under memcheck; True = uninitialised use reported"""
    import shutil
    if not shutil.which('valgrind'):
        ck.notes.append('valgrind not available: indeterminate-read cases are reported from the model only')
        return [None] * len(cases)
    work = os.path.join(BUILD, 'c14work')
    exe = ck.link('h_solread_plain', ck.objects([os.path.join(VERIF, 'harness', 'h_solread.cc')], flags=('-O0', '-g', '-DNDEBUG'), tag='c14p') +
                  ck.libnlw2_objects(flags=('-O0', '-g', '-DNDEBUG')))
    cf = os.path.join(work, 'vg.cases')
    with open(cf, 'w') as f:
        for c in cases:
            f.write(case_line(c) + '\n')
    rc, out, err = sh(['valgrind', '-q', '--error-exitcode=9', '--trace-children=yes', exe, cf, work], timeout=1200)
    lines = out.split('\n')[:-1]
    res = []
    for c in cases:
        mine = [l for l in lines if l.startswith(c['id'] + ' ')]
        res.append(any(l == c['id'] + ' ABORT exit-9' for l in mine) and 'uninitialised' in err)
    return res


def decide_variant(ck, tag='probe'):
    """behavioural probes: which fixes does the tree under test have?  Selects the model variant (fx, fm) and the
    expected treatment of out-of-range numbers (outside the Lean model)."""
    base = b'm\n\n'
    probes = [
        dict(id='p-bounds', family='probe', nv=0, nc=0, pol=(0, 'all', 'all', 'all'), bytes=base + b'objno 0 0\nsuffix 0 0 600 0 0\nfoo\n'),
        dict(id='p-optmsg', family='probe', nv=0, nc=0, pol=(1, 'all', 'all', 'all'), bytes=base + b'Options\n3\n0\n1\n0\n0\n0\n0\n0\n'),
        dict(id='p-objno', family='probe', nv=0, nc=0, pol=(0, 'all', 'all', 'all'), bytes=base + b'objno 1e30 0\n'),
        dict(id='p-isuf', family='probe', nv=0, nc=0, pol=(0, 'all', 'all', 'all'), bytes=base + b'objno 0 0\nsuffix 0 1 4 0 0\nfoo\n0 1e30\n'),
    ]
    pi, _, _, _ = run_streams(ck, probes, tag)
    fx = 0 if ' ABORT ' in pi[0] else 1
    fm = 1 if 'code=BadOptions msg=1' in pi[1] else 0
    FX[0] = fx + 2 * fm
    P4['objno'] = ' ABORT ' not in pi[2]
    P4['isuf'] = ' ABORT ' not in pi[3]
    variant = {'bounds_fix_602adf1': bool(fx), 'badoptions_message': bool(fm), 'objno_int_range': P4['objno'], 'int_suffix_range': P4['isuf']}
    ck.log('probes: %s' % variant)
    ck.cov['tree_variant'] = variant
    if not fx:
        ck.notes.append('the tree under test behaves like the reader BEFORE ampl/mp 602adf1 (bounds fix missing): compared with the history variant of the model')
    return variant


KNOWN_UB_SIG = {
    'oob': 'text:gsufread-name-index:out-of-bounds',
    'overflow': 'suffix-header:signed-int-overflow',
    'cast': 'text:number-to-int:float-cast-overflow',
    'uninit': 'text:gsufread-name-index:indeterminate-read',
}


ANCHORS = ['nl-writer2/include/mp/sol-reader2.hpp', 'nl-writer2/include/mp/sol-reader2.h', 'nl-writer2/include/mp/sol-handler.h',
           'nl-writer2/src/nl-utils.cc', 'nl-writer2/include/mp/nl-utils.h', 'nl-writer2/src/nl-solver.cc']
MECH = [r'ReadSOLFile', r'sufheadcheck', r'gsufread', r'bsufread', r'Lget', r'VecReader', r'CheckReader', r'mp::Read', r'decstring', r'Report', r'serror',
        r'SOLHandler_Easy', r'NLSolver::ReadSolution']


def coverage_run(ck):
    import covtool
    rng = random.Random(ck.seed * 1000003 + 14)
    cases = gen_cases(rng, 2500)
    covdir = os.path.join(BUILD, 'cov_c14')
    exe = covtool.build(covdir, [os.path.join(VERIF, 'harness', 'h_solread.cc'), os.path.join(REPO, 'nl-writer2', 'src', 'nl-utils.cc')] + cov_extra_sources())
    cf = os.path.join(covdir, 'cases.txt')
    with open(cf, 'w') as f:
        for c in cases:
            f.write(case_line(c) + '\n')
    rc, out, err = sh([exe, cf, covdir], timeout=3000)
    files = covtool.collect(covdir)
    res = covtool.summarize(files, ANCHORS, MECH)
    p = covtool.write_report('C14', res)
    ck.log('coverage: anchored files %s %% lines, %s %% branches; %d uncovered items in the mechanism functions -> %s'
           % (res['anchor_line_cov'], res['anchor_branch_cov'], len(res['mechanism_uncovered']), p))
    ck.cov.update({'evaluations': len(cases), 'distinct_nontrivial': 0, 'rule': 'coverage measurement run (VERIF_COVERAGE=1), no verdict',
                   'obligations': 0, 'discharged': 0, 'anchor_line_cov': res['anchor_line_cov'], 'anchor_branch_cov': res['anchor_branch_cov']})


def cov_extra_sources():
    return [os.path.join(REPO, x) for x in Check.LIBNLW2_SRC if not x.endswith('nl-utils.cc')]


def regen_guards(ck):
    """regenerate lean/MpVerif/Gen/SolGuards.lean from the tree under test (translator tie, ROUND 4); returns error text or None"""
    rc, out, err = sh([sys.executable, os.path.join(VERIF, 'translators', 'gen_solguards.py'), REPO,
                       os.path.join(LEAN, 'MpVerif', 'Gen', 'SolGuards.lean'), os.path.join(BUILD, 'tr')], timeout=600)
    ck.log((out.strip() or err.strip())[-300:])
    ck.cov['translator'] = 'translators/gen_solguards.py: 10 integer decisions of sol-reader2.hpp / sol.h + the writer format list, regenerated from the tree under test'
    return None if rc == 0 else (out + err).strip()[-500:]


def run(ck):
    if os.environ.get('VERIF_COVERAGE'):
        return coverage_run(ck)
    ck.level = 'proof'
    tr_err = regen_guards(ck)
    if tr_err:
        ck.add_violation('translator:sol-guards', 'the integer decisions of the SOL reader/writer could not be re-translated from the source (the code around them changed): %s' % tr_err,
                         {'translator': 'translators/gen_solguards.py', 'output': tr_err}, found_input=False)
    proof_ok, failing = ck.proof_stage('MpVerif.C14.Props', 'MpVerif/C14/Props.lean', 'C14_',
                                        ['MpVerif/C14/*.lean', 'MpVerif/Gen/SolGuards.lean'], expect_min=40)
    ck.log('proof stage: ok=%s failing=%s' % (proof_ok, failing[:12]))
    if ck.tier == 'thorough' and proof_ok:
        bad = ck.leanchecker(['MpVerif.C14.Props'])
        if bad:
            failing += ['leanchecker rejected %s' % m for m in bad]
            proof_ok = False

    decide_variant(ck)
    rng = random.Random(ck.seed * 1000003 + 14)
    n_cases = 2500 if ck.tier == "quick" else 20000
    cases = gen_cases(rng, n_cases)
    impl, model, exe, cf = run_streams(ck, cases, 'main')

    fam = {}
    codes = {}
    evkinds = {}
    ntriv = set()
    corr_bad = []
    model_classes = set()
    n_easy = [0]
    n_perm = [0]
    n_capi = [0]
    n_capi_opts = [0, 0]
    uninit_cases = []
    ub_hits = {}
    n_events = 0
    for c, il, ml in zip(cases, impl, model):
        fam[c['family']] = fam.get(c['family'], 0) + 1
        if ' | ' in ml:
            mh, _, mev = ml.partition(' | ')
            model_classes.add((c['bytes'][:4] == b'\x06\0\0\0', mh.split(' ')[1], tuple(e.split(' ')[0] + (':' + e.split(' ')[2] if e.split(' ')[0] in ('dual', 'primal') else '') for e in mev.split(' ; ')) if mev else ()))
        il = canon_impl(il)
        binary = c['bytes'][:4] == b'\x06\0\0\0'
        if c.get('missing'):
            # outside the model (readSol assumes the file exists): documented code Fail_Open with a message, nothing delivered
            if il != '%s code=FailOpen msg=1 | ' % c['id']:
                ck.add_violation('missing-file:not-reported-as-fail-open', 'a missing .sol file gave: %s' % il[:120], {'case': case_line(c), 'impl': il})
            codes['FailOpen'] = codes.get('FailOpen', 0) + 1
            continue
        if ml == 'bad-op' or il == 'bad-op':
            corr_bad.append((c, il, ml, 'bad-op'))
            continue
        if c.get('capi'):
            n_capi[0] += 1
            try:
                expn, tag = norm_model(ml, binary)
            except Exception as e:
                corr_bad.append((c, il, ml, 'cannot interpret model line: %r' % (e,)))
                continue
            if tag is not None:
                continue
            mcap = re.search(r'opts n=\d+ cap=(\d+) ', il)
            want, nopts = capi_expected(expn.partition(' ')[2], int(mcap.group(1)) if mcap else 9)
            if il.split(' ')[1] == 'ABORT':
                cls = il.split(' ')[2]
                sig = 'c-api:abort:%s' % cls
                if nopts is not None and nopts > 9 and cls in ('stack-buffer-overflow', 'index', 'SEGV', 'stack-buffer-underflow'):
                    sig = 'c-api:ampl-options-copy:stack-buffer-overflow'
                ck.add_violation(sig, 'reading through the C API (NLW2_Read2SOLHandler_C) aborted (%s); the reader hands %s option values to NLW2_SOLHandler_C_Impl::OnAMPLOptions, '
                                 'which copies them into AMPLOptions_C::options_[9] [%d bytes, nVars=%d nCons=%d]' % (cls, nopts, len(c['bytes']), c['nv'], c['nc']),
                                 {'case': case_line(c), 'impl': il, 'model': ml, 'how': 'harness/h_solread.cc capi mode (NLW2_MakeNLSolver_C, NLW2_SetFileStub_C, NLW2_Read2SOLHandler_C), ASan'})
                codes['capi:ABORT'] = codes.get('capi:ABORT', 0) + 1
                continue
            body = il.partition(' ')[2]
            mo = re.search(r'opts n=(\d+) cap=(\d+) ', body)
            if mo and int(mo.group(1)) > int(mo.group(2)):
                ck.add_violation('c-api:ampl-options-copy:n_options-exceeds-array', 'AMPLOptions_C handed to the C callback says n_options_ = %s for an array of %s'
                                 % (mo.group(1), mo.group(2)), {'case': case_line(c), 'impl': il, 'model': ml})
            # every value of every options block must arrive in the C struct: n_options_ = nOpts + 5 and the same values, in order
            wo = [e for e in want.split(' ; ') if e.startswith('opts ')]
            go = [e for e in body.split(' ; ') if e.startswith('opts ')]
            if wo != go:
                ck.add_violation('c-api:ampl-options-delivery', 'the options block handed to the C callback differs from what the reader delivers: got %s, expected %s'
                                 % (go, wo), {'case': case_line(c), 'impl': il, 'model': ml})
            elif wo:
                n_capi_opts[0] += 1
                if nopts is not None and nopts > 9:
                    n_capi_opts[1] += 1
            if not capi_match(want, body):
                corr_bad.append((c, il, ml, 'C API result differs; model expects: ' + want))
            codes['capi:' + want.split(' ')[0].split('=')[1]] = codes.get('capi:' + want.split(' ')[0].split('=')[1], 0) + 1
            continue
        if c.get('easy'):
            n_easy[0] += 1
            if il.split(' ')[1] == 'ABORT':
                ck.add_violation('easy-handler:abort:%s' % il.split(' ')[2], 'NLSolver::ReadSolution with the library handler SOLHandler_Easy aborted (%s) [nVars=%d nCons=%d, %d bytes]'
                                 % (il.split(' ')[2], c['nv'], c['nc'], len(c['bytes'])), {'case': case_line(c), 'impl': il, 'model': ml})
                continue
            try:
                expn, tag = norm_model(ml, binary)
            except Exception as e:
                corr_bad.append((c, il, ml, 'cannot interpret model line: %r' % (e,)))
                continue
            if tag is not None:
                continue
            want, (want_code, alt_code) = easy_expected(expn.partition(' ')[2], c['nv'], c['nc'])
            head, _, body = il.partition(' | ')
            rc = head.split(' ')[1].split('=')[1]
            mpx = re.search(r' perm=(\S+) xv=(\S+)$', body)
            if mpx:
                body = body[:mpx.start()]
                perm = [int(t) for t in mpx.group(1).split(',')] if mpx.group(1) != '-' else []
                xv = mpx.group(2).split(',') if mpx.group(2) != '-' else []
                # the solution vector: exactly NumCols entries, the file's values at their un-permuted positions, zeros elsewhere
                pe = [e for e in expn.partition(' | ')[2].split(' ; ') if e.startswith('primal ')]
                if pe:
                    pp = pe[0].split(' ')
                    vals = pp[4].split(',') if pp[4] != '-' else []
                    if len(xv) != c['nv']:
                        ck.add_violation('easy-handler:solution-vector-size', 'NLSolution::x_ has %d entries for a model with %d variables (%s primal values in the file)'
                                         % (len(xv), c['nv'], pp[1]), {'case': case_line(c), 'impl': il, 'model': ml})
                    elif pp[2] == 'OK' and len(perm) == c['nv']:
                        wantx = ['R0000000000000000'] * c['nv']
                        for k2, v2 in enumerate(vals):
                            wantx[perm[k2]] = v2
                        if wantx != xv:
                            ck.add_violation('easy-handler:solution-vector-values', 'NLSolution::x_ = %s, expected the file values un-permuted with zeros elsewhere: %s (vperm_inv = %s)'
                                             % (xv[:8], wantx[:8], perm[:8]), {'case': case_line(c), 'impl': il, 'model': ml})
                    if perm != list(range(len(perm))):
                        n_perm[0] += 1
                elif xv:
                    ck.add_violation('easy-handler:solution-vector-size', 'NLSolution::x_ has %d entries although no primal vector was delivered' % len(xv),
                                     {'case': case_line(c), 'impl': il, 'model': ml})
            m = re.match(r'easy ok=(\d) x=(\d+) y=(\d+) ', body)
            if m and (int(m.group(2)) > c['nv'] or int(m.group(3)) > c['nc']):
                ck.add_violation('easy-handler:more-values-than-the-problem-has', 'NLSolution holds %s primal / %s dual values for a problem with %d variables / %d constraints'
                                 % (m.group(2), m.group(3), c['nv'], c['nc']), {'case': case_line(c), 'impl': il, 'model': ml})
            if body != want:
                corr_bad.append((c, il, ml, 'library handler (SOLHandler_Easy) result differs; model expects: ' + want))
            if rc == 'NotSet':
                ck.add_violation('nlsolver:sol-read-result-code-never-set', 'NLSolver::GetSolReadResultCode() returns Result_Not_Set after ReadSolution() (expected %s): sol_result_ is never assigned'
                                 % want_code, {'case': case_line(c), 'impl': il, 'how': 'harness/h_solread.cc easy mode: NLSolver::LoadModel + ReadSolution()'})
            elif rc != want_code and rc != alt_code:
                corr_bad.append((c, il, ml, 'NLSolver::GetSolReadResultCode() = %s, model expects %s' % (rc, want_code)))
            codes['easy:' + want_code] = codes.get('easy:' + want_code, 0) + 1
            continue
        try:
            exp, tag = norm_model(ml, binary)
        except Exception as e:
            corr_bad.append((c, il, ml, 'cannot interpret model line: %r' % (e,)))
            continue
        ip = il.split(' ')
        key = ip[1] if ip[1] == 'ABORT' else ip[1].split('=')[1]
        codes[key] = codes.get(key, 0) + 1
        if ip[1] != 'ABORT':
            evs = il.partition(' | ')[2]
            for e in (evs.split(' ; ') if evs else []):
                k = e.split(' ')[0]
                evkinds[k] = evkinds.get(k, 0) + 1
                n_events += 1
            if evs:
                ntriv.add(il.partition(' ')[2])
        # --- oracle on the real reader's behaviour
        for sig, what in oracle(c, il):
            if sig.endswith(':suffix-name-longer-than-stated'):
                pass
            if ip[1] == 'ABORT' and tag in ('oob', 'overflow', 'cast'):
                ok_class = (tag == 'oob' and ip[2] in OOB_CLASSES) or (tag == 'overflow' and ip[2] == 'signed-integer-overflow') \
                    or (tag == 'cast' and ip[2] == 'outside-the-range-of-representable-values')
                if ok_class:
                    sig = KNOWN_UB_SIG[tag]
            ub_hits[sig] = ub_hits.get(sig, 0) + 1
            ck.add_violation(sig, '%s [family %s, nVars=%d nCons=%d policy=%s, %d bytes]' % (what, c['family'], c['nv'], c['nc'], c['pol'], len(c['bytes'])),
                             {'case': case_line(c), 'impl': il, 'model': ml,
                              'how': 'echo "<case line>" > f; %s f <workdir>   (harness/h_solread.cc built with %s against $MP_REPO)' % (os.path.basename(exe), ' '.join(SAN))})
        # --- correspondence
        if tag == 'uninit':
            uninit_cases.append((c, il, ml))
            continue
        if tag in ('oob', 'overflow', 'cast'):
            if ip[1] != 'ABORT':
                corr_bad.append((c, il, ml, 'model predicts undefined behaviour (%s), the sanitized reader did not abort' % tag))
            continue
        if exp != il:
            corr_bad.append((c, il, ml, 'model expects: ' + exp))
        if len(ck.cov['samples']) < 8 and c['family'] not in [s.get('family') for s in ck.cov['samples']]:
            ck.sample({'family': c['family'], 'case': case_line(c)[:300], 'impl': il[:300]})
    # model predicts a read of a never-written stack byte: confirm on the real code with valgrind (memcheck)
    if uninit_cases:
        sub = uninit_cases[:6 if ck.tier == 'quick' else 60]
        conf = valgrind_confirm(ck, [c for c, _, _ in sub])
        for (c, il, ml), ok in zip(sub, conf):
            if ok:
                ub_hits[KNOWN_UB_SIG['uninit']] = ub_hits.get(KNOWN_UB_SIG['uninit'], 0) + 1
                ck.add_violation(KNOWN_UB_SIG['uninit'], 'gsufread compares buf[namelen-1] although fgets stored fewer bytes: valgrind reports a use of an uninitialised value in the real reader (which answered: %s)' % il[:100],
                                 {'case': case_line(c), 'impl': il, 'model': ml, 'how': 'valgrind --trace-children=yes <h_solread built -O0 without sanitizers> <case file> <workdir>'})
            elif ok is False:
                corr_bad.append((c, il, ml, 'model predicts a read of an indeterminate byte, valgrind did not report one'))
        ck.cov['uninit_read_cases'] = {'predicted_by_model': len(uninit_cases), 'run_under_valgrind': len(sub), 'confirmed': sum(1 for x in conf if x)}
    for c, il, ml, why in corr_bad[:5]:
        has_oracle_fail = bool(oracle(c, il))
        ck.add_violation('model-differs:%s' % c['family'].split(':')[0], 'Lean model readSol and the real reader disagree (%s)' % why[:300],
                         {'case': case_line(c), 'impl': il, 'model': ml, 'why': why, 'correspondence': 'drv_c14 vs h_solread'},
                         found_input=has_oracle_fail)
    ck.log('cases=%d families=%s' % (len(cases), fam))
    ck.log('results=%s' % codes)
    ck.log('events=%s ub/known classes hit=%s disagreements=%d' % (evkinds, ub_hits, len(corr_bad)))

    if not proof_ok:
        for fdecl in failing:
            ck.add_violation('obligation:%s' % fdecl, 'proof obligation no longer checks: %s' % fdecl,
                             {'theorem': fdecl, 'module': 'MpVerif.C14.Props', 'searched': '%d generated files through the real reader' % len(cases)},
                             found_input=False)
    ck.cov.update({
        'evaluations': len(cases),
        'distinct_nontrivial': len(ntriv),
        'rule': 'each case = (file bytes, declared nVars/nCons, handler policy) run through the real mp::ReadSOLFile under ASan+UBSan and through the Lean model; '
                'non-trivial = the reader delivered at least one event; distinct = distinct (result, event list)',
        'traces_validated_against_impl': len(cases) - len(corr_bad),
        'generator_families': fam, 'result_codes_hit': codes, 'event_kinds_hit': evkinds, 'events_total': n_events,
        'known_ub_classes_hit': ub_hits,
        'model_outcome_classes': len(model_classes), 'model_result_codes': sorted({m[1] for m in model_classes}),
        'library_handler_cases': n_easy[0], 'library_handler_cases_with_nonidentity_permutation_and_primal_vector': n_perm[0], 'c_api_cases': n_capi[0], 'c_api_options_blocks_delivered_in_full': n_capi_opts[0], 'c_api_options_blocks_with_more_than_9_values': n_capi_opts[1],
        'correspondence': {'lines_compared_model_vs_impl': len(cases), 'disagreements': len(corr_bad)},
        'exhaustive': False,
    })
    ck.notes.append('memory-safety / UB clause: proved on the model (for the patched reader in full, for the reader as is up to four modelled UB classes with counterexamples); on the real code it is observed by sanitizers on the generated inputs only')
    try:
        cj = json.load(open(os.path.join(VERIF, 'design_notes', 'coverage', 'C14.json')))
        ck.cov.update({'anchor_line_cov': cj['anchor_line_cov'], 'anchor_branch_cov': cj['anchor_branch_cov'],
                       'mechanism_line_cov': cj.get('mechanism_line_cov'), 'mechanism_branch_cov': cj.get('mechanism_branch_cov'),
                       'coverage_note': 'measured by the last VERIF_COVERAGE=1 run (gcov-12, quick-tier stream), see design_notes/coverage/C14.md'})
    except Exception:
        pass
    ck.assumptions += [
        'the .sol file exists and is a regular file (Fail_Open is not reachable from byte strings)',
        'the handler only calls ReadNext while Size() > 0 and passes a documented code and a %-free message to SetError',
        'built with -DNDEBUG (production); without it ~VecReader asserts when a handler leaves values unread',
        'number values: strtod/(int) casts are outside the Lean model (consumed text is modelled); compared through python float()',
        'memory safety / UB on the real code is observed by ASan+UBSan(+float-cast-overflow) on the generated inputs only (evidence, not proof)',
    ]
    ck.cov['trusted_base'] += ['gen/solgen.py (file generator, expected events for well-formed files)', 'harness/h_solread.cc + harness/sol_rec.h']

"""C04 — solutions and suffixes return to the original model's items intact.

Stages (DESIGN §5 C04, pattern P2):
  1. proof obligations: lean/MpVerif/C04/Props.lean (+ axiom audit)
  2. per generated NL model x acceptance subset x solver answer x call sequence:
       run the real driver (harness/recsolver, built from $MP_REPO) ->
         final link graph of the real ValuePresolver, every pre/postsolve result, the .sol file
       a) the Lean driver checks the decidable hypotheses of the theorems on the REAL graph (inBounds, wfVars,
          symbolic origin of every original variable / linear constraint),
       b) replays every transfer through the Lean model on that graph; all results must be identical,
       c) an oracle independent of the Lean model evaluates the property on what the real code returned
          (value of variable j = solver's x[j]; dual/basis/IIS of a linear constraint = those of the delivered row
          with the same body, with the slack mapping; presolve images).
"""
import os, sys, json, subprocess, shutil, hashlib
from fractions import Fraction as F
from common import *
import recsolver
sys.path.insert(0, os.path.join(VERIF, 'gen'))
import nlgen

KINDS = ['gdbl', 'gint', 'sol', 'basis', 'iis', 'lazy']
LEANKIND = {'gdbl': 'generic', 'gint': 'generic', 'sol': 'sol', 'basis': 'basis', 'iis': 'iis', 'lazy': 'lazy'}
CG_LIN, CG_QUAD, CG_GEN = 3, 4, 6
# order of the twelve PostsolveGenericDbl calls in FlatBackend::GetSensRanges, and the .sol suffix each ends in (name, kind)
SENS_FIELDS = ['varlbhi', 'varlblo', 'varubhi', 'varublo', 'varobjhi', 'varobjlo', 'conlbhi', 'conlblo', 'conubhi', 'conublo', 'conrhshi', 'conrhslo']
SENS_SUFFIX = {'varlbhi': ('senslbhi', 0), 'varlblo': ('senslblo', 0), 'varubhi': ('sensubhi', 0), 'varublo': ('sensublo', 0), 'varobjhi': ('sensobjhi', 0),
               'varobjlo': ('sensobjlo', 0), 'conlbhi': ('senslbhi', 1), 'conlblo': ('senslblo', 1), 'conubhi': ('sensubhi', 1), 'conublo': ('sensublo', 1),
               'conrhshi': ('sensrhshi', 1), 'conrhslo': ('sensrhslo', 1)}
EXTRA_ACCEPT = ['AbsConstraint', 'MaxConstraint', 'MinConstraint', 'AndConstraint', 'OrConstraint', 'NotConstraint',
                'IndicatorLinConLE', 'IndicatorLinConEQ', 'IndicatorLinConGE', 'CondLinConLE', 'CondLinConGE', 'CondLinConEQ']
QUADS = ['QuadConRange', 'QuadConLE', 'QuadConEQ', 'QuadConGE']


ALL_MODEL_ARMS = (['entry:%s:%s:%s' % (e, d, k) for e in ('copy', 'm2m', 'r2s') for d in ('pre', 'post') for k in ('generic', 'sol', 'basis', 'iis', 'lazy')] +
                  ['setNum:cur0:v0', 'setNum:cur0:assign', 'setNum:replace-larger', 'setNum:keep:v0', 'setNum:keep:not-larger',
                   'revBasis:low->upp', 'revBasis:upp->low', 'revBasis:other', 'iisVal:slack0->row', 'iisVal:low->upp', 'iisVal:upp->low', 'iisVal:fix', 'iisVal:raise',
                   'lowerSlack:linear', 'lowerSlack:quadratic', 'r2s:pre:iis:noop', 'r2s:post:lazy:noop', 'm2m:many-sources', 'm2m:many-targets', 'copy:range', 'copy:single',
                   'load:zero-filled', 'load:exact', 'load:cut-off', 'run:post:raise',
                   'clamp:below-lb', 'clamp:above-ub', 'clamp:inside', 'clamp:inside-no-ub', 'clamp:inside-no-lb', 'clamp:free'])


def fr(x):
    """Fraction -> driver token"""
    x = F(x)
    return str(x.numerator) if x.denominator == 1 else '%d/%d' % (x.numerator, x.denominator)


# --------------------------------------------------------------------------- generator
def gen_coef(rng):
    c = rng.choice([1, 1, 2, 3, F(1, 2), F(3, 2), 4, 5])
    return -c if rng.chance(1, 3) else c


def gen_lin(rng, n, used, lo=2, hi=3):
    for _ in range(50):
        k = min(n, rng.rint(lo, hi))
        idx = list(range(n))
        vs = []
        for _ in range(k):
            vs.append(idx.pop(rng.below(len(idx))))
        lin = {j: gen_coef(rng) for j in vs}
        key = frozenset(lin.items())
        if key not in used:
            used.add(key)
            return lin
    return None


def gen_model(rng, feat):
    """returns nlgen.Model; `feat` (dict) receives feature counters"""
    m = nlgen.Model()
    n = rng.rint(2, 6)
    for j in range(n):
        integer = rng.chance(1, 3)
        lb = rng.choice([0, 0, -2, -5, 1])
        ub = lb + rng.choice([1, 3, 4, 10, 12])
        if rng.chance(1, 8):
            lb = None
        if rng.chance(1, 8):
            ub = None
        m.var(lb, ub, integer)
    used = set()
    ncon = rng.rint(1, 7)
    shared_abs = None
    for _ in range(ncon):
        t = rng.choice(['range', 'range', 'range', 'le', 'ge', 'eq', 'free', 'quad', 'quadrange', 'abs', 'max', 'shared', 'one'])
        lin = gen_lin(rng, n, used, 1 if t == 'one' else 2, 1 if t == 'one' else 4)
        if lin is None:
            continue
        a = F(rng.rint(-12, 12), rng.choice([1, 1, 2]))
        w = F(rng.rint(1, 16), rng.choice([1, 2]))
        feat[t] = feat.get(t, 0) + 1
        if t in ('range', 'one'):
            m.con(a, a + w, lin)
        elif t == 'le':
            m.con(None, a, lin)
        elif t == 'ge':
            m.con(a, None, lin)
        elif t == 'eq':
            m.con(a, a, lin)
        elif t == 'free':
            m.con(None, None, lin)
        elif t in ('quad', 'quadrange'):
            i, j = rng.below(n), rng.below(n)
            nl = ('*', ('v', i), ('v', j))
            if t == 'quad':
                if rng.chance(1, 2):
                    m.con(None, a + 20, lin, nl=nl)
                else:
                    m.con(a - 20, None, lin, nl=nl)
            else:
                m.con(a - 20, a + 20 + w, lin, nl=nl)
        elif t == 'abs':
            i = rng.below(n)
            m.con(None, a + 20, lin, nl=('abs', ('-', ('v', i), ('n', rng.rint(0, 3)))))
        elif t == 'max':
            i, j = rng.below(n), rng.below(n)
            m.con(None, a + 20, lin, nl=('max', [('v', i), ('v', j), ('n', rng.rint(0, 3))]))
        elif t == 'shared':
            if shared_abs is None:
                i = rng.below(n)
                shared_abs = ('abs', ('-', ('v', i), ('n', rng.rint(1, 3))))
            m.con(None, a + 20, lin, nl=shared_abs)
    # round 3: other flattening paths (each creates its own functional constraints / auxiliary items under the constraint's autolink scope)
    ints = [j for j in range(n) if m.vars[j]['int'] and m.vars[j]['lb'] is not None and m.vars[j]['ub'] is not None]
    bounded = [j for j in range(n) if m.vars[j]['lb'] is not None and m.vars[j]['ub'] is not None]
    if bounded and rng.chance(1, 2):
        for _ in range(rng.rint(1, 3)):
            t = rng.choice(['count', 'numberof', 'ifthen', 'pl', 'div', 'pow2', 'explog', 'min', 'atleast', 'eqenc', 'eqenc'])
            lin = gen_lin(rng, n, used, 1, 3)
            if lin is None:
                continue
            i, j = rng.choice(bounded), rng.choice(bounded)
            k1, k2 = rng.rint(0, 3), rng.rint(0, 3)
            a = F(rng.rint(-6, 6))
            nl = None
            if t == 'count':
                nl = ('count', [('le', ('v', i), ('n', k1)), ('ge', ('v', j), ('n', k2)), ('eq', ('v', i), ('n', k2))])
            elif t == 'numberof':
                nl = ('numberof', ('n', k1), [('v', i), ('v', j)])
            elif t == 'ifthen':
                nl = ('if', ('le', ('v', i), ('n', k1)), ('v', j), ('n', k2))
            elif t == 'pl':
                nl = ('pl', [F(-1), F(1), F(2)], [F(0), F(2)], i)
            elif t == 'div':
                nl = ('/', ('v', i), ('+', ('abs', ('v', j)), ('n', 1 + k1)))
            elif t == 'pow2':
                nl = ('pow', ('v', i), ('n', 2))
            elif t == 'explog':
                nl = ('log', ('+', ('exp', ('v', i)), ('n', 1)))
            elif t == 'min':
                nl = ('min', [('v', i), ('v', j), ('n', k1)])
            elif t == 'atleast':
                m.lcon(('atleast', ('n', 1), ('count', [('le', ('v', i), ('n', k1)), ('ge', ('v', j), ('n', k2))])))
                feat['x_atleast'] = feat.get('x_atleast', 0) + 1
                continue
            elif t == 'eqenc':
                if not ints:
                    continue
                v = rng.choice(ints)
                lbv = int(m.vars[v]['lb'])
                ks = [lbv + d for d in range(min(4, int(m.vars[v]['ub']) - lbv + 1))]
                terms = [('if', ('eq', ('v', v), ('n', kk)), ('n', 1 + d), ('n', 0)) for d, kk in enumerate(ks)]
                nl = ('sum', terms) if len(terms) >= 3 else (('+', terms[0], terms[1]) if len(terms) == 2 else terms[0])
            feat['x_' + t] = feat.get('x_' + t, 0) + 1
            if rng.chance(1, 2):
                m.con(None, a + 40, lin, nl=nl)
            else:
                m.con(a - 40, None, lin, nl=nl)
    # functional subexpressions shared by several constraints (each later use is a map hit in the converter)
    m.atoms = {}
    m.atom_dv = set()
    if rng.chance(1, 2):
        for _ in range(rng.rint(1, 2)):
            fn = rng.choice(['sin', 'cos', 'exp', 'abs', 'max', 'sin', 'abs', 'max'] + list(FUNC_DOMAIN))
            i = rng.below(n)
            if fn in FUNC_DOMAIN:          # a variable of its own with bounds inside the function's domain
                lo, hi = FUNC_DOMAIN[fn]
                i = m.var(lo, hi, False)
                n = len(m.vars)
            if fn == 'max':
                j = (i + 1 + rng.below(n - 1)) % n
                key, expr = ('max', (i, j)), ('max', [('v', i), ('v', j)])
            else:
                key, expr = (fn, (i,)), (fn, ('v', i))
            if key in m.atoms:
                continue
            users = m.atoms.setdefault(key, [])
            if rng.chance(1, 3):           # through an AMPL defined variable (NL common expression)
                m.defvars.append({'lin': {}, 'nl': expr})
                expr = ('dv', len(m.defvars) - 1)
                m.atom_dv.add(key)
                feat['shared_via_defvar'] = feat.get('shared_via_defvar', 0) + 1
            for _ in range(rng.rint(2, 3)):
                lin = gen_lin(rng, n, used, 1, 3)
                if lin is None:
                    continue
                a = F(rng.rint(-12, 12), rng.choice([1, 2]))
                nl = expr if rng.chance(2, 3) else ('neg', expr)
                users.append(len(m.cons))
                if rng.chance(1, 2):
                    m.con(None, a + 30, lin, nl=nl)
                else:
                    m.con(a - 30, None, lin, nl=nl)
                feat['shared_' + fn] = feat.get('shared_' + fn, 0) + 1
    # logical constraints through the other logical visitors
    if bounded and rng.chance(1, 4):
        for _ in range(rng.rint(1, 2)):
            i, j = rng.choice(bounded), rng.choice(bounded)
            k1, k2 = rng.rint(0, 3), rng.rint(0, 3)
            t = rng.choice(['not', 'iff', 'exists', 'forall', 'ne', 'ltgt', 'alldiff'])
            a_, b_ = ('le', ('v', i), ('n', k1)), ('ge', ('v', j), ('n', k2))
            if t == 'not':
                m.lcon(('not', ('and', a_, b_)))
            elif t == 'iff':
                m.lcon(('iff', a_, b_))
            elif t == 'exists':
                m.lcon(('exists', [a_, b_, ('eq', ('v', i), ('n', k2))]))
            elif t == 'forall':
                m.lcon(('forall', [('or', a_, b_), ('or', b_, ('le', ('v', j), ('n', 9))), ('or', a_, ('ge', ('v', i), ('n', -9)))]))
            elif t == 'ne':
                if not ints:
                    continue
                m.lcon(('or', ('ne', ('v', rng.choice(ints)), ('n', k1)), a_))
            elif t == 'ltgt':
                if not ints:
                    continue
                v_ = rng.choice(ints)
                m.lcon(('or', ('lt', ('v', v_), ('n', k1)), ('gt', ('v', v_), ('n', k1 + 1))))
            elif t == 'alldiff':
                if len(ints) < 2:
                    continue
                m.lcon(('alldiff', [('v', t_) for t_ in (ints + ints)[:3]] if len(set(ints)) >= 3 else [('v', ints[0]), ('v', ints[1])]))
            feat['x_logical_' + t] = feat.get('x_logical_' + t, 0) + 1
    nl_ = rng.rint(0, 2) if rng.chance(1, 3) else 0
    for _ in range(nl_):
        i, j = rng.below(n), rng.below(n)
        t = rng.choice(['or', 'impl', 'and'])
        feat['logical_' + t] = feat.get('logical_' + t, 0) + 1
        a = ('le', ('v', i), ('n', rng.rint(0, 3)))
        b = ('ge', ('v', j), ('n', rng.rint(0, 3)))
        if t == 'or':
            m.lcon(('or', a, b))
        elif t == 'and':
            m.lcon(('and', a, b))
        else:
            m.lcon(('implies', a, b, ('T',)))
    nobj = rng.choice([1, 1, 1, 1, 0, 2])
    for _ in range(nobj):
        lin = gen_lin(rng, n, used, 1, 3) or {0: 1}
        nl = None
        if rng.chance(1, 5):
            i = rng.below(n)
            nl = ('abs', ('v', i)) if rng.chance(1, 2) else ('*', ('v', i), ('v', rng.below(n)))
            feat['nl_obj'] = feat.get('nl_obj', 0) + 1
        m.obj(rng.choice(['min', 'max']), lin, nl=nl)
    return m


FUNC_TYPE = {'sin': 'SinConstraint', 'cos': 'CosConstraint', 'exp': 'ExpConstraint', 'abs': 'AbsConstraint', 'max': 'MaxConstraint',
             'tan': 'TanConstraint', 'sinh': 'SinhConstraint', 'cosh': 'CoshConstraint', 'tanh': 'TanhConstraint', 'asin': 'AsinConstraint',
             'acos': 'AcosConstraint', 'atan': 'AtanConstraint', 'asinh': 'AsinhConstraint', 'acosh': 'AcoshConstraint', 'atanh': 'AtanhConstraint',
             'log': 'LogConstraint'}
# functions used on a variable of their own whose bounds lie inside the domain
FUNC_DOMAIN = {'tan': (-1, 1), 'sinh': (-2, 2), 'cosh': (-2, 2), 'tanh': (-2, 2), 'asin': (F(-1, 2), F(1, 2)), 'acos': (F(-1, 2), F(1, 2)),
               'atan': (-2, 2), 'asinh': (-2, 2), 'acosh': (1, 3), 'atanh': (F(-1, 2), F(1, 2)), 'log': (1, 4)}


def gen_accept(rng, feat, m=None):
    acc = ['LinConLE', 'LinConEQ', 'LinConGE']
    for (fn, _a) in (getattr(m, 'atoms', None) or {}):
        if rng.chance(3, 4) and FUNC_TYPE[fn] not in acc:
            acc.append(FUNC_TYPE[fn])
            feat['acc_native_' + fn] = feat.get('acc_native_' + fn, 0) + 1
    if rng.chance(1, 2):
        acc.append('LinConRange')
        feat['acc_linrange'] = feat.get('acc_linrange', 0) + 1
    q = rng.below(4)
    if q == 0:
        acc += QUADS
    elif q == 1:
        acc += QUADS[1:]
    elif q == 2:
        acc += [QUADS[0]]           # only ranges: LE/GE/EQ are converted to ranges
    feat['acc_quad_%d' % q] = feat.get('acc_quad_%d' % q, 0) + 1
    for e in EXTRA_ACCEPT:
        if rng.chance(1, 3) and e not in acc:
            acc.append(e)
    return acc


def rvec_int(rng, n, vals):
    return [rng.choice(vals) for _ in range(n)]


def rvec_dbl(rng, n):
    return [F(rng.rint(-40, 40), rng.choice([1, 1, 2, 4])) if not rng.chance(1, 5) else F(0) for _ in range(n)]


def rlen(rng, n, feat, what):
    """length of an injected vector: exact / shorter / longer / empty"""
    c = rng.below(10)
    if c < 5:
        k, tag = n, 'exact'
    elif c < 7:
        k, tag = rng.below(n + 1), 'shorter'
    elif c < 9:
        k, tag = n + rng.rint(1, 4), 'longer'
    else:
        k, tag = 0, 'empty'
    feat['len_%s_%s' % (what, tag)] = feat.get('len_%s_%s' % (what, tag), 0) + 1
    return k


# --------------------------------------------------------------------------- real run -> structured observations
class Case:
    pass


def node_ids(lg):
    names = [n for n, _ in lg['nodes']]
    ids = {}
    for i, n in enumerate(names):
        if n in ids:
            ids[n] = None      # not unique
        else:
            ids[n] = i
    return ids


def graph_ops(lg, ids, bounds):
    """driver lines describing the real graph; returns (lines, error or None)"""
    L = ['graph %d %s' % (len(lg['nodes']), ' '.join(str(s) for _, s in lg['nodes']))]
    kindmap = {'CopyLink': 'copy', 'One2ManyLink': 'm2m', 'Many2OneLink': 'm2m', 'Many2ManyLink': 'm2m'}

    def nid(name):
        i = ids.get(name)
        if i is None:
            raise KeyError(name)
        return i
    # hypothesis `LRange.wf` of C04_gen_run_is_runFromReg: a link range holds entries of ONE link (so of one class), ranges are contiguous
    seen = {}
    last = None
    for e in lg['entries']:
        if 'lr' in e:
            if seen.setdefault(e['lr'], e['t']) != e['t']:
                return L, 'link range %s holds entries of different link types' % e['lr']
            if last is not None and e['lr'] < last:
                return L, 'link ranges are not dumped in order'
            last = e['lr']
    try:
        for e in lg['entries']:
            t = e['t']
            if t in kindmap:
                if len(e['s']) != 1 or len(e['d']) != 1:
                    return L, 'entry with %d sources / %d targets' % (len(e['s']), len(e['d']))
                (sn, sb, se), (dn, db, de) = e['s'][0], e['d'][0]
                L.append('entry %s %d %d %d %d %d %d' % (kindmap[t], nid(sn), sb, se - sb, nid(dn), db, de - db))
            elif t.startswith('Range2Slk'):
                if len(e['s']) != 1 or len(e['d']) != 2 or 'rangecon' not in e:
                    return L, 'malformed Range2Slk entry'
                (sn, sb, se), (tn, tb, te), (vn, vb, ve) = e['s'][0], e['d'][0], e['d'][1]
                rc = e['rangecon']['used']
                if rc is None or not isinstance(recsolver.num(rc['lb']), F):
                    # the real code reads LinConRange[i] out of bounds here / reads an unrelated one-sided constraint
                    # (see design notes); presolve-sol flows are not run for such a graph
                    rc = {'body': {'c': [], 'v': []}, 'lb': '0', 'ub': '0'}
                body = rc['body']
                if 'lin' in body:
                    lin, quad = body['lin'], body['quad']
                else:
                    lin, quad = body, {'c': [], 'v1': [], 'v2': []}
                lb = recsolver.num(rc['lb'])
                if not isinstance(lb, F):
                    return L, 'range constraint with infinite lb'
                toks = ['entry r2s', nid(sn), sb, nid(tn), tb, nid(vn), vb, fr(lb), len(lin['c'])]
                for c, v in zip(lin['c'], lin['v']):
                    toks += [fr(recsolver.num(c)), v]
                toks.append(len(quad['c']))
                for c, v1, v2 in zip(quad['c'], quad['v1'], quad['v2']):
                    toks += [fr(recsolver.num(c)), v1, v2]
                L.append(' '.join(str(t) for t in toks))
            else:
                return L, 'unknown link type ' + t
    except KeyError as k:
        return L, 'node name not unique or unknown: %s' % k
    lbs, ubs = bounds
    toks = ['bounds', len(lbs)]
    for l, u in zip(lbs, ubs):
        toks += ['-' if not isinstance(l, F) else fr(l), '-' if not isinstance(u, F) else fr(u)]
    L.append(' '.join(str(t) for t in toks))
    return L, None


def call_line(direction, kind, inputs, outs, clamp=None):
    """inputs: list of (node id, [Fraction]); outs: node ids"""
    toks = ['call', direction, LEANKIND.get(kind, kind), '-' if clamp is None else clamp, len(inputs)]
    for n, v in inputs:
        toks += [n, len(v)] + [fr(x) for x in v]
    toks.append(len(outs))
    toks += outs
    return ' '.join(str(t) for t in toks)


def parse_call_out(line):
    """'ok 3: 1 2 | 5: ' -> {3:[..],5:[]} ; 'raise' -> None"""
    if line == 'raise':
        return None
    if not line.startswith('ok'):
        return 'bad:' + line
    res = {}
    body = line[2:].strip()
    if not body:
        return res
    for part in body.split('|'):
        k, _, v = part.strip().partition(':')
        res[int(k)] = [F(t) for t in v.split()]
    return res


def vec_dbl(v):
    return [recsolver.num(t) for t in v]


def vec_int(v):
    return [F(int(t)) for t in v]


class Flow:
    """one real transfer: what the real presolver was given and what it returned"""
    def __init__(self, name, direction, kind, inputs, results, clamp=False, raised=False):
        self.name, self.dir, self.kind, self.inputs, self.results, self.clamp, self.raised = name, direction, kind, inputs, results, clamp, raised


def term_node(direction_side, which, key=0):
    if which == 'cons' and direction_side == 'dest':
        return 'dest_cons(%d)' % key
    if which == 'cons' and direction_side == 'src' and key != 0:
        return 'src_cons(%d)' % key
    return '%s_%s()' % (direction_side, which)


def mv_from_log(mv, dbl, side):
    """{"vars":{"0":[..]},"cons":{..},"objs":{..}} -> {node name: [Fraction]}"""
    out = {}
    for which in ('vars', 'cons', 'objs'):
        for k, v in (mv.get(which) or {}).items():
            out[term_node(side, which, int(k))] = vec_dbl(v) if dbl else vec_int(v)
    return out


def flows_from_run(r, script, calls, sol):
    """ordered list of Flow objects of one real run"""
    fl = []
    ci = 0
    for e in r['log']:
        ev = e['ev']
        if ev == 'lazy':
            fl.append(Flow('lazy', 'pre', 'lazy', {'src_cons()': vec_int(e['lin'])}, mv_from_log(e['pre'], False, 'dest')))
        elif ev == 'basis_in':
            fl.append(Flow('basis_in', 'pre', 'basis', {'src_vars()': vec_int(e['src_var']), 'src_cons()': vec_int(e['src_con'])},
                           mv_from_log(e['pre'], False, 'dest')))
        elif ev == 'warmstart':
            fl.append(Flow('warmstart', 'pre', 'sol', {'src_vars()': vec_dbl(e['src_x']), 'src_cons()': vec_dbl(e['src_pi'])},
                           mv_from_log(e['pre'], True, 'dest'), clamp=True))
        elif ev == 'mipstart':
            fl.append(Flow('mipstart_x', 'pre', 'sol', {'src_vars()': vec_dbl(e['x'])}, mv_from_log(e['pre_x'], True, 'dest'), clamp=True))
            fl.append(Flow('mipstart_sparsity', 'pre', 'gint', {'src_vars()': vec_int(e['sparsity'])}, mv_from_log(e['pre_sparsity'], False, 'dest')))
        elif ev == 'priorities':
            fl.append(Flow('priorities', 'pre', 'gint', {'src_vars()': vec_int(e['p'])}, mv_from_log(e['pre'], False, 'dest')))
        elif ev == 'c04call':
            c = calls[e['i']]
            side_in, side_out = ('src', 'dest') if c['dir'] == 'pre' else ('dest', 'src')
            dbl = c['kind'] in ('gdbl', 'sol')
            inputs = {}
            if c.get('V') is not None:
                inputs[term_node(side_in, 'vars')] = [F(x) for x in c['V']]
            for g, v in (c.get('C') or {}).items():
                inputs[term_node(side_in, 'cons', g)] = [F(x) for x in v]
            if c.get('O') is not None:
                inputs[term_node(side_in, 'objs')] = [F(x) for x in c['O']]
            if e['ok']:
                fl.append(Flow('call%d' % e['i'], c['dir'], c['kind'], inputs, mv_from_log(e, dbl, side_out),
                               clamp=(c['dir'] == 'pre' and c['kind'] == 'sol')))
            else:
                fl.append(Flow('call%d' % e['i'], c['dir'], c['kind'], inputs, {'err': e.get('err', '')}, raised=True))
        elif ev == 'basis_out':
            fl.append(Flow('basis_out', 'post', 'basis', {'dest_vars()': vec_int(e['solver_var']), 'dest_cons(3)': vec_int(e['solver_con'])},
                           {'src_vars()': vec_int(e['var']), 'src_cons()': vec_int(e['con'])}))
        elif ev == 'iis_out':
            inp = {'dest_vars()': vec_int(e['solver_var']), 'dest_cons(3)': vec_int(e['solver_con'])}
            for g, v in (e.get('solver_con_g') or {}).items():
                inp['dest_cons(%d)' % int(g)] = vec_int(v)
            fl.append(Flow('iis_out', 'post', 'iis', inp, {'src_vars()': vec_int(e['var']), 'src_cons()': vec_int(e['con'])}))
        elif ev in ('ray_out', 'dray_out'):
            inp = {'dest_vars()': vec_dbl(e['solver'])} if ev == 'ray_out' else {'dest_cons(3)': vec_dbl(e['solver'])}
            fl.append(Flow(ev, 'post', 'sol', inp, mv_from_log(e['post'], True, 'src')))
        elif ev == 'sens_query':
            # twelve generic postsolves in a row; each result is observed through its .sol suffix (non-zero entries only)
            sufs = {(sf['name'], sf['kind'] & 3): sf['vals'] for sf in (sol or {}).get('suffixes', [])}
            ex = script.get('extra') or {}
            for fld in SENS_FIELDS:
                isvar = fld.startswith('var')
                v = ex.get('sens_' + fld)
                inp = {} if v is None else ({'dest_vars()': [F(t) for t in v]} if isvar else {'dest_cons(3)': [F(t) for t in v]})
                nm, kd = SENS_SUFFIX[fld]
                got = sufs.get((nm, kd), {})
                f_ = Flow('sens_' + fld, 'post', 'gdbl', inp, None)
                f_.suffix_vals = {int(i): F(t) for i, t in got.items()}
                f_.suffix_node = 'src_vars()' if isvar else 'src_cons()'
                fl.append(f_)
        elif ev == 'modelsuffix':
            src = mv_from_log(e['src'], False, 'src')
            fl.append(Flow('modelsuffix_' + e['name'], 'pre', 'gint', {k_: v for k_, v in src.items()}, mv_from_log(e['pre'], False, 'dest')))
    return fl


# --------------------------------------------------------------------------- the check
def run(ck):
    # 1. regenerate the source-tied Lean definitions from the CURRENT tree (written only if changed)
    gen = os.path.join(LEAN, 'MpVerif', 'Gen', 'ValCvt.lean')
    rc, out, err = sh([sys.executable, os.path.join(VERIF, 'translators', 'gen_valcvt.py'), REPO, gen, os.path.join(BUILD, 'tr_c04')], timeout=600)
    ck.log((out.strip() or err.strip())[-300:])
    translator_ok = rc == 0
    if translator_ok:
        proof_ok, failing = ck.proof_stage('MpVerif.C04.Props', 'MpVerif/C04/Props.lean', 'C04_', ['MpVerif/C04/*.lean', 'MpVerif/Gen/ValCvt.lean'], expect_min=68)
    else:
        proof_ok, failing = False, ['translator: ' + (out + err).strip()[-400:]]
        ck.cov.update({'obligations': 68, 'discharged': 0, 'checker_cmd': 'translators/gen_valcvt.py failed: a construct of the anchored code is no longer understood'})
    ck.log('proof stage: ok=%s failing=%s' % (proof_ok, failing[:8]))
    if ck.tier == 'thorough' and proof_ok:
        bad = ck.leanchecker(['MpVerif.C04.Props'])
        if bad:
            failing += ['leanchecker rejected %s' % m for m in bad]
            proof_ok = False
    if os.environ.get('C04_PROOF_ONLY'):       # (for trying source mutants against the proof stage only)
        for fdecl in failing:
            ck.add_violation('obligation:%s' % fdecl[:80], 'proof obligation no longer checks: %s' % fdecl, {'theorem': fdecl, 'module': 'MpVerif.C04.Props'}, found_input=False)
        return
    cov = os.environ.get('VERIF_COVERAGE')
    if cov:
        exe, covdir = coverage_build(ck)
    else:
        exe = recsolver.build(ck)
    drv = ck.driver('drv_c04')
    ncases = 120 if ck.tier == 'quick' else 1800
    st = Stats()
    work = os.path.join(BUILD, 'c04')
    shutil.rmtree(work, ignore_errors=True)
    os.makedirs(work, exist_ok=True)
    cases = []
    # corpus first
    cdir = os.path.join(VERIF, 'corpus', 'C04')
    for f in sorted(os.listdir(cdir)) if os.path.isdir(cdir) else []:
        if f.endswith('.json'):
            c = case_from_replay(json.load(open(os.path.join(cdir, f))), os.path.join(work, 'corpus_' + f[:-5]))
            c.origin = 'corpus/' + f
            cases.append(c)
    for i in range(ncases):
        rng = nlgen.Rng(ck.seed * 1000003 + i)
        cases.append(gen_case(rng, os.path.join(work, 'g%04d' % i), st.feat, exe))
    for c in cases:
        execute_case(ck, exe, c, st)
    model_replay(ck, drv, cases, st)
    for c in cases:
        oracle(ck, c, st)
        oracle_shared(ck, c, st)
    model_replay_shared(ck, drv, cases, st)
    for c in cases:
        certificates(ck, c, st)
        certificates_shared(ck, c, st)
    if cov:
        coverage_report(ck, covdir, os.environ.get('VERIF_COVERAGE_LABEL', 'last'))
    elif (ck.tier == 'thorough' or os.environ.get('C04_SANITIZER')) and not os.environ.get('C04_NO_SANITIZER'):
        # ASan+UBSan build of the recording driver: thorough tier (or C04_SANITIZER=1); building it takes minutes whenever a recsolver
        # source changes, and no seeded change needs it.  The open finding C04-short-primal-solchecker-oob is reproduced mostly by this stage (in quick only when the plain driver happens to die).
        sanitizer_stream(ck, cases, st)
    verdicts(ck, cases, st, proof_ok, failing)


class Stats:
    def __init__(self):
        self.feat = {}
        self.n_runs = 0
        self.n_flows = 0
        self.n_values = 0
        self.link_types = {}
        self.oracle = {}
        self.flowfam = {}
        self.arms = {}


def gen_case(rng, d, feat, exe):
    c = Case()
    c.dir = d
    c.origin = 'generated'
    os.makedirs(d, exist_ok=True)
    c.stub = os.path.join(d, 'm')
    m = gen_model(rng, feat)
    c.accept = gen_accept(rng, feat, m)
    c.options = []
    if rng.chance(2, 3):
        c.options.append('acc:linrange=0')
        feat['opt_linrange0'] = feat.get('opt_linrange0', 0) + 1
    c.ismip = 0 if rng.chance(3, 4) else 1
    c.code = rng.choice([0, 0, 0, 200, 200, 300])     # 200: infeasible (IIS reported), 300: unbounded
    c.options.append('alg:iisfind=1')
    ws = rng.choice([0, 1, 1, 2])
    c.options.append('alg:start=%d' % ws)
    c.round = None
    if rng.chance(1, 3):          # mip:round: the documented post-processing of the returned primal values
        c.round = rng.rint(0, 7)
        c.options.append('mip:round=%d' % c.round)
        if rng.chance(5, 6):
            c.ismip = 1
        if rng.chance(5, 6):
            c.code = 0
        feat['opt_round_%d' % c.round] = feat.get('opt_round_%d' % c.round, 0) + 1
    c.sens = rng.chance(1, 3)
    if c.sens:
        c.options.append('alg:sens=1')
        feat['opt_sens'] = feat.get('opt_sens', 0) + 1
    c.writegraph = rng.chance(1, 4)
    if len(m.objs) >= 1 and rng.chance(1, 4):
        k = rng.rint(0, len(m.objs))
        c.options.append('obj:no=%d' % k)
        feat['opt_objno_%d' % k] = feat.get('opt_objno_%d' % k, 0) + 1
    elif len(m.objs) == 2 and rng.chance(1, 2):
        c.options.append('obj:multi=1')
        feat['opt_multiobj'] = feat.get('opt_multiobj', 0) + 1
    n = len(m.vars)
    # NL-side inputs for the presolve direction
    if rng.chance(1, 2):
        for j in range(n):
            if rng.chance(3, 4):
                m.x0[j] = F(rng.rint(-30, 30), rng.choice([1, 2]))
        feat['nl_x0'] = feat.get('nl_x0', 0) + 1
        if rng.chance(2, 3):
            for i in range(len(m.cons)):
                if rng.chance(3, 4):
                    m.pi0[i] = F(rng.rint(-30, 30), rng.choice([1, 2]))
            feat['nl_pi0'] = feat.get('nl_pi0', 0) + 1
    if rng.chance(1, 2):
        m.suffixes.append({'name': 'sstatus', 'kind': 0, 'float': False, 'vals': {j: rng.rint(1, 6) for j in range(n) if rng.chance(4, 5)}})
        if m.cons:
            m.suffixes.append({'name': 'sstatus', 'kind': 1, 'float': False, 'vals': {i: rng.rint(1, 6) for i in range(len(m.cons)) if rng.chance(4, 5)}})
        feat['nl_sstatus'] = feat.get('nl_sstatus', 0) + 1
    if rng.chance(1, 2):
        m.suffixes.append({'name': 'priority', 'kind': 0, 'float': False, 'vals': {j: rng.rint(1, 9) for j in range(n) if rng.chance(1, 2)}})
        feat['nl_priority'] = feat.get('nl_priority', 0) + 1
    if rng.chance(1, 2) and m.cons:
        m.suffixes.append({'name': 'lazy', 'kind': 1, 'float': False, 'vals': {i: rng.choice([1, 2, 3, -1]) for i in range(len(m.cons)) if rng.chance(1, 2)}})
        feat['nl_lazy'] = feat.get('nl_lazy', 0) + 1
    if n >= 3 and rng.chance(1, 6):
        grp = [j for j in range(n)][:rng.rint(2, 3)]
        sn = rng.choice([1, -1])
        m.suffixes.append({'name': 'sosno', 'kind': 0, 'float': False, 'vals': {j: sn for j in grp}})
        m.suffixes.append({'name': 'ref', 'kind': 0, 'float': True, 'vals': {j: F(1 + k_) for k_, j in enumerate(grp)}})
        if rng.chance(1, 2):
            c.accept += ['SOS1Constraint', 'SOS2Constraint']
        feat['nl_sos'] = feat.get('nl_sos', 0) + 1
    if rng.chance(1, 3):
        m.suffixes.append({'name': 'c04int', 'kind': 0, 'float': False, 'vals': {j: rng.rint(-3, 9) for j in range(n) if rng.chance(2, 3)}})
        if m.cons:
            m.suffixes.append({'name': 'c04int', 'kind': 1, 'float': False, 'vals': {i: rng.rint(-3, 9) for i in range(len(m.cons)) if rng.chance(2, 3)}})
        feat['nl_c04int'] = feat.get('nl_c04int', 0) + 1
    if m.atoms and m.cons and rng.chance(2, 3):
        m.suffixes.append({'name': 'funcpieces', 'kind': 1, 'float': False, 'vals': {i: rng.rint(1, 9) for i in range(len(m.cons)) if rng.chance(2, 3)}})
        feat['nl_funcpieces'] = feat.get('nl_funcpieces', 0) + 1
    m.suffixes = [s for s in m.suffixes if s['vals']]
    m.write(c.stub)
    c.model = m
    c.rng = rng
    c.isint = [1 if m.vars[j]['int'] else 0 for j in m.perm]      # integrality of the original variables in NL order
    return c


def env_of(c, calls_file=None):
    e = {'RECSOLVER_C04': '1', 'RECSOLVER_ISMIP': str(c.ismip)}
    if calls_file:
        e['RECSOLVER_C04_CALLS'] = calls_file
    return e


def sizes_from_log(log):
    nv = sum(e['n'] for e in log if e['ev'] == 'vars')
    groups = {}
    for e in log:
        if e['ev'] == 'con':
            groups[e['group']] = groups.get(e['group'], 0) + 1
    nobj = len([e for e in log if e['ev'] == 'obj'])
    return nv, groups, nobj


def gen_answer(c, st):
    """second pass: now that the solver-side sizes are known, make the scripted answer and the call sequence"""
    rng, feat = c.rng, st.feat
    nv, groups, nobj = c.sizes
    nlin = groups.get(CG_LIN, 0)
    nquad = groups.get(CG_QUAD, 0)
    s = {'code': c.code}
    if not rng.chance(1, 12):
        s['x'] = rvec_dbl(rng, rlen(rng, nv, feat, 'x'))
    if not rng.chance(1, 8):
        s['pi'] = rvec_dbl(rng, rlen(rng, nlin, feat, 'pi'))
        if nquad and rng.chance(1, 2):
            s['piq'] = rvec_dbl(rng, rlen(rng, nquad, feat, 'piq'))
    if nquad and rng.chance(1, 3):
        # directed: the FIRST constraint group of the dual map is empty, a later one has values (ValueMap::Empty must look at all groups)
        s['pi'] = []
        s['piq'] = [v if v != 0 else F(1) for v in rvec_dbl(rng, nquad)]
        feat['dual_first_group_empty'] = feat.get('dual_first_group_empty', 0) + 1
    if rng.chance(1, 2):
        s['obj'] = rvec_dbl(rng, nobj)
    if getattr(c, 'round', None) is not None and s.get('x'):
        # integer variables slightly off integrality (dyadic offsets, halfway cases included)
        for j in range(min(len(c.isint), len(s['x']))):
            if c.isint[j] and rng.chance(3, 4):
                s['x'][j] = F(rng.rint(-6, 9)) + rng.choice([F(1, 8), F(-1, 8), F(1, 4), F(-1, 4), F(1, 2), F(-1, 2), F(1, 1024), F(-1, 1024), F(3, 8), F(0)])
                feat['round_offintegral_values'] = feat.get('round_offintegral_values', 0) + 1
    if rng.chance(3, 4):
        s['varstt'] = rvec_int(rng, rlen(rng, nv, feat, 'varstt'), [0, 1, 2, 3, 3, 4, 4, 5, 6])
        s['constt'] = rvec_int(rng, rlen(rng, nlin, feat, 'constt'), [0, 1, 2, 3, 3, 4, 4, 5, 6])
    if rng.chance(3, 4):
        bad = rng.chance(1, 6)        # statuses outside {non, low, fix, upp} on variables
        s['iisvar'] = rvec_int(rng, rlen(rng, nv, feat, 'iisvar'), [0, 0, 1, 2, 3] + ([4, 5, 8] if bad else []))
        s['iiscon'] = rvec_int(rng, rlen(rng, nlin, feat, 'iiscon'), [0, 1, 2, 3, 4, 5])
        ngen = groups.get(CG_GEN, 0)
        if ngen and rng.chance(2, 3):      # IIS statuses of the general (functional) constraints, as e.g. Gurobi reports them
            s['iiscong'] = {CG_GEN: rvec_int(rng, rlen(rng, ngen, feat, 'iiscong'), [0, 0, 4, 4, 5])}
            if rng.chance(1, 2):           # only general constraints flagged: every original user must still be in the IIS
                s['iisvar'] = [0] * len(s['iisvar'])
                s['iiscon'] = [0] * len(s['iiscon'])
                feat['iis_only_general'] = feat.get('iis_only_general', 0) + 1
        if bad:
            feat['iis_bad_status_stream'] = feat.get('iis_bad_status_stream', 0) + 1
        if c.slack_vars and rng.chance(1, 5):      # directed: a range-slack variable reported with 'mem'/'pmem'/'bug'
            sl = rng.choice(c.slack_vars)
            while len(s['iisvar']) <= sl:
                s['iisvar'].append(0)
            s['iisvar'][sl] = rng.choice([4, 5, 8])
            feat['iis_bad_status_on_slack'] = feat.get('iis_bad_status_on_slack', 0) + 1
    extra = {}
    if getattr(c, 'sens', False):
        for fld in SENS_FIELDS:
            if rng.chance(2, 3):
                extra['sens_' + fld] = rvec_dbl(rng, rlen(rng, nv if fld.startswith('var') else nlin, feat, 'sens'))
    if c.code == 300 and rng.chance(2, 3):
        extra['ray'] = rvec_dbl(rng, rlen(rng, nv, feat, 'ray'))
    if c.code == 200 and rng.chance(1, 2):
        extra['dray'] = rvec_dbl(rng, rlen(rng, nlin, feat, 'dray'))
    if extra:
        s['extra'] = extra
    c.script = s
    # scripted sequence of presolver calls (all kinds, both directions)
    n_src_v = len(c.model.vars)
    n_src_c = len(c.model.cons) + len(c.model.lcons)
    n_src_o = len(c.model.objs)
    calls = []
    for _ in range(rng.rint(0, 6)):
        d = rng.choice(['pre', 'post'])
        k = rng.choice(KINDS)
        feat['call_%s_%s' % (d, k)] = feat.get('call_%s_%s' % (d, k), 0) + 1
        dbl = k in ('gdbl', 'sol')
        ivals = {'gint': list(range(-3, 8)), 'basis': [0, 1, 2, 3, 3, 4, 4, 5, 6], 'iis': [0, 0, 1, 2, 3], 'lazy': [0, 1, 2, 3, -1]}

        def vec(nn, what):
            ln = rlen(rng, nn, feat, 'call_' + what)
            return rvec_dbl(rng, ln) if dbl else rvec_int(rng, ln, ivals[k])
        call = {'dir': d, 'kind': k, 'V': None, 'C': None, 'O': None}
        if d == 'post':
            if rng.chance(4, 5):
                call['V'] = vec(nv, 'V')
                if k == 'iis' and c.slack_vars and rng.chance(1, 4):
                    sl = rng.choice(c.slack_vars)
                    while len(call['V']) <= sl:
                        call['V'].append(0)
                    call['V'][sl] = rng.choice([4, 5, 8])
                    feat['iis_bad_status_on_slack'] = feat.get('iis_bad_status_on_slack', 0) + 1
            if rng.chance(4, 5):
                call['C'] = {CG_LIN: vec(nlin, 'C')}
                if nquad and rng.chance(1, 2):
                    call['C'][CG_QUAD] = vec(nquad, 'C')
            if rng.chance(1, 3):
                call['O'] = vec(nobj, 'O')
        else:
            if rng.chance(4, 5):
                call['V'] = vec(n_src_v, 'V')
            if rng.chance(4, 5):
                call['C'] = {0: vec(n_src_c, 'C')}
            if rng.chance(1, 3):
                call['O'] = vec(n_src_o, 'O')
        calls.append(call)
    # directed probes of shared items: one non-zero value on ONE general constraint (postsolve), nothing else loaded
    ngen = groups.get(CG_GEN, 0)
    if ngen and getattr(c.model, 'atoms', None):
        for _ in range(rng.rint(1, 2)):
            k = rng.choice(['iis', 'gint', 'gdbl', 'basis', 'lazy', 'sol'])
            r_ = rng.below(ngen)
            v = [0] * ngen
            v[r_] = {'iis': 4, 'basis': rng.rint(1, 6), 'lazy': rng.choice([1, 2, -1])}.get(k, rng.rint(1, 9))
            calls.insert(rng.below(len(calls) + 1), {'dir': 'post', 'kind': k, 'V': None, 'C': {CG_GEN: v}, 'O': None})
            feat['probe_post_' + k] = feat.get('probe_post_' + k, 0) + 1
    c.calls = calls


def write_calls(path, calls):
    L = []
    for c in calls:
        dbl = c['kind'] in ('gdbl', 'sol')

        def fm(v):
            return ' '.join((repr(float(x)) if dbl else str(int(x))) for x in v)
        t = [c['dir'], c['kind']]
        if c.get('V') is not None:
            t += ['V', str(len(c['V'])), fm(c['V'])]
        if c.get('C'):
            t += ['C', str(len(c['C']))]
            for g, v in c['C'].items():
                t += [str(g), str(len(v)), fm(v)]
        if c.get('O') is not None:
            t += ['O', str(len(c['O'])), fm(c['O'])]
        L.append(' '.join(x for x in t if x != ''))
    open(path, 'w').write('\n'.join(L) + ('\n' if L else ''))


def run_retry(*a, **kw):
    """recsolver.run; a run over the time limit (machine load) is retried once with twice the limit before it is reported"""
    r = recsolver.run(*a, **kw)
    if r['rc'] == 'timeout':
        kw['timeout'] = 2 * kw.get('timeout', 60)
        r = recsolver.run(*a, **kw)
    return r


def execute_case(ck, exe, c, st):
    """run the real driver (twice: sizes, then the scripted answer)"""
    c.problem = None
    c.flows = []
    if not hasattr(c, 'script'):
        r0 = run_retry(exe, c.stub, options=[o for o in c.options if not o.startswith('alg:start')] + ['alg:start=0'],
                           accept=c.accept, env=env_of(c), timeout=120)
        st.n_runs += 1
        if r0['rc'] != 0 or not any(e['ev'] == 'linkgraph' for e in r0['log']):
            c.problem = 'sizing run: rc=%s %s' % (r0['rc'], (r0['err'] or r0['out'])[-300:])
            c.r = r0
            return
        c.sizes = sizes_from_log(r0['log'])
        lg0 = [e for e in r0['log'] if e['ev'] == 'linkgraph'][0]
        c.slack_oob = any(e['t'].startswith('Range2Slk') and (e.get('rangecon', {}).get('used') is None or
                                                               not isinstance(recsolver.num(e['rangecon']['used']['lb']), F)) for e in lg0['entries'])
        if c.slack_oob:
            st.feat['quadrange_slack_reads_out_of_bounds'] = st.feat.get('quadrange_slack_reads_out_of_bounds', 0) + 1
            c.options = [o for o in c.options if not o.startswith('alg:start')] + ['alg:start=0']
        c.slack_vars = [e['d'][1][1] for e in lg0['entries'] if e['t'].startswith('Range2Slk')]
        gen_answer(c, st)
        if c.slack_oob:
            c.calls = [cl for cl in c.calls if not (cl['dir'] == 'pre' and cl['kind'] == 'sol')]
    sfile = c.stub + '.script'
    s = c.script
    recsolver.write_script(sfile, code=s.get('code', 0), x=s.get('x'), pi=s.get('pi'), piq=s.get('piq'), obj=s.get('obj'),
                           varstt=s.get('varstt'), constt=s.get('constt'), iisvar=s.get('iisvar'), iiscon=s.get('iiscon'),
                           iiscong=s.get('iiscong'), extra=s.get('extra'))
    cfile = c.stub + '.calls'
    write_calls(cfile, c.calls)
    r = run_retry(exe, c.stub, options=c.options, accept=c.accept, script=sfile, env=env_of(c, cfile), timeout=120, graph=getattr(c, 'writegraph', False))
    st.n_runs += 1
    c.r = r
    lg = [e for e in r['log'] if e['ev'] == 'linkgraph']
    if r['rc'] != 0 or not lg or r['sol'] is None:
        c.problem = 'scripted run: rc=%s sol=%s %s' % (r['rc'], r['sol'] is not None, (r['err'] or r['out'])[-400:])
        return
    c.lg = lg[0]
    for e in c.lg['entries']:
        st.link_types[e['t']] = st.link_types.get(e['t'], 0) + 1
    c.sizes = sizes_from_log(r['log'])
    lbs, ubs = [], []
    for e in r['log']:
        if e['ev'] == 'vars':
            lbs += [recsolver.num(t) for t in e['lb']]
            ubs += [recsolver.num(t) for t in e['ub']]
    c.bounds = (lbs, ubs)
    c.sol = recsolver.parse_sol(r['sol'])
    c.flows = flows_from_run(r, c.script, c.calls, c.sol)
    for f in c.flows:
        if getattr(f, 'suffix_vals', None) is not None:
            ln = len(c.model.vars) if f.suffix_node == 'src_vars()' else len(c.model.cons) + len(c.model.lcons)
            f.results = {f.suffix_node: [f.suffix_vals.get(i, F(0)) for i in range(ln)]}
    # exported link entries (cvt:writegraph) vs the final link-range list
    if r.get('graph'):
        exp = []
        for l in r['graph']:
            if '"link_index"' in l:
                try:
                    o = json.loads(l)
                except Exception:
                    continue

                def rng_(d):
                    (nm, v), = d.items()
                    return [nm, v, v + 1] if isinstance(v, int) else [nm, v[0], v[1] + 1]
                exp.append((o['link_type'], [rng_(d) for d in o['src_nodes']], [rng_(d) for d in o['dest_nodes']]))
        fin = [(e['t'], e['s'], e['d']) for e in c.lg['entries']]
        key = 'export_equals_final' if exp == fin else 'export_differs_from_final'
        st.feat[key] = st.feat.get(key, 0) + 1
    # the final solution transfer (not logged; observed through the .sol file)
    x, pi, piq = s.get('x'), s.get('pi'), s.get('piq')
    inputs = {'dest_vars()': [F(t) for t in (x or [])]}
    have_dual = pi is not None or piq is not None
    if have_dual:
        nlin = c.sizes[1].get(CG_LIN, 0)
        inputs['dest_cons(3)'] = [F(t) for t in pi] if pi is not None else [F(0)] * nlin
        if piq is not None:
            inputs['dest_cons(4)'] = [F(t) for t in piq]
    if s.get('obj') is not None:
        inputs['dest_objs()'] = [F(t) for t in s['obj']]
    c.final_inputs = inputs
    c.final_flow = Flow('solution', 'post', 'sol', inputs, None)


def sol_numbers(lines):
    out = []
    for t in lines:
        out.append(F(t.strip()) if 'e' not in t.lower() and 'n' not in t.lower() else F(float(t)))
    return out


def model_replay(ck, drv, cases, st):
    """feed every real graph and every real transfer to the Lean driver; attach model results to the cases"""
    ops = ['arms on']
    plan = [(None, 'setup', None)]      # (case, what, payload)
    for c in cases:
        if c.problem:
            continue
        ids = node_ids(c.lg)
        c.ids = ids
        glines, err = graph_ops(c.lg, ids, c.bounds)
        if err:
            c.graph_error = err
            continue
        c.graph_error = None
        for l in glines:
            ops.append(l)
            plan.append((c, 'setup', l))
        n = len(c.model.vars)
        sv, dv = ids.get('src_vars()'), ids.get('dest_vars()')
        ops.append('wf %d %d %d' % (sv, dv, n))
        plan.append((c, 'wf', None))
        nid = make_nid(ids, len(c.lg['nodes']))
        c.nid = nid
        loaded_post = [nid('dest_vars()'), nid('dest_objs()')] + [i for nm, i in ids.items() if nm.startswith('dest_cons(') and i is not None]
        loaded_pre = [nid('src_vars()'), nid('src_objs()'), nid('src_cons()')]
        # symbolic origins (all kinds) of every original variable and constraint, both directions
        ops.append('wf2 %d %s' % (len(loaded_post), ' '.join(map(str, loaded_post))))
        plan.append((c, 'wf2', None))
        c.trace_plan = []
        ncon_src = dict((nm, s) for nm, s in c.lg['nodes']).get('src_cons()', 0)
        for k in ('sol', 'basis', 'iis', 'generic', 'lazy'):
            for j in range(n):
                ops.append('trace post %s %d %d %d %s' % (k, sv, j, len(loaded_post), ' '.join(map(str, loaded_post))))
                plan.append((c, 'trace', ('post', k, 'var', j)))
            for i in range(ncon_src):
                ops.append('trace post %s %d %d %d %s' % (k, ids['src_cons()'], i, len(loaded_post), ' '.join(map(str, loaded_post))))
                plan.append((c, 'trace', ('post', k, 'con', i)))
        nv_dest = c.sizes[0]
        for k in ('sol', 'basis', 'generic', 'lazy'):
            for j in range(nv_dest):
                ops.append('trace pre %s %d %d %d %s' % (k, dv, j, len(loaded_pre), ' '.join(map(str, loaded_pre))))
                plan.append((c, 'trace', ('pre', k, 'dvar', j)))
            if ids.get('dest_cons(3)') is not None:
                for r_ in range(c.sizes[1].get(CG_LIN, 0)):
                    ops.append('trace pre %s %d %d %d %s' % (k, ids['dest_cons(3)'], r_, len(loaded_pre), ' '.join(map(str, loaded_pre))))
                    plan.append((c, 'trace', ('pre', k, 'drow', r_)))
        for f in c.flows + [c.final_flow]:
            inputs = [(nid(nm), v) for nm, v in f.inputs.items()]
            if f.dir == 'post':
                outs = [nid('src_vars()'), nid('src_cons()'), nid('src_objs()')]
            else:
                outs = sorted(set([nid('dest_vars()'), nid('dest_objs()')] + [nid(nm) for nm in (f.results or {}) if nm.startswith('dest_')] +
                                  [i for nm, i in ids.items() if nm.startswith('dest_cons(') and i is not None]))
            clamp = nid('dest_vars()') if f.clamp else None
            ops.append(call_line(f.dir, f.kind, inputs, outs, clamp))
            plan.append((c, 'flow', f))
        rnd = getattr(c, 'round', None) or 0
        ops.append('roundlast %d %d %d %d %s' % (rnd, c.ismip, 1 if solved_or_feasible(c.script.get('code', 0)) else 0, nid('src_vars()'), ' '.join(map(str, getattr(c, 'isint', [])))))
        plan.append((c, 'roundlast', None))
    ops.append('arms report')
    plan.append((None, 'arms', None))
    opf = os.path.join(BUILD, 'c04', 'ops.txt')
    open(opf, 'w').write('\n'.join(ops) + '\n')
    with open(opf) as fi:
        p = subprocess.run([drv], stdin=fi, capture_output=True, text=True, timeout=1800)     # run() kills the driver on timeout
    outl = p.stdout.split('\n')
    if p.returncode != 0 or len(outl) < len(ops):
        raise RuntimeError('lean driver failed: rc=%s, %d/%d lines; %s' % (p.returncode, len(outl), len(ops), p.stderr[-500:]))
    for c in cases:
        c.model_wf = None
        c.traces = {}
        c.bad_ops = []
    for (c, what, payload), line in zip(plan, outl):
        if c is None:
            if what == 'arms' and line.startswith('arms'):
                for kv in line.split()[1:]:
                    k, _, v = kv.rpartition('=')
                    st.arms[k] = st.arms.get(k, 0) + int(v)
            continue
        if line == 'bad-op':
            c.bad_ops.append(str(payload)[:200])
        if what == 'wf':
            c.model_wf = line
        elif what == 'wf2':
            c.model_wf2 = line
        elif what == 'roundlast':
            t = line.split()
            c.model_round = (int(t[1]), [F(v) for v in t[2:]]) if t and t[0] == 'round' else None
        elif what == 'trace':
            c.traces[payload] = line[6:] if line.startswith('trace ') else line
        elif what == 'flow':
            payload.model = parse_call_out(line)
            st.n_flows += 1



def model_replay_shared(ck, drv, cases, st):
    """second driver pass: certificates for shared items (needs the oracle's matching of delivered general constraints)"""
    ops, plan = [], []
    for c in cases:
        c.shared_certs = {}
        if c.problem or getattr(c, 'graph_error', None) or not getattr(c, 'shared_delivered', None):
            continue
        ids = c.ids
        dcg, sc = ids.get('dest_cons(%d)' % CG_GEN), ids.get('src_cons()')
        if dcg is None or sc is None:
            continue
        glines, err = graph_ops(c.lg, ids, c.bounds)
        ops += glines
        plan += [None] * len(glines)
        loaded_pre = [c.nid('src_vars()'), c.nid('src_objs()'), c.nid('src_cons()')]
        loaded_post = [c.nid('dest_vars()'), c.nid('dest_objs()')] + [i for nm, i in ids.items() if nm.startswith('dest_cons(') and i is not None]
        for it_i, (it, r) in enumerate(c.shared_delivered):
            ops.append('sources %d %d %d %s' % (dcg, r, len(loaded_pre), ' '.join(map(str, loaded_pre))))
            plan.append((c, ('sources', it_i, None)))
            # the intermediate cell the users are linked to: source of the copy entry into dest_cons(6)[r]
            tcell = None
            for e in c.lg['entries']:
                if e['t'] == 'CopyLink' and e['d'][0][0] == 'dest_cons(%d)' % CG_GEN and e['d'][0][1] <= r < e['d'][0][2]:
                    tcell = (ids[e['s'][0][0]], e['s'][0][1] + (r - e['d'][0][1]))
            if tcell is None:
                continue
            for k in ('iis', 'basis', 'generic', 'sol', 'lazy'):
                for u in it['users']:
                    ops.append('reach %s %d %d %d %d %d %s' % (k, sc, u, tcell[0], tcell[1], len(loaded_post), ' '.join(map(str, loaded_post))))
                    plan.append((c, ('reach', it_i, (k, u))))
    if not ops:
        return
    opf = os.path.join(BUILD, 'c04', 'ops_shared.txt')
    open(opf, 'w').write('\n'.join(ops) + '\n')
    with open(opf) as fi:
        p = subprocess.run([drv], stdin=fi, capture_output=True, text=True, timeout=1800)
    outl = p.stdout.split('\n')
    if p.returncode != 0 or len(outl) < len(ops):
        raise RuntimeError('lean driver failed (shared): rc=%s %s' % (p.returncode, p.stderr[-300:]))
    for pl, line in zip(plan, outl):
        if pl is not None:
            pl[0].shared_certs[pl[1]] = line
            if line == 'bad-op':
                pl[0].bad_ops.append(str(pl[1]))


def make_nid(ids, nnodes):
    extra = {}           # node names unknown to the graph (created on the fly by a load): size 0

    def nid(name):
        if ids.get(name) is not None:
            return ids[name]
        if name not in extra:
            extra[name] = nnodes + len(extra)
        return extra[name]
    return nid


def names_inv(c):
    inv = {}
    for nm, i in c.ids.items():
        if i is not None:
            inv[i] = nm
    return inv


def compare_flow(c, f):
    """returns list of (what, real, model) differences"""
    diffs = []
    m = f.model
    if f.raised:
        if m is not None:
            diffs.append(('raise', 'real raised: ' + str(f.results.get('err'))[:80], 'model returned'))
        return diffs
    if m is None:
        diffs.append(('raise', 'real returned', 'model raised'))
        return diffs
    if isinstance(m, str):
        diffs.append(('driver', '', m))
        return diffs
    for nm, v in f.results.items():
        mv = m.get(c.nid(nm))
        if mv is None:
            mv = []
        if list(v) != list(mv):
            diffs.append((nm, [str(t) for t in v], [str(t) for t in mv]))
    return diffs



# --------------------------------------------------------------------------- property oracle on the real outputs
def solved_or_feasible(code):
    """StdBackend::IsProblemSolvedOrFeasible (solve-code classes, C10)"""
    return 0 <= code <= 99 or 300 <= code <= 349 or 400 <= code <= 449


def setnum(cur, v):
    """ValueNode::SetNum"""
    if cur != 0:
        return v if (v > cur and v != 0) else cur
    return v


def rev_basis(v):
    return {3: 4, 4: 3}.get(int(v), v) if F(v).denominator == 1 else v


def getz(v, i):
    return F(v[i]) if v is not None and 0 <= i < len(v) else F(0)


def delivered_rows(log):
    rows = []
    for e in log:
        if e['ev'] == 'con' and e['group'] == CG_LIN:
            b = e['data']['body']
            body = {}
            for cf, v in zip(b['c'], b['v']):
                cf = recsolver.num(cf)
                if cf != 0:
                    body[v] = body.get(v, F(0)) + cf
            rows.append({'type': e['type'], 'body': body, 'lb': recsolver.num(e['data']['lb']), 'ub': recsolver.num(e['data']['ub'])})
    return rows


def match_rows(c):
    """for every NL algebraic constraint (NL order): ('plain', r) | ('slack', r, slk) | ('gone',) | ('nonlinear',) | ('unmatched',)"""
    n = len(c.model.vars)
    rows = delivered_rows(c.r['log'])
    out = []
    for cn in nl_cons_of(c):
        if cn is None:
            out.append(('nonlinear',))
            continue
        L = {int(k): F(v) for k, v in cn['lin'].items()}
        cands = []
        for r, row in enumerate(rows):
            if row['body'] == L:
                cands.append(('plain', r))
            else:
                extra = [v for v in row['body'] if v not in L]
                if len(extra) == 1 and extra[0] >= n and row['body'][extra[0]] == 1 and row['type'] == 'LinConEQ' and \
                        all(row['body'].get(v) == cf for v, cf in L.items()) and len(row['body']) == len(L) + 1 and \
                        cn['lb'] is not None and cn['ub'] is not None and F(cn['lb']) < F(cn['ub']):
                    cands.append(('slack', r, extra[0]))
        if not cands and cn['lb'] is None and cn['ub'] is None:
            out.append(('gone',))        # free row, not delivered
        else:
            out.append(cands[0] if len(cands) == 1 else ('unmatched',))
    return out


def iis_slack(s, t):
    s = int(s)
    if s != 0:
        return {1: F(3), 3: F(1), 2: F(2)}.get(s, 'raise')
    return t


def expect_post(kind, V, C3, n, matches):
    """expected postsolved values: ([var values], {i: value | 'raise'}) — the property, spelled on the solver's answer"""
    ev = [getz(V, j) for j in range(n)]
    ec = {}
    for i, mt in enumerate(matches):
        if mt[0] == 'gone':
            ec[i] = F(0)
        elif mt[0] == 'plain':
            ec[i] = getz(C3, mt[1])
        elif mt[0] == 'slack':
            t, sl = getz(C3, mt[1]), getz(V, mt[2])
            if kind == 'sol':
                ec[i] = t
            elif kind in ('gdbl', 'gint'):
                ec[i] = setnum(t, sl)
            elif kind == 'basis':
                ec[i] = rev_basis(sl)
            elif kind == 'iis':
                ec[i] = iis_slack(sl, t)
            elif kind == 'lazy':
                ec[i] = F(0)
    return ev, ec


def clamp(x, lb, ub):
    if isinstance(lb, F) and x < lb:
        return lb
    if isinstance(ub, F) and x > ub:
        return ub
    return x


def expect_pre(c, kind, V, C0, n, matches):
    """expected presolved values: ([first n solver vars], {row r: value}, {slack var: value})"""
    lbs, ubs = c.bounds
    ev = [getz(V, j) for j in range(n)]
    if kind == 'sol':
        ev = [clamp(ev[j], lbs[j], ubs[j]) for j in range(n)]
    er, es = {}, {}
    own = own_rangecons(c)
    for i, mt in enumerate(matches):
        v = getz(C0, i)
        if mt[0] == 'plain':
            er[mt[1]] = v
        elif mt[0] == 'slack':
            r, sl = mt[1], mt[2]
            if kind in ('sol', 'gdbl', 'gint', 'lazy'):
                er[r] = v
            elif kind == 'basis':
                er[r] = F(5)
            elif kind == 'iis':
                er[r] = F(0)
            if kind in ('gdbl', 'gint'):
                es[sl] = v
            elif kind == 'basis':
                es[sl] = rev_basis(v)
            elif kind in ('iis', 'lazy'):
                es[sl] = F(0)
            elif kind == 'sol' and sl in own:
                # lower slack of ITS OWN range constraint at the (unclamped) given point, then moved into the slack's bounds
                rc = own[sl]
                val = sum((cf * getz(V, vv) for cf, vv in rc['lin'] if vv < n), F(0)) - rc['lb']
                if all(vv < n for _, vv in rc['lin']) and not rc['quad']:
                    es[sl] = clamp(val, lbs[sl], ubs[sl])
    return ev, er, es


def own_rangecons(c):
    """slack var -> its own range constraint (lin terms, quad terms, lb)"""
    out = {}
    for e in c.lg['entries']:
        if e['t'].startswith('Range2Slk') and e.get('rangecon', {}).get('own'):
            rc = e['rangecon']['own']
            body = rc['body']
            lin = body['lin'] if 'lin' in body else body
            quad = body['quad'] if 'quad' in body else {'c': [], 'v1': [], 'v2': []}
            out[e['d'][1][1]] = {'lin': [(recsolver.num(cf), v) for cf, v in zip(lin['c'], lin['v'])],
                                 'quad': list(zip(quad['c'], quad['v1'], quad['v2'])), 'lb': recsolver.num(rc['lb'])}
    return out


def oracle(ck, c, st):
    """evaluate the property on what the REAL code returned; independent of the Lean model"""
    c.oracle_failed = False
    if c.problem or getattr(c, 'graph_error', None):
        return
    n = len(c.model.vars)
    matches = match_rows(c)
    c.matches = matches
    for mt in matches:
        st.oracle['con_' + mt[0]] = st.oracle.get('con_' + mt[0], 0) + 1

    def bad(sig, what, f, extra=None):
        o = replay_obj(c)
        o.update({'flow': f.name if f else 'solution', 'detail': extra})
        if ck.add_violation(sig, what, o, found_input=True):     # False: an open known finding
            c.oracle_failed = True

    def chk(key):
        st.oracle[key] = st.oracle.get(key, 0) + 1

    # quadratic range constraints whose warm-start slack is computed from an unrelated constraint
    for e in c.lg['entries']:
        if e['t'].startswith('Range2Slk') and 'rangecon' in e:
            rc = e['rangecon']
            if rc['used'] is None:
                bad('pre:sol:quadrange-slack-reads-out-of-bounds',
                    'RangeCon2Slack for quadratic range constraint %d: PresolveSolutionEntry reads GetConstraint<LinConRange>(%d) but only %d linear range constraints exist (out-of-bounds read in every warm start / MIP start)'
                    % (e['s'][0][1], e['s'][0][1], dict((nm, sz) for nm, sz in c.lg['nodes']).get('_linrange', 0)), None, e)
            elif rc['used'] != rc['own']:
                chk('quadrange_slack_uses_other_constraint')
                bad('pre:sol:quadrange-slack-uses-other-constraint',
                    'RangeCon2Slack for quadratic range constraint %d: the warm-start value of its slack is computed from LINEAR range constraint %d (GetConstraint<LinConRange>), not from the constraint itself'
                    % (e['s'][0][1], e['s'][0][1]), None, {'own': rc['own'], 'used': rc['used']})
    for f in c.flows:
        if f.dir == 'post':
            V = f.inputs.get('dest_vars()')
            C3 = f.inputs.get('dest_cons(3)')
            ev, ec = expect_post(f.kind, V, C3, n, matches)
            will_raise = f.kind == 'iis' and any(v == 'raise' for v in ec.values())
            # any Range2Slk slack with an unknown status raises, matched or not
            if f.kind == 'iis':
                for e in c.lg['entries']:
                    if e['t'].startswith('Range2Slk'):
                        if int(getz(V, e['d'][1][1])) not in (0, 1, 2, 3):
                            will_raise = True
            if f.raised:
                if will_raise:
                    bad('post:iis:unknown-slack-status-raises', 'PostsolveIIS raised (%s): no item receives an IIS flag because a range-slack variable has IIS status outside {non, low, fix, upp}' % f.results.get('err', '')[:80], f)
                else:
                    bad('post:%s:raises' % f.kind, 'postsolve raised unexpectedly: %s' % f.results.get('err', '')[:120], f)
                continue
            rv = f.results.get('src_vars()')
            rc_ = f.results.get('src_cons()')
            if rc_ is None:
                ec = {}
            if rv is None:
                pass
            elif len(rv) != n:
                bad('post:%s:var-count' % f.kind, '%d values returned for %d original variables' % (len(rv), n), f)
            elif rv != ev:
                j = [a != b for a, b in zip(rv, ev)].index(True)
                bad('post:%s:var-value' % f.kind, 'original variable %d received %s, the solver assigned %s (vector of length %d)' % (j, rv[j], ev[j], len(V or [])), f)
            else:
                chk('post_vars_ok')
            for i, want in ec.items():
                if i >= len(rc_):
                    bad('post:%s:con-count' % f.kind, 'no value for constraint %d' % i, f)
                elif want != 'raise' and rc_[i] != want:
                    bad('post:%s:con-value:%s' % (f.kind, matches[i][0]), 'linear constraint %d (%s) received %s, expected %s from the delivered row' % (i, matches[i], rc_[i], want), f)
                else:
                    chk('post_con_%s_ok' % matches[i][0])
        else:
            V = f.inputs.get('src_vars()')
            C0 = f.inputs.get('src_cons()')
            ev, er, es = expect_pre(c, f.kind, V, C0, n, matches)
            rv = f.results.get('dest_vars()', [])
            rr = f.results.get('dest_cons(3)', [])
            if rv[:n] != ev:
                j = [a != b for a, b in zip(rv[:n] + [None] * n, ev)].index(True)
                bad('pre:%s:var-value' % f.kind, 'solver variable %d received %s, given %s' % (j, (rv + [None] * n)[j], ev[j]), f)
            else:
                chk('pre_vars_ok')
            for r, want in er.items():
                if r >= len(rr) or rr[r] != want:
                    bad('pre:%s:row-value' % f.kind, 'solver row %d received %s, expected %s' % (r, rr[r] if r < len(rr) else None, want), f)
                else:
                    chk('pre_row_ok')
            for sl, want in es.items():
                if sl >= len(rv) or rv[sl] != want:
                    bad('pre:%s:slack-value' % f.kind, 'slack variable %d received %s, expected %s' % (sl, rv[sl] if sl < len(rv) else None, want), f)
                else:
                    chk('pre_slack_ok')
    # driver level: an infeasible result with IIS vectors must produce the IIS suffixes
    s = c.script
    if c.code == 200 and (s.get('iisvar') is not None or s.get('iiscon') is not None) and not any(f.name == 'iis_out' for f in c.flows):
        V = s.get('iisvar') or []
        slacks = [e['d'][1][1] for e in c.lg['entries'] if e['t'].startswith('Range2Slk')]
        if any(int(getz(V, sl)) not in (0, 1, 2, 3) for sl in slacks):
            bad('post:iis:unknown-slack-status-raises', 'driver run: no IIS suffix is returned for any item because a range-slack variable has IIS status outside {non, low, fix, upp} (PostsolveIIS raises; reported as warning "Error reporting a suffix")', None)
        else:
            bad('post:iis:not-reported', 'infeasible result with IIS vectors but PostsolveIIS was not performed', None)
    # the .sol file
    sol = c.sol
    x = s.get('x')
    if sol is None:
        return
    ev, ec = expect_post('sol', x, s.get('pi'), n, matches)
    # mip:round: values may be changed only if bit 1 of the option is set, on a MIP with a solved/feasible result, and only integer variables
    rnd = getattr(c, 'round', None) or 0
    applies = rnd != 0 and c.ismip == 1 and solved_or_feasible(s.get('code', 0))
    nround = 0
    if applies and x:
        isint = getattr(c, 'isint', [])
        for j in range(min(len(ev), len(isint))):
            if isint[j]:
                v = ev[j]
                y = F(int(v + F(1, 2) if v >= 0 else v - F(1, 2))) if True else v
                if v >= 0:
                    y = F((v + F(1, 2)).__floor__())
                else:
                    y = -F((-v + F(1, 2)).__floor__())
                if y != v:
                    nround += 1
                    if rnd & 1:
                        ev[j] = y
    msg = sol.get('message', '')
    if applies and x and nround and (rnd & 4):
        want = '%d integer variable%s %srounded to integer%s' % (nround, 's' if nround > 1 else '', '' if rnd & 1 else 'would be ', 's' if nround > 1 else '')
        if want not in msg:
            bad('sol:round-message', 'mip:round=%d, %d integer variable(s) off integrality: the solve message does not contain "%s": %r' % (rnd, nround, want, msg[-200:]), None)
        else:
            chk('sol_round_message_ok')
    elif 'rounded to integer' in msg:
        bad('sol:round-message-unexpected', 'mip:round=%d: unexpected rounding message %r' % (rnd, msg[-200:]), None)
    if applies and x:
        chk('sol_round_%s' % ('assign' if rnd & 1 else 'report_only'))
    prim = [F(t.strip()) for t in sol['primal']]
    if not x:
        if prim:
            bad('sol:primal-without-solution', '%d primal values written although the solver returned none' % len(prim), None)
        else:
            chk('sol_no_primal_ok')
    elif prim != ev:
        bad('sol:primal' + (':round%d' % rnd if rnd else ''), '.sol primal %s, solver assigned %s%s' % ([str(t) for t in prim], [str(t) for t in ev], ' (mip:round=%d: only integer variables may be rounded, and only if bit 1 is set)' % rnd if rnd else ''), None)
    else:
        chk('sol_primal_ok')
    dual = [F(t.strip()) for t in sol['dual']]
    have_dual = bool(s.get('pi')) or bool(s.get('piq'))
    if not have_dual:
        if dual:
            bad('sol:dual-without-duals', '%d dual values written although the solver returned none' % len(dual), None)
        else:
            chk('sol_no_dual_ok')
    else:
        if len(dual) != len(c.model.cons):
            bad('sol:dual-count', '%d dual values for %d algebraic constraints' % (len(dual), len(c.model.cons)), None)
        for i, want in ec.items():
            if i < len(dual) and dual[i] != want:
                bad('sol:dual:%s' % matches[i][0], '.sol dual of linear constraint %d (%s) is %s, the delivered row has %s' % (i, matches[i], dual[i], want), None)
            else:
                chk('sol_dual_%s_ok' % matches[i][0])
    # suffixes in the .sol file must be the postsolved basis / IIS (kind 0 var, 1 con)
    sufs = {(sf['name'], sf['kind'] & 3): sf['vals'] for sf in sol['suffixes']}
    for f in c.flows:
        if f.name in ('basis_out', 'iis_out') and not f.raised:
            nm = 'sstatus' if f.name == 'basis_out' else 'iis'
            for kind_, node in ((0, 'src_vars()'), (1, 'src_cons()')):
                want = {i: v for i, v in enumerate(f.results.get(node, [])) if v != 0}
                limit = n if kind_ == 0 else len(c.model.cons) + len(c.model.lcons)
                got = {int(i): F(v) for i, v in sufs.get((nm, kind_), {}).items()}
                want = {i: v for i, v in want.items() if i < limit}
                if got != want:
                    bad('sol:suffix:%s' % nm, '.sol suffix %s (kind %d) = %s, postsolved values %s' % (nm, kind_, got, want), f)
                else:
                    chk('sol_suffix_%s_ok' % nm)




# --------------------------------------------------------------------------- items shared by several original constraints
def shared_items_of(c):
    """functional subexpressions used by >= 1 constraints, in NL terms: [{'type', 'args': [NL var positions], 'users': [NL con indices]}]"""
    m = c.model
    if isinstance(m, ReplayModel):
        return m.shared
    out = []
    inv = {i: k for k, i in enumerate(m.con_order)}

    def contains(e, atom):
        if not isinstance(e, tuple):
            return False
        if e == atom:
            return True
        if e[0] == 'dv':
            return contains(m.defvars[e[1]].get('nl'), atom)
        for a in e[1:]:
            if isinstance(a, list):
                if any(contains(x, atom) for x in a):
                    return True
            elif contains(a, atom):
                return True
        return False
    for (fn, args), users in (getattr(m, 'atoms', None) or {}).items():
        atom = ('max', [('v', args[0]), ('v', args[1])]) if fn == 'max' else (fn, ('v', args[0]))
        # every constraint whose expression tree contains the expression is a user (also through other families)
        users = sorted(set(users) | set(i for i, cn in enumerate(m.cons) if cn['nl'] is not None and contains(cn['nl'], atom)))
        if any(contains(l['expr'], atom) for l in m.lcons) or any(o['nl'] is not None and contains(o['nl'], atom) for o in m.objs):
            continue        # also used by a logical constraint / objective: not handled by the oracle
        if users:
            out.append({'type': FUNC_TYPE[fn], 'args': [m.pos[a] for a in args], 'users': sorted(inv[u] for u in users),
                        'defvar': (fn, args) in getattr(m, 'atom_dv', set())})
    return out


def maxnz(vals):
    r = F(0)
    for v in vals:
        r = setnum(r, F(v))
    return r


def delivered_shared(c):
    """[(shared item, r)] : r = index of the delivered general constraint (group 6) with that type and arguments"""
    gen = [e for e in c.r['log'] if e['ev'] == 'con' and e['group'] == CG_GEN]
    out = []
    for it in shared_items_of(c):
        cands = [r for r, e in enumerate(gen) if e['type'] == it['type'] and isinstance(e['data'].get('args'), list) and
                 (sorted(e['data']['args']) == sorted(it['args']) if it['type'] == 'MaxConstraint' else e['data']['args'] == it['args'])]
        if len(cands) == 1:
            out.append((it, cands[0]))
    return out


def oracle_shared(ck, c, st):
    """values sent either way land on the images of the items they were given for — for a functional constraint shared by
    several original constraints: presolve delivers the max among non-zero over ALL users, a postsolved non-zero value
    reaches EVERY user (independent of the link graph and of the Lean model)"""
    if c.problem or getattr(c, 'graph_error', None):
        return
    c.shared_delivered = delivered_shared(c)
    for it, r in c.shared_delivered:
        st.oracle['shared_item_delivered'] = st.oracle.get('shared_item_delivered', 0) + 1
        if len(it['users']) > 1:
            st.oracle['shared_item_multi_user'] = st.oracle.get('shared_item_multi_user', 0) + 1

    def bad(sig, what, f):
        o = replay_obj(c)
        o.update({'flow': f.name, 'inputs': {k: [str(t) for t in v] for k, v in f.inputs.items()},
                  'real': {k: [str(t) for t in v] for k, v in f.results.items() if isinstance(v, list)}})
        if ck.add_violation(sig, what, o, found_input=True):
            c.oracle_failed = True
    for f in c.flows:
        if f.raised:
            continue
        for it, r in c.shared_delivered:
            if f.dir == 'post':
                v = getz(f.inputs.get('dest_cons(%d)' % CG_GEN), r)
                if v == 0:
                    continue
                rc_ = f.results.get('src_cons()')
                if rc_ is None:
                    continue
                for u in it['users']:
                    got = getz(rc_, u)
                    if got == 0 or got < v:
                        bad('shared:post:%s:user-not-reached%s' % (f.kind, ':defvar' if it.get('defvar') else ''),
                            'the solver reports %s for the %s on variable(s) %s (general constraint %d); original constraint %d, which contains that expression, received %s (users: %s; max among non-zero demands a non-zero value >= %s)'
                            % (v, it['type'], it['args'], r, u, got, it['users'], v), f)
                    else:
                        st.oracle['shared_post_user_reached'] = st.oracle.get('shared_post_user_reached', 0) + 1
            else:
                if 'src_objs()' in f.inputs and any(t != 0 for t in f.inputs['src_objs()']):
                    continue
                C0 = f.inputs.get('src_cons()')
                want = maxnz([getz(C0, u) for u in it['users']])
                got = getz(f.results.get('dest_cons(%d)' % CG_GEN), r)
                if got != want:
                    bad('shared:pre:%s:not-max-over-users%s' % (f.kind, ':defvar' if it.get('defvar') else ''),
                        'the %s on variable(s) %s (general constraint %d) received %s; the values given for its users %s are %s (max among non-zero = %s)'
                        % (it['type'], it['args'], r, got, it['users'], [str(getz(C0, u)) for u in it['users']], want), f)
                else:
                    st.oracle['shared_pre_max_ok'] = st.oracle.get('shared_pre_max_ok', 0) + 1


def certificates_shared(ck, c, st):
    """Lean certificates (hypotheses of C04_shared_presolve_max / C04_shared_postsolve_reaches) on the real graph"""
    for key, line in getattr(c, 'shared_certs', {}).items():
        what, it_i, extra = key
        it, r = c.shared_delivered[it_i]
        ids = c.ids
        sc, dcg = ids.get('src_cons()'), ids.get('dest_cons(%d)' % CG_GEN)
        if what == 'sources':
            want = sorted('%d:%d' % (sc, u) for u in it['users'])
            got = sorted(line.split()[2:]) if line.startswith('sources ok') else None
            if got != want:
                ck.add_violation('cert:shared:pre:sources' + (':defvar' if it.get('defvar') else ''), 'general constraint %d (%s %s): the entries feeding it in a presolve run come from %s, the users are %s'
                                 % (r, it['type'], it['args'], line, want), replay_obj(c), found_input=getattr(c, 'oracle_failed', False))
            else:
                st.oracle['cert_shared_sources'] = st.oracle.get('cert_shared_sources', 0) + 1
        else:
            k, u = extra
            want = 'reach 1 init:%d:%d' % (dcg, r)
            if line != want:
                ck.add_violation('cert:shared:post:reach' + (':defvar' if it.get('defvar') else ''), 'user constraint %d of general constraint %d (%s %s), kind %s: certificate "%s", demanded "%s"'
                                 % (u, r, it['type'], it['args'], k, line, want), replay_obj(c), found_input=getattr(c, 'oracle_failed', False))
            else:
                st.oracle['cert_shared_reach'] = st.oracle.get('cert_shared_reach', 0) + 1


def certificates(ck, c, st):
    """the Lean certificate (symbolic origin of every original item on the REAL graph) must be the one the property
    demands; items are matched to delivered rows by the oracle (independently of the graph)."""
    if c.problem or getattr(c, 'graph_error', None) or c.bad_ops or not hasattr(c, 'matches'):
        return
    n = len(c.model.vars)
    ids = c.ids
    sv, dv, sc, dc = ids.get('src_vars()'), ids.get('dest_vars()'), ids.get('src_cons()'), ids.get('dest_cons(3)')
    loaded_post = set([dv, ids.get('dest_objs()')] + [i for nm, i in ids.items() if nm.startswith('dest_cons(')])

    def want_post(k, mt, i):
        if mt[0] == 'plain':
            return 'init:%d:%d' % (dc, mt[1])
        if mt[0] == 'slack':
            row, slk = 'init:%d:%d' % (dc, mt[1]), 'init:%d:%d' % (dv, mt[2])
            return {'sol': row, 'basis': 'rev(%s)' % slk, 'iis': 'iis(%s,%s)' % (slk, row), 'generic': 'smax(%s,%s)' % (row, slk), 'lazy': 'const:0/1'}[k]
        return None

    def fail(sig, what):
        o = replay_obj(c)
        ck.add_violation(sig, what, o, found_input=getattr(c, 'oracle_failed', False))

    for (d, k, item, i), got in c.traces.items():
        key = 'cert_%s_%s' % (d, item)
        if d == 'post' and item == 'var':
            want = 'init:%d:%d' % (dv, i)
        elif d == 'post' and item == 'con':
            if i >= len(c.matches):
                continue
            mt = c.matches[i]
            if mt[0] == 'gone':
                ok = got.startswith('init:') and int(got.split(':')[1]) not in loaded_post
                st.oracle[key + '_gone'] = st.oracle.get(key + '_gone', 0) + 1
                if not ok:
                    fail('cert:post:%s:gone' % k, 'eliminated constraint %d: certificate %s is not an unloaded (zero) cell' % (i, got))
                continue
            want = want_post(k, mt, i)
            if want is None:
                continue
            key += '_' + mt[0]
        elif d == 'pre' and item == 'dvar':
            if i < n:
                want = 'init:%d:%d' % (sv, i)
            else:
                sl = [(ci, mt) for ci, mt in enumerate(c.matches) if mt[0] == 'slack' and mt[2] == i]
                if not sl:
                    continue
                src = 'init:%d:%d' % (sc, sl[0][0])
                want = {'generic': src, 'basis': 'rev(%s)' % src, 'lazy': 'const:0/1', 'sol': 'none'}[k]
                key += '_slack'
        elif d == 'pre' and item == 'drow':
            m_ = [(ci, mt) for ci, mt in enumerate(c.matches) if mt[0] in ('plain', 'slack') and mt[1] == i]
            if not m_:
                continue
            ci, mt = m_[0]
            src = 'init:%d:%d' % (sc, ci)
            want = src if (mt[0] == 'plain' or k != 'basis') else 'const:5/1'
            key += '_' + mt[0]
        else:
            continue
        if got != want:
            fail('cert:%s:%s:%s' % (d, k, item), 'certificate of %s %d for %s/%s on the real graph is %s, the property demands %s' % (item, i, d, k, got, want))
        else:
            st.oracle[key] = st.oracle.get(key, 0) + 1



ASAN_FLAGS = ('-O1', '-g', '-fsanitize=address,undefined', '-fno-sanitize-recover=all')
# mp's CRTP converters static_cast<Impl*>(this) inside base-class constructors: UBSan's vptr check reports that (not a C04 matter)
UBSAN_SUPP = 'vptr_check:*\nvptr:*\n'


def classify_sanitizer(err):
    """signature of a sanitizer report: kind + first mp:: frame"""
    import re
    kind = 'abort'
    m = re.search(r'ERROR: AddressSanitizer: ([\w-]+)', err)
    if m:
        kind = m.group(1)
    elif 'runtime error:' in err:
        kind = 'ubsan'
    frames = re.findall(r'#\d+ 0x[0-9a-f]+ in (.+?) (?:/|\()', err)
    if any('RangeCon2Slack' in f and 'PresolveSolutionEntry' in f for f in frames[:12]) or \
            (any('ComputeLowerSlack' in f or 'ComputeValue' in f for f in frames[:6]) and any('RangeCon2Slack' in f for f in frames[:14])):
        return 'pre:sol:quadrange-slack-reads-out-of-bounds', frames[:8]
    if kind == 'heap-buffer-overflow' and any('SolutionChecker' in f for f in frames[:8]) and any('PostsolveSolution' in f for f in frames[:12]):
        return 'post:sol:short-primal-vector-solution-checker-reads-out-of-bounds', frames[:8]
    fn = next((f for f in frames if 'mp::' in f), frames[0] if frames else '?')
    fn = re.sub(r'<.*', '', fn).split('(')[0]
    return 'sanitizer:%s:%s' % (kind, fn[-60:]), frames[:8]


def sanitizer_stream(ck, cases, st):
    """re-run generated cases (short / empty / long vectors first) and a directed model on an ASan+UBSan build of the
    same driver: every transfer must stay inside its buffers"""
    exe = recsolver.build(ck, flags=ASAN_FLAGS, name='recsolver_asan')
    supp = os.path.join(BUILD, 'c04', 'ubsan.supp')
    os.makedirs(os.path.dirname(supp), exist_ok=True)
    open(supp, 'w').write(UBSAN_SUPP)
    san_env = {'UBSAN_OPTIONS': 'suppressions=%s:print_stacktrace=1' % supp}
    todo = [c for c in cases if not c.problem]
    todo.sort(key=lambda c: -sum(1 for k in ('x', 'pi', 'varstt', 'constt', 'iisvar', 'iiscon')
                                 if c.script.get(k) is not None and len(c.script[k]) < (c.sizes[0] if k in ('x', 'varstt', 'iisvar') else c.sizes[1].get(CG_LIN, 0))))
    todo = todo[:(20 if ck.tier == 'quick' else 250)]
    nrun = 0
    for c in todo:
        r = run_retry(exe, c.stub, options=c.options, accept=c.accept, script=c.stub + '.script', env=dict(env_of(c, c.stub + '.calls'), **san_env), timeout=300)
        nrun += 1
        if r['rc'] != 0 and ('Sanitizer' in r['err'] or 'runtime error' in r['err']):
            sig, frames = classify_sanitizer(r['err'])
            o = replay_obj(c)
            o.update({'frames': frames, 'stderr_tail': r['err'][-1500:], 'build': 'recsolver with ' + ' '.join(ASAN_FLAGS)})
            ck.add_violation(sig, 'sanitizer report while transferring values: %s' % frames[:3], o, found_input=True)
    # directed: ONE quadratic range constraint, no linear range constraint, a warm start
    d = os.path.join(BUILD, 'c04', 'directed_quadrange')
    os.makedirs(d, exist_ok=True)
    m = nlgen.Model()
    x = m.var(0, 4)
    y = m.var(0, 4)
    m.obj('min', {x: 1, y: 1})
    m.con(1, 9, {x: 1}, nl=('*', ('v', x), ('v', y)))
    m.x0 = {x: 1, y: 2}
    m.pi0 = {0: 1}
    stub = os.path.join(d, 'm')
    m.write(stub)
    c = Case()
    c.stub, c.model, c.accept, c.options, c.ismip, c.calls, c.script = stub, m, ['LinConLE', 'LinConEQ', 'LinConGE', 'QuadConLE', 'QuadConEQ', 'QuadConGE'], ['alg:start=1'], 0, [], {'code': 0}
    r = run_retry(exe, stub, options=c.options, accept=c.accept, env=dict(env_of(c), **san_env), timeout=300)
    nrun += 1
    st.feat['sanitizer_runs'] = nrun
    if r['rc'] != 0 and ('Sanitizer' in r['err'] or 'runtime error' in r['err']):
        sig, frames = classify_sanitizer(r['err'])
        o = replay_obj(c)
        o.update({'frames': frames, 'stderr_tail': r['err'][-1500:], 'build': 'recsolver with ' + ' '.join(ASAN_FLAGS)})
        ck.add_violation(sig, 'directed model (one quadratic range constraint x*y + x in [1,9], no linear constraint, warm start): sanitizer report %s' % frames[:3], o, found_input=True)
        st.feat['directed_quadrange_sanitizer_report'] = 1
    else:
        st.feat['directed_quadrange_sanitizer_report'] = 0


def case_from_replay(obj, d):
    c = Case()
    c.dir = d
    os.makedirs(d, exist_ok=True)
    c.stub = os.path.join(d, 'm')
    open(c.stub + '.nl', 'w').write(obj['nl'])
    for ext in ('col', 'row'):
        if obj.get(ext):
            open(c.stub + '.' + ext, 'w').write(obj[ext])
    c.accept = obj['accept']
    c.options = obj['options']
    c.ismip = obj.get('ismip', 0)
    c.code = obj['script'].get('code', 0)
    c.script = {k: ([F(t) for t in v] if isinstance(v, list) else v) for k, v in obj['script'].items()}
    if c.script.get('extra'):
        c.script['extra'] = {k: [F(t) for t in v] for k, v in c.script['extra'].items()}
    c.sens = 'alg:sens=1' in c.options
    c.writegraph = bool(obj.get('writegraph'))
    c.isint = obj.get('isint', [])
    c.round = obj.get('round')
    if c.script.get('iiscong'):
        c.script['iiscong'] = {int(g): [F(t) for t in v] for g, v in c.script['iiscong'].items()}
    c.calls = []
    for cl in obj.get('calls', []):
        cc = {'dir': cl['dir'], 'kind': cl['kind'], 'V': None, 'C': None, 'O': None}
        if cl.get('V') is not None:
            cc['V'] = [F(t) for t in cl['V']]
        if cl.get('O') is not None:
            cc['O'] = [F(t) for t in cl['O']]
        if cl.get('C'):
            cc['C'] = {int(g): [F(t) for t in v] for g, v in cl['C'].items()}
        c.calls.append(cc)
    c.model = ReplayModel(obj)
    c.origin = 'replay'
    c.slack_oob = False
    return c


class ReplayModel:
    """what the oracle needs to know about the NL model (in NL order)"""
    def __init__(self, obj):
        self.vars = [None] * obj['n_vars']
        self.cons = [None] * obj['n_cons']
        self.lcons = [None] * obj['n_lcons']
        self.objs = [None] * obj['n_objs']
        self.nl_cons = obj['nl_cons']
        self.shared = obj.get('shared', [])


def replay_obj(c):
    def sv(v):
        if isinstance(v, dict):
            return {str(g): sv(x) for g, x in v.items()}
        return [str(F(t)) for t in v] if isinstance(v, list) else v
    calls = []
    for cl in c.calls:
        calls.append({'dir': cl['dir'], 'kind': cl['kind'], 'V': sv(cl['V']) if cl['V'] is not None else None,
                      'O': sv(cl['O']) if cl['O'] is not None else None,
                      'C': {str(g): sv(v) for g, v in cl['C'].items()} if cl['C'] else None})
    o = {'nl': open(c.stub + '.nl').read(), 'accept': c.accept, 'options': c.options, 'ismip': c.ismip,
         'script': {k: sv(v) for k, v in getattr(c, 'script', {}).items()}, 'calls': calls,
         'n_vars': len(c.model.vars), 'n_cons': len(c.model.cons), 'n_lcons': len(c.model.lcons), 'n_objs': len(c.model.objs),
         'nl_cons': nl_cons_of(c), 'shared': shared_items_of(c), 'writegraph': bool(getattr(c, 'writegraph', False)), 'isint': getattr(c, 'isint', []), 'round': getattr(c, 'round', None),
         'how': 'save this object as a file and run ./check C04 --replay <file>'}
    for ext in ('col', 'row'):
        if os.path.exists(c.stub + '.' + ext):
            o[ext] = open(c.stub + '.' + ext).read()
    return o


def nl_cons_of(c):
    """linear NL constraints in NL order: list of {lin:{pos:coef str}, lb, ub} or None for nonlinear"""
    m = c.model
    if isinstance(m, ReplayModel):
        return m.nl_cons
    out = []
    for i in m.con_order:
        cn = m.cons[i]
        if cn['nl'] is not None:
            out.append(None)
        else:
            out.append({'lin': {str(m.pos[j]): str(F(cf)) for j, cf in cn['lin'].items()},
                        'lb': None if cn['lb'] is None else str(F(cn['lb'])), 'ub': None if cn['ub'] is None else str(F(cn['ub']))})
    return out


def verdicts(ck, cases, st, proof_ok, failing):
    n_ok = 0
    problems = {}
    for c in cases:
        if c.problem:
            problems.setdefault(c.problem.split(':')[0], []).append(c)
            rc = c.r.get('rc')
            if rc != 0:       # the real driver died (signal / abort / timeout) while converting or transferring values
                nv = c.sizes[0] if hasattr(c, 'sizes') else None
                shorts = [v for v in [getattr(c, 'script', {}).get('x')] + [cl.get('V') for cl in getattr(c, 'calls', []) if cl['dir'] == 'post' and cl['kind'] == 'sol']
                          if v and nv is not None and len(v) < nv]
                o = replay_obj(c) if os.path.exists(c.stub + '.nl') else {}
                o.update({'rc': rc, 'stderr_tail': (c.r.get('err') or '')[-800:]})
                if shorts:
                    ck.add_violation('post:sol:short-primal-vector-solution-checker-reads-out-of-bounds',
                                     'the real driver died (rc=%s, %s) in a run whose solver answer has a non-empty primal vector shorter than the %d solver variables' % (rc, (c.r.get('err') or '').strip()[-80:], nv), o, found_input=True)
                else:
                    ck.add_violation('real-driver-crash', 'the real driver died: rc=%s %s' % (rc, (c.r.get('err') or '').strip()[-200:]), o, found_input=True)
            continue
        if c.graph_error:
            ck.add_violation('graph:' + c.graph_error.split(':')[0], 'the real link graph cannot be represented in the model: ' + c.graph_error,
                             replay_obj(c), found_input=False)
            continue
        if c.bad_ops:
            ck.add_violation('driver:bad-op', 'the Lean driver rejected an operation: %s' % c.bad_ops[0], replay_obj(c), found_input=False)
            continue
        if getattr(c, 'model_wf2', None) != 'wf2 1 1':
            ck.add_violation('wf2:' + str(getattr(c, 'model_wf2', None)), 'on the real graph: every node of every entry registered / traceWF (hypotheses of C04_history_independent_registered and of tracePost_exists, checked here on each real graph): %s' % getattr(c, 'model_wf2', None),
                             replay_obj(c), found_input=False)
        if c.lg.get('unreg', 0) != 0 or c.lg.get('dupnames', 0) != 0 or 'unreg' not in c.lg:
            ck.add_violation('registration:pointers', 'on the real presolver: %s entry node pointers are not members of val_nodes_, %s registered nodes share a name (the model identifies nodes by name)' % (c.lg.get('unreg'), c.lg.get('dupnames')),
                             replay_obj(c), found_input=True)
        if c.model_wf != 'wf 1 1':
            ck.add_violation('wf:' + str(c.model_wf), 'well-formedness hypotheses (inBounds, wfVars) of the theorems fail on the real graph: %s' % c.model_wf,
                             replay_obj(c), found_input=False)
        for f in c.flows:
            d = compare_flow(c, f)
            if d:
                what, real, model = d[0]
                sig = 'corr:%s:%s:%s' % (f.dir, f.kind, 'raise' if what == 'raise' else what.split('(')[0])
                o = replay_obj(c)
                o.update({'flow': f.name, 'inputs': {k: [str(t) for t in v] for k, v in f.inputs.items()}, 'node': what, 'real': real, 'model': model})
                ck.add_violation(sig, 'transfer %s (%s %s): real ValuePresolver returned %s for %s, the Lean model %s' % (f.name, f.dir, f.kind, real, what, model),
                                 o, found_input=getattr(c, 'oracle_failed', False))
            else:
                n_ok += 1
                st.n_values += sum(len(v) for v in f.results.values() if isinstance(v, list))
                fam = f.name.rstrip('0123456789').split('_')[0] if not f.name.startswith(('basis', 'iis', 'ray', 'dray', 'mipstart')) else f.name
                fam = '%s:%s:%s' % (fam, f.dir, f.kind)
                nz = any(t != 0 for v in f.results.values() if isinstance(v, list) for t in v)
                st.flowfam[fam] = st.flowfam.get(fam, 0) + 1
                if nz:
                    st.flowfam[fam + ':nonzero'] = st.flowfam.get(fam + ':nonzero', 0) + 1
        # the final solution transfer, observed through the .sol file
        fm = getattr(c.final_flow, 'model', None)
        if isinstance(fm, dict) and c.sol is not None:
            prim = [F(t.strip()) for t in c.sol['primal']]
            dual = [F(t.strip()) for t in c.sol['dual']]
            mv = fm.get(c.nid('src_vars()'), [])
            if getattr(c, 'model_round', None) is not None:
                mv = c.model_round[1]          # the model's mip:round post-processing of its own postsolved vector
            mc = fm.get(c.nid('src_cons()'), [])[:len(c.model.cons)]
            x = c.script.get('x')
            have_dual = bool(c.script.get('pi')) or bool(c.script.get('piq'))
            if (prim != mv and x) or (dual != mc and have_dual):
                o = replay_obj(c)
                o.update({'sol_primal': [str(t) for t in prim], 'model_primal': [str(t) for t in mv], 'sol_dual': [str(t) for t in dual], 'model_dual': [str(t) for t in mc]})
                ck.add_violation('corr:post:sol:solfile', '.sol primal/dual %s/%s differ from the Lean model %s/%s' % (o['sol_primal'], o['sol_dual'], o['model_primal'], o['model_dual']),
                                 o, found_input=getattr(c, 'oracle_failed', False))
            else:
                n_ok += 1
        else:
            ck.add_violation('corr:post:sol:solfile-model', 'model result for the final solution transfer: %r' % (fm,), replay_obj(c), found_input=False)
    ck.cov['evaluations'] = st.n_flows
    ck.cov['traces_validated_against_impl'] = n_ok
    ck.cov['generator'] = dict(sorted(st.feat.items()))
    ck.cov['link_types'] = st.link_types
    ck.cov['real_runs'] = st.n_runs
    ck.cov['values_compared'] = st.n_values
    try:
        cj = json.load(open(os.path.join(VERIF, 'design_notes', 'coverage', 'C04.json')))
        ck.cov['anchor_line_cov'] = cj['anchor_line_cov']
        ck.cov['anchor_branch_cov'] = cj['anchor_branch_cov']
        ck.cov['anchor_cov_note'] = 'as measured in the last VERIF_COVERAGE=1 run (design_notes/coverage/C04.md); mechanism code: line %s%% branch %s%%' % (cj['mechanism_line_cov'], cj['mechanism_branch_cov'])
    except Exception:
        pass
    ck.cov['oracle'] = dict(sorted(st.oracle.items()))
    ck.cov['model_arms_taken'] = dict(sorted(st.arms.items()))
    ck.cov['model_arms_never_taken'] = [a for a in ALL_MODEL_ARMS if not st.arms.get(a)]
    ck.cov['transfers_by_family'] = dict(sorted(st.flowfam.items()))
    ck.cov['cases_skipped'] = {k: len(v) for k, v in problems.items()}
    distinct = set()
    for c in cases:
        if c.problem or getattr(c, 'graph_error', None):
            continue
        if len(c.lg['entries']) < 3 or not c.flows:
            continue
        o = replay_obj(c)
        distinct.add(hashlib.sha256(json.dumps([o['nl'], o['accept'], o['options'], o['script'], o['calls']], sort_keys=True).encode()).hexdigest())
        if len(ck.cov['samples']) < 3:
            ck.sample({'nl_head': o['nl'].split('\n')[:3], 'accept': c.accept, 'options': c.options, 'script': o['script'], 'calls': o['calls'][:3],
                       'link_entries': len(c.lg['entries']), 'link_types': sorted(set(e['t'] for e in c.lg['entries'])),
                       'transfers': [(f.name, f.dir, f.kind) for f in c.flows], 'row_matches': [list(m) for m in getattr(c, 'matches', [])]})
    ck.cov['distinct_nontrivial'] = len(distinct)
    ck.cov['rule'] = ('one case = one generated NL model x acceptance subset x options x scripted solver answer x call sequence, converted by the real driver; '
                      'counted as non-trivial when the real link graph has >= 3 entries and >= 1 transfer was compared; distinct by hash of (NL text, acceptance, options, answer, calls)')
    ck.log('cases=%d skipped=%s flows compared=%d identical=%d' % (len(cases), ck.cov['cases_skipped'], st.n_flows, n_ok))
    for k, v in problems.items():
        ck.log('skipped example (%s): %s' % (k, v[0].problem[:300]))
    if not proof_ok:
        for fdecl in failing:
            ck.add_violation('obligation:%s' % fdecl, 'proof obligation no longer checks: %s' % fdecl,
                             {'theorem': fdecl, 'module': 'MpVerif.C04.Props'}, found_input=False)


def replay(ck, path):
    obj = json.load(open(path))
    obj = obj.get('replay', obj)
    exe = recsolver.build(ck)
    drv = ck.driver('drv_c04')
    work = os.path.join(BUILD, 'c04')
    os.makedirs(work, exist_ok=True)
    d = os.path.join(work, 'replay')
    shutil.rmtree(d, ignore_errors=True)
    c = case_from_replay(obj, d)
    st = Stats()
    execute_case(ck, exe, c, st)
    if c.problem:
        print('run problem:', c.problem)
    model_replay(ck, drv, [c], st)
    oracle(ck, c, st)
    oracle_shared(ck, c, st)
    model_replay_shared(ck, drv, [c], st)
    certificates(ck, c, st)
    certificates_shared(ck, c, st)
    for f in c.flows + ([c.final_flow] if not c.problem else []):
        print('--', f.name, f.dir, f.kind, 'RAISED' if f.raised else '')
        print('   inputs :', {k: [str(t) for t in v] for k, v in f.inputs.items()})
        print('   real   :', {k: [str(t) for t in v] if isinstance(v, list) else v for k, v in (f.results or {}).items()})
        inv = names_inv(c)
        m = getattr(f, 'model', None)
        print('   model  :', {inv.get(k, k): [str(t) for t in v] for k, v in m.items()} if isinstance(m, dict) else m)
    verdicts(ck, [c], st, True, [])
    return ck.finish()


# --------------------------------------------------------------------------- coverage mode (VERIF_COVERAGE=1)
ANCHOR_FILES = ['include/mp/valcvt.h', 'include/mp/valcvt-base.h', 'include/mp/valcvt-node.h', 'include/mp/valcvt-link.h',
                'include/mp/flat/redef/std/range_con.h', 'include/mp/flat/converter.h', 'include/mp/flat/problem_flattener.h',
                'include/mp/flat/constr_keeper.h', 'include/mp/flat/backend_flat.h', 'include/mp/backend-std.h', 'include/mp/backend-mip.h',
                'include/mp/backend-with-valcvt.h', 'include/mp/model-mgr-with-pb.h']
# functions of anchors.mechanism (substring of the demangled name); files given in full: every function is listed
MECH_FUNCS = ['ConvertVars', 'AddAllUnbridged', 'AutoLinkScope', 'Many2ManyLink', 'One2ManyLink', 'Many2OneLink', 'CopyLink', 'ValueNode::',
              'RangeCon2Slack', 'RangeConstraintConverter', 'RunPresolve', 'RunPostsolve', 'CleanUpValueNodes', 'ValuePresolver', 'ValueMap', 'ModelValues',
              'AutoLink', 'MapFind', 'FlatBackend', 'PostsolveSolution', 'PresolveSolution']
MECH_FILES_FULL = ['valcvt.h', 'valcvt-base.h', 'valcvt-node.h', 'valcvt-link.h', 'range_con.h', 'backend_flat.h', 'backend-with-valcvt.h']


def coverage_build(ck):
    """recsolver with gcov instrumentation of its own four TUs (they instantiate all anchored header code);
    the mp library objects are the normal cached ones"""
    cdir = os.path.join(BUILD, 'c04cov')
    os.makedirs(cdir, exist_ok=True)
    inc = ['-I' + os.path.join(REPO, 'include'), '-I' + os.path.join(REPO, 'src'), '-I' + os.path.join(VERIF, 'harness'), '-I' + recsolver.RDIR]
    defs = ['-DNDEBUG', '-DMP_DATE=20240320', '-DMP_SYSINFO="Linux x86_64"', '-DMP_USE_ATOMIC', '-DMP_USE_HASH', '-DMP_USE_UNIQUE_PTR', '-DAMPL_MP_VERIF']
    srcs = ['recmain.cc', 'recmodelmgr.cc', 'recmodelapi.cc', 'recbackend.cc']
    key = hashlib.sha256()
    for f in sorted(os.listdir(recsolver.RDIR)):
        key.update(open(os.path.join(recsolver.RDIR, f), 'rb').read())
    rc, out, err = sh(['git', '-C', REPO, 'rev-parse', 'HEAD'])
    key.update(out.encode())
    rc, out, err = sh(['git', '-C', REPO, 'diff', 'HEAD', '--', 'include'])
    key.update(out.encode())
    stamp = os.path.join(cdir, 'stamp-' + key.hexdigest()[:16])
    exe = os.path.join(cdir, 'recsolver_cov')
    if not (os.path.exists(stamp) and os.path.exists(exe)):
        for f in os.listdir(cdir):
            os.remove(os.path.join(cdir, f))
        from concurrent.futures import ThreadPoolExecutor

        def one(s_):
            o = os.path.join(cdir, s_.replace('.cc', '.o'))
            rc, out, err = sh(['g++', '-std=c++17', '-w', '-O0', '-g', '--coverage'] + defs + inc + ['-c', os.path.join(recsolver.RDIR, s_), '-o', o], timeout=3000, cwd=cdir)
            if rc != 0:
                raise RuntimeError('coverage compile failed: ' + err[-2000:])
            return o
        with ThreadPoolExecutor(max_workers=4) as ex:
            objs = list(ex.map(one, srcs))
        rc, out, err = sh(['g++', '--coverage'] + objs + ck.libmp_objects() + ['-o', exe, '-ldl'], timeout=1800)
        if rc != 0:
            raise RuntimeError('coverage link failed: ' + err[-2000:])
        open(stamp, 'w').write('')
    for f in os.listdir(cdir):
        if f.endswith('.gcda'):
            os.remove(os.path.join(cdir, f))
    return exe, cdir


def coverage_report(ck, cdir, label):
    """gcov -b -c (json) on the four TUs; merge per (file, line); write design_notes/coverage/C04.md and coverage/C04.json"""
    import gzip
    lines = {}      # file -> line -> count
    branches = {}   # file -> line -> [counts]
    funcs = {}      # file -> (name, start, end) -> count
    for tu in ('recmodelmgr', 'recbackend', 'recmodelapi', 'recmain'):
        if not os.path.exists(os.path.join(cdir, tu + '.gcda')):
            continue
        rc, out, err = sh(['gcov-12', '-b', '-c', '-m', '--json-format', tu + '.gcda'], cwd=cdir, timeout=1800)
        jf = os.path.join(cdir, tu + '.gcda.gcov.json.gz')
        if not os.path.exists(jf):
            jf = os.path.join(cdir, tu + '.gcov.json.gz')
        data = json.load(gzip.open(jf))
        for fobj in data['files']:
            fn = os.path.normpath(fobj['file'] if os.path.isabs(fobj['file']) else os.path.join(cdir, fobj['file']))
            rel = None
            for a in ANCHOR_FILES:
                if fn.endswith(a):
                    rel = a
            if rel is None:
                continue
            L = lines.setdefault(rel, {})
            B = branches.setdefault(rel, {})
            for ln in fobj['lines']:
                n = ln['line_number']
                L[n] = L.get(n, 0) + ln['count']
                if ln.get('branches'):
                    cur = B.get(n)
                    bc = [b['count'] for b in ln['branches'] if not b.get('throw')]     # exception edges of calls are not decisions
                    if not bc:
                        continue
                    if cur is None or len(cur) != len(bc):
                        if cur is None or sum(1 for x in bc if x) > sum(1 for x in cur if x):
                            B[n] = bc
                    else:
                        B[n] = [a_ + b_ for a_, b_ in zip(cur, bc)]
            Fm = funcs.setdefault(rel, {})
            for fu in fobj['functions']:
                k = (fu.get('demangled_name') or fu['name'], fu['start_line'], fu['end_line'])
                Fm[k] = Fm.get(k, 0) + fu['execution_count']
    summary = {'label': label, 'files': {}}
    tot_l = tot_lc = tot_b = tot_bc = 0
    md = ['# C04 coverage of the anchored code (%s)\n' % label,
          'Stream: the quick-tier input stream of `checks/c04.py` (corpus + 120 generated cases, two real runs each) on a `--coverage -O0` build of',
          'the recording driver; `gcov-12 -b -c` per TU, merged per (file, line) over the TUs and template instantiations; exception edges (`throw` branches of calls) are not counted as branches.\n',
          '| file | lines | line cov | branches | branch cov |', '|---|---|---|---|---|']
    for a in ANCHOR_FILES:
        L, B = lines.get(a, {}), branches.get(a, {})
        nl, nlc = len(L), sum(1 for v in L.values() if v)
        nb, nbc = sum(len(v) for v in B.values()), sum(1 for v in B.values() for x in v if x)
        tot_l += nl; tot_lc += nlc; tot_b += nb; tot_bc += nbc
        summary['files'][a] = {'lines': nl, 'lines_covered': nlc, 'branches': nb, 'branches_covered': nbc}
        md.append('| %s | %d | %s | %d | %s |' % (a, nl, '%.1f%%' % (100.0 * nlc / nl) if nl else 'n/a', nb, '%.1f%%' % (100.0 * nbc / nb) if nb else 'n/a'))
    summary['anchor_line_cov'] = round(100.0 * tot_lc / max(1, tot_l), 1)
    summary['anchor_branch_cov'] = round(100.0 * tot_bc / max(1, tot_b), 1)
    md.append('| **all anchored files** | %d | **%.1f%%** | %d | **%.1f%%** |\n' % (tot_l, summary['anchor_line_cov'], tot_b, summary['anchor_branch_cov']))
    # mechanism functions
    md.append('## Uncovered functions / lines / branches inside the mechanism code\n')
    mech_l = mech_lc = mech_b = mech_bc = 0
    for a in ANCHOR_FILES:
        src = open(os.path.join(REPO, a), errors='replace').read().split('\n')
        full = any(a.endswith(m) for m in MECH_FILES_FULL)
        L, B = lines.get(a, {}), branches.get(a, {})
        ranges = {}
        for (name, s_, e_), cnt in funcs.get(a, {}).items():
            if full or any(m in name for m in MECH_FUNCS):
                r = ranges.setdefault((s_, e_), [name, 0])
                r[1] += cnt
        if not ranges:
            continue
        md.append('### %s\n' % a)
        seen = set()
        for (s_, e_), (name, cnt) in sorted(ranges.items()):
            short = name if len(name) < 150 else name[:150] + '…'
            fl = [n for n in L if s_ <= n <= e_ and n not in seen]
            seen.update(fl)
            unc = [n for n in fl if not L[n]]
            ub = [(n, [i for i, x in enumerate(B[n]) if not x]) for n in sorted(B) if s_ <= n <= e_ and any(not x for x in B[n])]
            mech_l += len(fl); mech_lc += len(fl) - len(unc)
            mech_b += sum(len(B[n]) for n in B if s_ <= n <= e_); mech_bc += sum(1 for n in B if s_ <= n <= e_ for x in B[n] if x)
            if cnt == 0:
                md.append('* **never called** `%s` (lines %d-%d)' % (short, s_, e_))
            elif unc or ub:
                md.append('* `%s` (lines %d-%d): uncovered lines %s; lines with an untaken branch outcome %s' % (short, s_, e_, unc or '-', [n for n, _ in ub] or '-'))
                for n in unc[:6]:
                    md.append('    - %d: `%s`' % (n, src[n - 1].strip()[:110]))
        md.append('')
    summary['mechanism_line_cov'] = round(100.0 * mech_lc / max(1, mech_l), 1)
    summary['mechanism_branch_cov'] = round(100.0 * mech_bc / max(1, mech_b), 1)
    md.insert(8 + len(ANCHOR_FILES), 'Mechanism code only (functions of `anchors.mechanism` + the whole of valcvt*.h, range_con.h, backend_flat.h): line **%.1f%%**, branch **%.1f%%**.\n'
              % (summary['mechanism_line_cov'], summary['mechanism_branch_cov']))
    os.makedirs(os.path.join(VERIF, 'design_notes', 'coverage'), exist_ok=True)
    open(os.path.join(VERIF, 'design_notes', 'coverage', 'C04-%s.md' % label), 'w').write('\n'.join(md) + '\n')
    json.dump(summary, open(os.path.join(VERIF, 'design_notes', 'coverage', 'C04-%s.json' % label), 'w'), indent=1)
    ck.log('coverage (%s): anchored files line %.1f%% branch %.1f%%; mechanism code line %.1f%% branch %.1f%%' %
           (label, summary['anchor_line_cov'], summary['anchor_branch_cov'], summary['mechanism_line_cov'], summary['mechanism_branch_cov']))
    return summary

"""C01 round 5 — tie of the Lean reference converter `convert` (lean/MpVerif/C01/ModelConvert.lean, builder C01b) to the real converter.

For generated NL models INSIDE the fragment of design_notes/C01-proofs.md "Round 5: reference converter" the real converter's
flat model (all-accepted run: definitions with contexts) and delivered model (run with the acceptance set) are compared with
the output of `drv_c01 convert` after canonicalisation (terms merged/sorted by variable, rows sorted; auxiliary/result variable
numbering must coincide — creation order is part of the specification).  A disagreement is classified with the exact projection
oracle of the end-to-end stage on the REAL delivered model: oracle failure => property failure; oracle fine => model drift of
`convert` (to be given back to the proofs side) — unless the reference converter itself flagged a shortcut (not compared, counted)."""
import os, sys, json, re
from fractions import Fraction as F
from common import *
import recsolver
sys.path.insert(0, os.path.join(VERIF, 'gen'))
import nlgen
from nlgen import Model, Rng

NATIVE = ['LinConRange', 'LinConLE', 'LinConEQ', 'LinConGE', 'AbsConstraint', 'MinConstraint', 'MaxConstraint', 'AndConstraint',
          'OrConstraint', 'NotConstraint', 'IfThenConstraint', 'CondLinConLT', 'CondLinConLE', 'CondLinConEQ', 'CondLinConGE',
          'CondLinConGT', 'CountConstraint']
LINEAR = ['LinConRange', 'LinConLE', 'LinConEQ', 'LinConGE']
# run that shows the flat model (definitions with their contexts): the fragment's types + the linear functional constraint accepted;
# quadratic types stay unaccepted (with QuadConLE accepted, abs(x) <= 0 is rewritten to x*x <= 0: an acceptance-dependent path)
FLAT = NATIVE + ['LinearFunctionalConstraint']


def q2s(q):
    q = F(q)
    return str(q.numerator) if q.denominator == 1 else '%d/%d' % (q.numerator, q.denominator)


# ------------------------------------------------------------------ expressions: spec grammar <-> nlgen
def to_line(e):
    k = e[0]
    if k == 'c':
        return 'c' + q2s(e[1])
    if k == 'v':
        return 'v%d' % e[1]
    if k in ('add', 'max', 'min', 'count', 'and', 'or'):
        return '%s(%s)' % (k, ','.join(to_line(a) for a in e[1]))
    if k == 'mul':
        return 'mul(%s,%s)' % (q2s(e[1]), to_line(e[2]))
    if k in ('neg', 'abs', 'not'):
        return '%s(%s)' % (k, to_line(e[1]))
    if k == 'ite':
        return 'ite(%s,%s,%s)' % tuple(to_line(a) for a in e[1:])
    if k in ('le', 'ge', 'lt', 'gt', 'eq', 'iff'):
        return '%s(%s,%s)' % (k, to_line(e[1]), to_line(e[2]))
    raise ValueError(k)


def to_nl(e):
    k = e[0]
    if k == 'c':
        return ('n', F(e[1]))
    if k == 'v':
        return ('v', e[1])
    if k == 'add':
        xs = [to_nl(a) for a in e[1]]
        if len(xs) == 1:
            return xs[0]
        if len(xs) == 2:
            return ('+', xs[0], xs[1])
        return ('sum', xs)
    if k == 'neg':
        return ('neg', to_nl(e[1]))
    if k == 'mul':
        return ('*', ('n', F(e[1])), to_nl(e[2]))
    if k == 'abs':
        return ('abs', to_nl(e[1]))
    if k in ('max', 'min'):
        return (k, [to_nl(a) for a in e[1]])
    if k == 'ite':
        return ('if', to_nl(e[1]), to_nl(e[2]), to_nl(e[3]))
    if k == 'count':
        return ('count', [to_nl(a) for a in e[1]])
    if k in ('le', 'ge', 'lt', 'gt', 'eq', 'iff'):
        return (k, to_nl(e[1]), to_nl(e[2]))
    if k in ('and', 'or'):          # the NL format needs >= 3 arguments for forall/exists: two arguments = the binary operator
        xs = [to_nl(a) for a in e[1]]
        return (k, xs[0], xs[1]) if len(xs) == 2 else ({'and': 'forall', 'or': 'exists'}[k], xs)
    if k == 'not':
        return ('not', to_nl(e[1]))
    raise ValueError(k)


# ------------------------------------------------------------------ generator of fragment models
class FragGen:
    def __init__(self, rng, tame=False):
        self.rng = rng
        self.tame = tame    # avoid the inputs the reference converter flags as preprocessing shortcuts (sign-determined abs argument,
        self.vars = []      #   comparison rhs outside the body's range, nested and/or, constant comparisons, binary var == const)

    def make_vars(self):
        rng = self.rng
        ncont = 0 if rng.chance(2, 3) else rng.rint(1, 2)
        nint = rng.rint(2, 4)
        for _ in range(ncont):         # continuous first: NL order = model order
            lo = F(rng.rint(-6, 4), rng.choice([1, 2]))
            self.vars.append((lo, lo + F(rng.rint(1, 8), rng.choice([1, 2])), False))
        for _ in range(nint):
            if rng.chance(1, 3 if not self.tame else 5):
                self.vars.append((F(0), F(1), True))
            elif self.tame:
                self.vars.append((F(-rng.rint(1, 3)), F(rng.rint(1, 3)), True))
            else:
                lo = rng.rint(-3, 2)
                self.vars.append((F(lo), F(lo + rng.rint(1, 4)), True))
        self.ints = [i for i, v in enumerate(self.vars) if v[2]]
        self.conts = [i for i, v in enumerate(self.vars) if not v[2]]

    def num(self, d, intonly):
        rng = self.rng
        if d <= 0 or rng.chance(1, 4):
            if rng.chance(1, 6):
                return ('c', F(rng.rint(-3, 4)))
            pool = self.ints if (intonly or not self.conts or rng.chance(2, 3)) else self.conts
            return ('v', rng.choice(pool))
        k = rng.below(9)
        if k == 0:
            return ('add', [self.num(d - 1, intonly) for _ in range(rng.rint(2, 3))])
        if k == 1:
            return ('neg', self.num(d - 1, intonly))
        if k == 2:
            c = F(rng.choice([2, -1, 3, -2])) if intonly or rng.chance(2, 3) else F(rng.choice([1, 3, -1]), 2)
            return ('mul', c, self.num(d - 1, intonly))
        if k == 3:
            return ('abs', self.num(d - 1, intonly))
        if k == 4:
            return ('max', [self.num(d - 1, intonly) for _ in range(rng.rint(2, 3))])
        if k == 5:
            return ('min', [self.num(d - 1, intonly) for _ in range(rng.rint(2, 3))])
        if k == 6:
            return ('ite', self.log(d - 1), self.num(d - 1, intonly), self.num(d - 1, intonly))
        if k == 7:
            return ('count', [self.log(d - 1) for _ in range(rng.rint(2, 3))])
        return ('add', [self.num(d - 1, intonly), ('c', F(rng.rint(-2, 3)))])

    def log(self, d, parent=None):
        rng = self.rng
        if d <= 0 or rng.chance(1, 2):
            rel = rng.choice(['le', 'ge', 'lt', 'gt', 'eq', 'le', 'ge'])
            if self.tame:
                wide = [i for i in self.ints if self.vars[i][1] - self.vars[i][0] >= 2] or self.ints
                a = rng.choice(wide)
                if len(wide) > 1 and rng.chance(1, 2):
                    b = rng.choice([i for i in wide if i != a])
                    lhs = ('v', a) if rng.chance(2, 3) else ('add', [('v', a), ('c', F(rng.rint(-1, 1)))])
                    return (rel, lhs, ('v', b))
                lo, hi = self.vars[a][0], self.vars[a][1]
                return (rel, ('v', a), ('c', F(rng.rint(int(lo), int(hi)))))
            return (rel, self.num(max(d - 1, 0), True), self.num(0, True) if rng.chance(1, 2) else ('c', F(rng.rint(-2, 4))))
        k = rng.below(4)
        if self.tame and ((k == 0 and parent == 'and') or (k == 1 and parent == 'or')):
            k = 2
        if k == 3:                  # equivalence of two logical expressions (round 7: `iff` is in the fragment of `convert`)
            return ('iff', self.log(d - 1, 'iff'), self.log(d - 1, 'iff'))
        if k == 0:
            return ('and', [self.log(d - 1, 'and') for _ in range(rng.rint(2, 3))])
        if k == 1:
            return ('or', [self.log(d - 1, 'or') for _ in range(rng.rint(2, 3))])
        return ('not', self.log(d - 1, 'not'))

    def model_unbounded(self):
        """refusal family: a tame model in which one integer variable compared somewhere is unbounded on one or both sides: under the
        all-linear acceptance set the indicator -> big-M step has no finite M and the converter must refuse (cvt:bigM unset)"""
        rng = self.rng
        self.tame = True
        self.make_vars()
        a = rng.choice(self.ints)
        self.inf = {a: rng.choice([(False, True), (True, False), (True, True)])}
        lo, hi = self.vars[a][0], self.vars[a][1]
        cmp1 = (rng.choice(['le', 'ge', 'lt', 'gt']), ('v', a), ('c', F(rng.rint(int(lo), int(hi)))))
        others = [i for i in self.ints if i != a]
        cmp2 = self.log(0)
        cons, lcons, obj = [], [], None
        shape = rng.below(3)
        if shape == 0:
            cons.append((('add', [('count', [cmp1, cmp2]), ('v', rng.choice(others or self.ints))]), F(rng.rint(0, 2)), None))
        elif shape == 1:
            cons.append((('add', [('ite', cmp1, self.num(0, True), self.num(0, True)), ('v', rng.choice(others or self.ints))]), None, F(rng.rint(0, 3))))
        else:
            lcons.append(('or', [cmp1, cmp2]))
        if rng.chance(1, 2):
            obj = (rng.choice(['min', 'max']), self.num(1, False))
        return cons, lcons, obj

    def model_levels(self):
        """a continuous variable compared with two dyadic non-integer constants that share the integer part (1/4 and 3/4 ...): two different
        entries of the converter's var==const map; at most one of them in a negative/mixed context (otherwise the converter refuses)"""
        rng = self.rng
        self.tame = True
        base = rng.rint(-1, 1)
        self.vars = [(F(base), F(base + 1), False), (F(0), F(3), True), (F(0), F(1), True)]
        self.ints, self.conts = [1, 2], [0]
        self.quarter_grid = True
        fr = rng.choice([(1, 3), (1, 2), (2, 3), (3, 1), (2, 1)])
        e1 = ('eq', ('v', 0), ('c', F(base) + F(fr[0], 4)))
        e2 = ('eq', ('v', 0), ('c', F(base) + F(fr[1], 4)))
        X = (rng.choice(['ge', 'le']), ('v', 1), ('c', F(rng.rint(1, 2))))
        cons, lcons, obj = [], [], None
        lcons.append(('or', [e1, e2]) if rng.chance(2, 3) else ('or', [e1, ('ge', ('v', 2), ('c', F(1)))]))
        second = rng.below(3)
        if second == 0:
            lcons.append(('or', [('not', e2), X]))
        elif second == 1:
            cons.append((('add', [('ite', e2, ('v', 1), ('c', F(rng.rint(0, 3)))), ('v', 2)]), F(rng.rint(0, 1)), F(rng.rint(2, 4))))
        else:
            obj = (rng.choice(['min', 'max']), ('add', [('mul', F(rng.choice([4, -4, 2])), ('count', [e2])), ('v', 1)]))
            cons.append((('add', [('v', 1), ('v', 2)]), None, F(rng.rint(2, 4))))
        return cons, lcons, obj

    def model_shared_nested(self):
        """shapes of the open finding C01-result-var-usage-count: an or/and used twice through the expression map, once as a direct
        argument of a parent of the same type (cvt:pre:unnest inlines it there and marks it unused) and once somewhere else"""
        rng = self.rng
        self.tame = True
        self.make_vars()
        if rng.chance(1, 4):
            # variant (found by C01-oracle, round 6): a fixed-true `and` is removed and its variable set to 0..0 (FixUnusedDefinedVars)
            # while a natively accepted Not still reads it: not(not(and(a,b))) as a logical row
            lcons = [('not', ('not', ('and', [self.log(0), self.log(0)])))]
            cons = [(('add', [self.num(1, True), ('v', rng.choice(self.ints))]), None, F(rng.rint(2, 5)))] if rng.chance(1, 2) else []
            return cons, lcons, None
        op = rng.choice(['or', 'and'])
        inner = (op, [self.log(0), self.log(0)])
        parent = (op, [self.log(0), inner] if rng.chance(1, 2) else [inner, self.log(0)])
        other_use = rng.below(3)
        cons, lcons, obj = [], [], None
        if other_use == 0:
            cons.append((('add', [('ite', inner, self.num(0, True), self.num(0, True)), ('v', rng.choice(self.ints))]), F(rng.rint(-1, 1)), F(rng.rint(2, 4))))
        elif other_use == 1:
            cons.append((('add', [('count', [inner, self.log(0)]), ('v', rng.choice(self.ints))]), F(rng.rint(0, 1)), None))
        else:
            lcons.append(('not', inner) if rng.chance(1, 2) else ('or', [('not', inner), self.log(0)]))
        place = rng.below(3)
        if place == 0:
            obj = (rng.choice(['min', 'max']), ('count', [parent] + ([self.log(0)] if rng.chance(1, 2) else [])))
        elif place == 1:
            cons.append((('add', [('ite', parent, self.num(0, True), self.num(0, True)), ('v', rng.choice(self.ints))]), None, F(rng.rint(1, 4))))
        else:
            lcons.append(parent)
        return cons, lcons, obj

    def model(self, nolcons=False):
        """nolcons: logical expressions only inside if-then-else / count conditions (no logical rows)"""
        rng = self.rng
        self.make_vars()
        cons, lcons, obj = [], [], None
        for _ in range(rng.rint(1 if nolcons else 0, 2)):
            e = self.num(rng.rint(1, 2), False)
            if self.tame and rng.chance(2, 3):     # rows with two or more terms
                e = ('add', [e, ('v', rng.choice(self.ints + self.conts))] + ([('v', rng.choice(self.ints))] if rng.chance(1, 3) else []))
            c0 = F(rng.rint(-4, 8))
            pat = rng.below(4)
            lb, ub = [(None, c0), (c0, None), (c0, c0 + rng.rint(0, 3)), (c0, c0)][pat]
            cons.append((e, lb, ub))
        for _ in range(0 if nolcons else rng.rint(0, 2)):
            lcons.append(self.log(rng.rint(1, 2)))
        if not cons and not lcons:
            lcons.append(self.log(1))
        if rng.chance(1, 2) or nolcons:
            obj = (rng.choice(['min', 'max']), self.num(rng.rint(1, 2), False))
        return cons, lcons, obj


def build(frag, cons, lcons, obj):
    """nlgen Model + grids + the `convert` op line"""
    m = Model()
    grids = []
    inf = getattr(frag, 'inf', {})      # variable -> (lower side infinite, upper side infinite); the grid keeps the finite window
    for i, (lb, ub, isint) in enumerate(frag.vars):
        li, ui = inf.get(i, (False, False))
        m.var(None if li else lb, None if ui else ub, isint)
        if isint:
            grids.append([F(v) for v in range(int(lb), int(ub) + 1)])
        elif getattr(frag, 'quarter_grid', False):
            grids.append([lb + F(k, 4) for k in range(int((ub - lb) * 4) + 1)])
        else:
            g = sorted({lb, ub, (lb + ub) / 2, F(int(lb) + 1) if int(lb) + 1 < ub else ub})
            grids.append(g)
    for e, lb, ub in cons:
        m.con(lb, ub, nl=to_nl(e))
    for l in lcons:
        m.lcon(to_nl(l))
    if obj:
        m.obj(obj[0], nl=to_nl(obj[1]))
    B = ';'.join('%d:%s:%s:%d' % (i, '-inf' if inf.get(i, (0, 0))[0] else q2s(lb), 'inf' if inf.get(i, (0, 0))[1] else q2s(ub), int(isint))
                 for i, (lb, ub, isint) in enumerate(frag.vars))

    def bnd(x, lower):
        return ('-inf' if lower else 'inf') if x is None else q2s(x)
    line = 'convert n0=%d B=%s cons=%s lcons=%s' % (len(frag.vars), B, '|'.join('%s;%s;%s' % (to_line(e), bnd(lb, True), bnd(ub, False)) for e, lb, ub in cons),
                                                   '|'.join(to_line(l) for l in lcons))
    if obj:
        line += ' obj=%s;%s' % (obj[0], to_line(obj[1]))
    return m, grids, line


# ------------------------------------------------------------------ canonical form of the real converter's output
import c01_gadgets as G


def canon_terms(t):
    """'c*v,c*v' -> merged by variable, sorted by variable, zero terms dropped (what LinTerms::sort_terms may or may not have done)"""
    if t == '':
        return ''
    acc = {}
    for term in t.split(','):
        c, v = term.split('*')
        acc[int(v)] = acc.get(int(v), F(0)) + F(c)
    return ','.join('%s*%d' % (q2s(c), v) for v, c in sorted(acc.items()) if c != 0)


def canon_row(s):
    """canonical form of a conStr row: linear bodies merged/sorted"""
    t = s.split(' ')
    if t[0].startswith('LinCon') and len(t) >= 3:
        t[1] = canon_terms(t[1])
    elif t[0].startswith('IndicatorLinCon') and len(t) >= 5:
        t[3] = canon_terms(t[3])
    elif t[0] == 'F' and len(t) >= 5 and t[3] in ('Affine',) :
        t[4] = canon_terms(t[4])
    elif t[0] == 'F' and len(t) >= 5 and t[3].startswith('CondLin'):
        t[4] = canon_terms(t[4])
    return ' '.join(t)


def canon_def(d):
    """'res;ctx;Kind;fields…' with linear fields merged/sorted"""
    f = d.split(';')
    if len(f) >= 4 and f[2] == 'Affine':
        f[3] = canon_terms(f[3])
    if len(f) >= 4 and f[2].startswith('CondLin'):
        f[3] = canon_terms(f[3])
    return ';'.join(f)


def real_side(exe, stub, n0, acc, opts):
    """flat model (all-accepted run) and delivered model (run with the acceptance set `acc`) of the real converter, canonical"""
    ra = recsolver.run(exe, stub, options=opts, accept=FLAT)
    rd = recsolver.run(exe, stub, options=opts, accept=acc)
    out = {'okA': ra['rc'] == 0 and any(e.get('ev') == 'end' for e in ra['log']),
           'okD': rd['rc'] == 0 and any(e.get('ev') == 'end' for e in rd['log']), 'rd': rd, 'ra': ra}
    if not out['okA']:
        out['refusalA'] = G.refusal_seen(ra) or ((ra.get('sol') or '') + ra['err'])[-200:]
        return out
    vsA = G.vars_of(ra['log'])
    defs = []
    defined = set()
    for e in ra['log']:
        if e.get('ev') != 'con':
            continue
        d = e['data']
        if isinstance(d, dict) and d.get('res', -1) >= 0 and 'ctx' in d:
            cs = G.con_s(e)
            if cs.startswith('OTHER'):
                defs.append((d['res'], '%d;%s;OTHER;%s' % (d['res'], d['ctx'], e['type'])))
                continue
            t = cs.split(' ')
            kind, fields = t[3], t[4:]
            defs.append((int(t[1]), canon_def(';'.join([t[1], t[2], kind] + fields))))
            defined.add(int(t[1]))
    # fixed variables without a definition: MakeFixedVar constants (continuous) and the results of removed definitions (and fixed true /
    # or fixed false: FixUnusedDefinedVars leaves 0..0, integer); both appear as `res;Const;value` (the type is compared in |V|)
    consts = {i: v[0] for i, v in enumerate(vsA) if i >= n0 and i not in defined and v[0] is not None and v[0] == v[1]}
    out['D'] = [t for _, t in sorted(defs)]
    out['consts'] = consts
    out['N'] = len(vsA)
    out['VA'] = ['%d:%s' % (i, G.vi_s(v)) for i, v in enumerate(vsA) if i >= n0]
    out['RA'] = sorted(canon_row(G.con_s(e)) for e in ra['log'] if e.get('ev') == 'con' and e['type'].startswith('LinCon'))
    if not out['okD']:
        out['refusalD'] = G.refusal_seen(rd) or ((rd.get('sol') or '') + rd['err'])[-200:]
        return out
    vsD = G.vars_of(rd['log'])
    out['M'] = len(vsD)
    out['V'] = ['%d:%s' % (i, G.vi_s(v)) for i, v in enumerate(vsD) if i >= n0]
    out['C'] = sorted(canon_row(G.con_s(e)) for e in rd['log'] if e.get('ev') == 'con')
    objs = [e for e in rd['log'] if e.get('ev') == 'obj']
    out['O'] = ''
    if objs:
        o = objs[0]
        out['O'] = '%s;%s' % (o['sense'], canon_terms(G.lin_s(o['lin'])))
        if o.get('kind') == 'quad' and o['quad']['c']:
            out['O'] += ';quad'
    return out


def parse_conv(ans):
    """answer of `drv_c01 convert` -> dict(kind, N, M, shortcut, V[], D[], R[], O, C[])"""
    if ans.startswith('refusal') or ans.startswith('outside') or ans == 'bad-op':
        return {'kind': ans.split(' ')[0], 'what': ans}
    if not ans.startswith('conv '):
        return {'kind': 'bad', 'what': ans[:200]}
    head, *_ = ans.split('|V|', 1)
    m = re.match(r'conv N=(\d+) M=(\d+) shortcut=(\d)(?: infragment=(\d))?(?: checks=(\d))?', head.strip())
    if not m:
        return {'kind': 'bad', 'what': ans[:200]}
    rest = ans[len(head):]
    mw = re.search(r' why=(\S*)', head)
    why = [w for w in (mw.group(1).split(',') if mw else []) if w]
    sec = {}
    for key, nxt in (('|V|', '|D|'), ('|D|', '|R|'), ('|R|', '|O|'), ('|O|', '|C|'), ('|C|', None)):
        i = rest.index(key) + len(key)
        j = rest.index(nxt) if nxt else len(rest)
        sec[key] = rest[i:j].strip()
    return {'kind': 'conv', 'N': int(m.group(1)), 'M': int(m.group(2)), 'shortcut': m.group(3) == '1', 'infragment': m.group(4) != '0' and m.group(5) != '0', 'why': why,
            'V': [v for v in sec['|V|'].split(';') if v], 'D': [canon_def(d) for d in sec['|D|'].split('|') if d],
            'R': [r for r in sec['|R|'].split('|') if r], 'O': sec['|O|'],
            'C': sorted(canon_row(c.strip()) for c in sec['|C|'].split(' ; ') if c.strip())}


def merge_defs(r):
    """definitions of the real flat model in creation order (= result-variable order), constants as `res;Const;q` (variables carry
    no context in the log, so the context of a constant is not compared)"""
    d = {int(t.split(';')[0]): t for t in r['D']}
    for v, c in r['consts'].items():
        d[v] = '%d;Const;%s' % (v, q2s(c))
    return [d[k] for k in sorted(d)]


def strip_const_ctx(ds):
    out = []
    for t in ds:
        f = t.split(';')
        out.append('%s;Const;%s' % (f[0], f[3]) if len(f) >= 4 and f[2] == 'Const' else t)
    return out


# ------------------------------------------------------------------ the stream
EPS_Q = '1/8192'
EPS_OPT = 'cvt:cmp:eps=0.0001220703125'
SECTIONS = ('N', 'D', 'M', 'V', 'C', 'O')


def compare(c, r):
    """sections on which the reference converter's answer `c` and the real converter's canonical output `r` differ"""
    diffs = []
    if c['N'] != r['N']:
        diffs.append('N')
    if strip_const_ctx(c['D']) != merge_defs(r):
        diffs.append('D')
    if c['M'] != r['M']:
        diffs.append('M')
    if c['V'] != r['V']:
        diffs.append('V')
    if c['C'] != r['C']:
        diffs.append('C')
    if c['O'] != r['O']:
        diffs.append('O')
    return diffs


def diff_class(c, r, diffs):
    """coarse class of a disagreement (for the report): which definition kinds / row kinds differ"""
    if 'D' in diffs or 'N' in diffs:
        a, b = strip_const_ctx(c['D']), merge_defs(r)
        kinds = set()
        for x, y in zip(a, b):
            if x != y:
                fx, fy = x.split(';'), y.split(';')
                kx = fx[2] if len(fx) > 2 and fx[1] != 'Const' else 'Const'
                ky = fy[2] if len(fy) > 2 and fy[1] != 'Const' else 'Const'
                if kx == ky or (kx.startswith('CondLin') and ky.startswith('CondLin')):
                    what = 'ctx' if fx[2:] == fy[2:] else ('cmp-normalisation' if kx.startswith('CondLin') else 'fields')
                    kinds.add('%s:%s' % (kx[:7] if kx.startswith('CondLin') else kx, what))
                else:
                    kinds.add('kind:%s/%s' % (kx, ky))
                break
        if len(a) != len(b) and not kinds:
            kinds.add('def-count')
        return 'flat:' + ','.join(sorted(kinds))
    if 'V' in diffs or 'M' in diffs:
        return 'delivered:var-bounds-or-aux' + ('+rows' if 'C' in diffs else '')
    if 'C' in diffs:
        return 'delivered:rows'
    return 'delivered:objective'


def oracle_full(m, grids, rd, budget_s=8.0):
    """exact projection oracle of the end-to-end stage on the REAL delivered model: ('ok' | 'fail:<dir>' | 'na:<why>', first failure or None)"""
    import c01
    cl = c01.classify_run(rd)
    if cl[0] != 'delivered':
        return 'na:' + cl[0], None
    D = cl[1]
    if D.unsupported or D.inexact:
        return 'na:unsupported', None
    res = c01.check_equiv(m, grids, D, {'eps': EPS_Q, 'sos': 0}, budget_s=budget_s)
    if res['failures']:
        return 'fail:' + res['failures'][0]['dir'], res['failures'][0]
    return 'ok', None


def oracle_says(m, grids, rd, budget_s=8.0):
    return oracle_full(m, grids, rd, budget_s)[0]


# enforced = (model, acceptance set) pairs on which the reference converter claims to mirror the real one (shortcut=0, inside its
# fragment predicate) or refuses.  Floor on enforced/pairs: what the unchanged tree gives (see design notes, round 6) minus a margin;
# flagging more inputs as shortcut on the Lean side, or a generator drifting out of the fragment, falls below it.
ENFORCED_FLOOR = 0.45
# (was pending on the Lean side until 032a60f: resBnd of min/max with an infinite bound) switch kept for bisecting: when False the
# native half of the refusal family is compared and counted like a flagged pair
REFUSAL_FAMILY_NATIVE_ENFORCED = True
FAMILIES = ('regular', 'refusal', 'shared-nested', 'levels')


def e2e_signature(exe, m, grids, acc, wd, f0):
    """the end-to-end stage's own diagnosis (counterfactual repair on the reformulation graph) of a failing model: the signature that
    known_findings.json matches.  -> (sig or None, info, case)"""
    import c01, c01gen
    case = {'model': c01gen.model_to_json(m, grids), 'cfg': {'accept': list(acc), 'options': [EPS_OPT], 'quadobj': 1, 'eps': EPS_Q, 'sos': 0},
            'id': 'refconv', 'profile': 'refconv'}
    wdir = os.path.join(wd, 'e2e')
    os.makedirs(wdir, exist_ok=True)
    try:
        sig, info = c01.diagnose(exe, case, wdir, f0)
        return sig, c01._jsonable(info), case
    except Exception as ex:
        return None, {'diagnose_exception': repr(ex)[:200]}, case


def run_refconv(ck, drv, exe, n_models, seed_base, wd, log=None):
    """compare `convert` with the real converter on exactly n_models generated fragment models x {native, linear}.
    Families: regular (two strata), refusal (an unbounded compared integer variable), shared-nested (shapes of C01-result-var-usage-count).
    -> stats dict with 'violations': [{'sig','what','replay','found'}]"""
    import collections
    import c01
    st = {'models': 0, 'pairs': 0, 'enforced': 0, 'compared': 0, 'agree': 0, 'shortcut': 0, 'flagged_agree': 0, 'flagged_differ': 0,
          'flagged_oracle_runs': 0, 'flagged_oracle_fail': 0, 'flagged_fail_sigs': {}, 'flagged_why': {}, 'outside': 0, 'outside_fragment_predicate': 0, 'bad': 0,
          'ref_refusal': 0, 'real_refusal': 0, 'refusal_agree': 0, 'disagree': 0, 'drift': 0,
          'classes': collections.Counter(), 'examples': {}, 'violations': [],
          'by_acc': {'native': [0, 0], 'linear': [0, 0]},
          'by_stratum': {'no-logical-rows': [0, 0], 'logical-rows': [0, 0]},
          'by_family': {f: {'pairs': 0, 'enforced': 0, 'agree': 0, 'flagged': 0, 'oracle_fail': 0} for f in FAMILIES},
          'def_kinds': {}, 'with_aux_vars': 0, 'with_iff': 0, 'rows_compared': 0, 'real_refusal_kinds': {}, 'enforced_floor': ENFORCED_FLOOR}
    stub = os.path.join(wd, 'rc')
    oracle_cap = 6 if ck.tier == 'quick' else 150       # flagged-and-different pairs checked with the exact oracle (regular family)
    sig_cap = 60 if ck.tier == 'quick' else 600          # failing models passed to the end-to-end diagnosis
    nsig = 0

    def viol(sig, what, replay, found):
        st['violations'].append({'sig': sig, 'what': what, 'replay': replay, 'found': found})

    for k in range(n_models):
        rng = Rng(seed_base * 100003 + k)
        fam = 'refusal' if k % 10 == 8 else ('shared-nested' if k % 15 == 14 else ('levels' if k % 15 == 7 else 'regular'))
        g = FragGen(rng, tame=(k % 4 != 3))
        if fam == 'refusal':
            cons, lcons, obj = g.model_unbounded()
        elif fam == 'shared-nested':
            cons, lcons, obj = g.model_shared_nested()
        elif fam == 'levels':
            cons, lcons, obj = g.model_levels()
        else:
            cons, lcons, obj = g.model(nolcons=(k % 2 == 0))
        stratum = 'logical-rows' if lcons else 'no-logical-rows'
        m, grids, line = build(g, cons, lcons, obj)
        st['models'] += 1
        m.write(stub, names=False)
        if m.perm != list(range(len(m.vars))):
            viol('refconv-harness', 'nlgen permuted the variables of a fragment model: ' + line, {}, False)
            continue
        for accn, acc in (('native', NATIVE), ('linear', LINEAR)):
            st['pairs'] += 1
            fs = st['by_family'][fam]
            fs['pairs'] += 1
            opline = '%s eps=%s acc=%s' % (line, EPS_Q, accn)
            c = parse_conv(drv.ask(opline))
            if c['kind'] in ('bad', 'bad-op'):
                st['bad'] += 1
                viol('refconv-driver', 'drv_c01 convert answered %r on: %s' % (c.get('what'), opline), {'line': opline}, False)
                continue
            if c['kind'] == 'outside':
                st['outside'] += 1
                continue
            if c['kind'] == 'conv' and not c['infragment']:
                st['outside_fragment_predicate'] += 1
                continue
            r = real_side(exe, stub, len(m.vars), acc, [EPS_OPT])
            real_ref = (not r['okA']) or (not r['okD'])
            real_kind = None
            if real_ref:
                st['real_refusal'] += 1
                cl = c01.classify_run(r['rd'] if r['okA'] else r['ra'])
                real_kind = cl[1] if cl[0] == 'refused' else cl[0]
                st['real_refusal_kinds'][real_kind] = st['real_refusal_kinds'].get(real_kind, 0) + 1
            flagged = c['kind'] == 'conv' and (c['shortcut'] or (fam == 'refusal' and accn == 'native' and not REFUSAL_FAMILY_NATIVE_ENFORCED))
            ex = {'line': opline, 'family': fam}
            if flagged:
                # the reference converter says the real one takes a path it does not mirror: compared and counted, not enforced -
                # but the property itself is still checked on (a sample of) the pairs that differ
                st['shortcut'] += 1
                fs['flagged'] += 1
                for w in (c.get('why') or ['harness-gate' if not c.get('shortcut') else 'unspecified']):
                    st['flagged_why'][w] = st['flagged_why'].get(w, 0) + 1
                same = (not real_ref) and not compare(c, r)
                st['flagged_agree'] += same
                if same and fam not in ('shared-nested', 'levels'):
                    continue
                st['flagged_differ'] += not same
                if real_ref or not (fam in ('shared-nested', 'levels') or st['flagged_oracle_runs'] < oracle_cap):
                    continue
                st['flagged_oracle_runs'] += 1
                verdict, f0 = oracle_full(m, grids, r['rd'], budget_s=4.0)
                if not verdict.startswith('fail'):
                    continue
                st['flagged_oracle_fail'] += 1
                fs['oracle_fail'] += 1
                sig, what, rep = 'refconv-property:flagged:' + verdict[5:], 'real delivered model fails the exact oracle (%s) on %s' % (verdict, opline), ex
                if nsig < sig_cap:
                    nsig += 1
                    dsig, info, case = e2e_signature(exe, m, grids, acc, wd, f0)
                    if dsig:
                        sig = dsig
                        what = '%s at point %s: %s [fragment model of the reference-converter stream, family %s, flagged shortcut by the reference: %s]' % (
                            f0.get('dir'), c01._jsonable(f0.get('point')), f0.get('what'), fam, opline)
                        rep = {'line': opline, 'family': fam, 'options': case['cfg']['options'], 'accept': case['cfg']['accept'],
                               'point': c01._jsonable(f0.get('point')), 'direction': f0.get('dir'), 'aux_witness': c01._jsonable(f0.get('witness')),
                               'diagnosis': info, 'case': case, 'how': 'python3 checks/c01.py --replay <this file>'}
                st['flagged_fail_sigs'][sig] = st['flagged_fail_sigs'].get(sig, 0) + 1
                viol(sig, what, rep, True)
                continue
            # ---- enforced pair
            st['enforced'] += 1
            fs['enforced'] += 1
            if c['kind'] == 'refusal' or real_ref:
                st['ref_refusal'] += c['kind'] == 'refusal'
                want = {'refusal IndicatorInfBound': 'bigM-unbounded', 'refusal infeasible': 'infeasible-claimed'}.get(c.get('what'))
                if c['kind'] == 'refusal' and real_ref and (want is None or real_kind == want):
                    st['refusal_agree'] += 1
                    fs['agree'] += 1
                    continue
                cls = 'refusal:%s/%s' % (c.get('what', 'delivers') if c['kind'] == 'refusal' else 'delivers', real_kind or 'delivers')
                diffs = ['refusal']
            else:
                st['compared'] += 1
                for dd in c['D']:
                    kd = dd.split(';')[2]
                    st['def_kinds'][kd] = st['def_kinds'].get(kd, 0) + 1
                st['with_aux_vars'] += c['M'] > c['N']
                st['with_iff'] += 'iff(' in line
                st['rows_compared'] += len(c['C'])
                st['by_acc'][accn][1] += 1
                st['by_stratum'][stratum][1] += 1
                diffs = compare(c, r)
                if not diffs:
                    st['agree'] += 1
                    fs['agree'] += 1
                    st['by_acc'][accn][0] += 1
                    st['by_stratum'][stratum][0] += 1
                    continue
                cls = diff_class(c, r, diffs)
            st['disagree'] += 1
            verdict, f0 = oracle_full(m, grids, r['rd']) if r.get('okD') else ('na:real-refusal', None)
            key = '%s|%s|%s|%s|oracle=%s' % (accn, fam, stratum, cls, verdict.split(':')[0])
            st['classes'][key] += 1
            ex.update({'diffs': diffs, 'oracle': verdict})
            for sct in diffs:
                if sct == 'D':
                    ex['D_ref'], ex['D_real'] = strip_const_ctx(c['D']), merge_defs(r)
                elif sct in ('V', 'C', 'O', 'N', 'M'):
                    ex[sct + '_ref'], ex[sct + '_real'] = c.get(sct), r.get(sct)
            st['examples'].setdefault(key, ex)
            if verdict.startswith('fail'):
                # the real delivered model is wrong on an input the proved reference converter claims to mirror: property failure
                sig, what, rep = 'refconv-property:' + cls, ('real delivered model fails the exact oracle (%s) and differs from the reference '
                                                             'converter `convert` in %s: %s' % (verdict, '+'.join(diffs), opline)), ex
                if nsig < sig_cap:
                    nsig += 1
                    dsig, info, case = e2e_signature(exe, m, grids, acc, wd, f0)
                    if dsig:
                        sig = dsig
                        what = '%s at point %s: %s [enforced pair of the reference-converter stream, differs in %s: %s]' % (
                            f0.get('dir'), c01._jsonable(f0.get('point')), f0.get('what'), '+'.join(diffs), opline)
                        rep = dict(ex, options=case['cfg']['options'], accept=case['cfg']['accept'], point=c01._jsonable(f0.get('point')),
                                   direction=f0.get('dir'), aux_witness=c01._jsonable(f0.get('witness')), diagnosis=info, case=case)
                viol(sig, what, rep, True)
            else:
                # oracle passes (or not applicable): the proved model no longer describes the code on this input (drift: repair the model)
                st['drift'] += 1
                viol('refconv-differs:' + cls, 'the reference converter `convert` (C01_convert_equiv) and the real converter disagree in %s on an '
                     'input the reference does not flag as shortcut (oracle on the real delivered model: %s): %s' % ('+'.join(diffs), verdict, opline),
                     ex, False)
    st['classes'] = dict(st['classes'])
    st['enforced_fraction'] = round(st['enforced'] / max(1, st['pairs']), 4)
    if st['models'] != n_models or st['pairs'] != 2 * n_models:
        viol('refconv:too-few-enforced', 'the reference-converter stream handled %d models / %d pairs instead of the %d / %d asked for'
             % (st['models'], st['pairs'], n_models, 2 * n_models), {}, False)
    if st['enforced'] < ENFORCED_FLOOR * st['pairs']:
        viol('refconv:too-few-enforced', 'only %d of %d (model, acceptance set) pairs (%.1f%%) are enforced comparisons (reference converter not '
             'flagging a shortcut and inside its fragment predicate); floor %.0f%%: the tie between C01_convert_equiv and the real converter '
             'would be hollow' % (st['enforced'], st['pairs'], 100.0 * st['enforced'] / max(1, st['pairs']), 100 * ENFORCED_FLOOR),
             {'shortcut': st['shortcut'], 'outside_fragment_predicate': st['outside_fragment_predicate'], 'by_family': st['by_family']}, False)
    if st['ref_refusal'] == 0 or st['refusal_agree'] == 0:
        viol('refconv:refusal-path-not-exercised', 'no refusal of the reference converter was compared with a refusal of the real converter '
             '(ref_refusal=%d, refusal_agree=%d)' % (st['ref_refusal'], st['refusal_agree']), {}, False)
    return st

"""C01 round 5 — tie of the Lean reference converter `convert` (lean/MpVerif/C01/ModelConvert.lean, builder C01b) to the real converter.

For generated NL models INSIDE the fragment of design_notes/C01-proofs.md "Round 5: reference converter" the real converter's
flat model (all-accepted run: definitions with contexts) and delivered model (run with the acceptance set) are compared with
the output of `drv_c01 convert` after canonicalisation (terms merged/sorted by variable, rows sorted; auxiliary/result variable
numbering must coincide — creation order is part of the specification).  A disagreement is classified with the exact projection
oracle of the end-to-end stage on the REAL delivered model: oracle failure => property failure; oracle fine => model drift of
`convert` (to be given back to the proofs side) — unless the reference converter itself flagged a shortcut (not compared, counted)."""
import os, sys, json, re
from fractions import Fraction as F
from common import *
import recsolver
sys.path.insert(0, os.path.join(VERIF, 'gen'))
import nlgen
from nlgen import Model, Rng

NATIVE = ['LinConRange', 'LinConLE', 'LinConEQ', 'LinConGE', 'AbsConstraint', 'MinConstraint', 'MaxConstraint', 'AndConstraint',
          'OrConstraint', 'NotConstraint', 'IfThenConstraint', 'CondLinConLT', 'CondLinConLE', 'CondLinConEQ', 'CondLinConGE',
          'CondLinConGT', 'CountConstraint']
LINEAR = ['LinConRange', 'LinConLE', 'LinConEQ', 'LinConGE']
# run that shows the flat model (definitions with their contexts): the fragment's types + the linear functional constraint accepted;
# quadratic types stay unaccepted (with QuadConLE accepted, abs(x) <= 0 is rewritten to x*x <= 0: an acceptance-dependent path)
FLAT = NATIVE + ['LinearFunctionalConstraint']


def q2s(q):
    q = F(q)
    return str(q.numerator) if q.denominator == 1 else '%d/%d' % (q.numerator, q.denominator)


# ------------------------------------------------------------------ expressions: spec grammar <-> nlgen
def to_line(e):
    k = e[0]
    if k == 'c':
        return 'c' + q2s(e[1])
    if k == 'v':
        return 'v%d' % e[1]
    if k in ('add', 'max', 'min', 'count', 'and', 'or'):
        return '%s(%s)' % (k, ','.join(to_line(a) for a in e[1]))
    if k == 'mul':
        return 'mul(%s,%s)' % (q2s(e[1]), to_line(e[2]))
    if k in ('neg', 'abs', 'not'):
        return '%s(%s)' % (k, to_line(e[1]))
    if k == 'ite':
        return 'ite(%s,%s,%s)' % tuple(to_line(a) for a in e[1:])
    if k in ('le', 'ge', 'lt', 'gt', 'eq'):
        return '%s(%s,%s)' % (k, to_line(e[1]), to_line(e[2]))
    raise ValueError(k)


def to_nl(e):
    k = e[0]
    if k == 'c':
        return ('n', F(e[1]))
    if k == 'v':
        return ('v', e[1])
    if k == 'add':
        xs = [to_nl(a) for a in e[1]]
        if len(xs) == 1:
            return xs[0]
        if len(xs) == 2:
            return ('+', xs[0], xs[1])
        return ('sum', xs)
    if k == 'neg':
        return ('neg', to_nl(e[1]))
    if k == 'mul':
        return ('*', ('n', F(e[1])), to_nl(e[2]))
    if k == 'abs':
        return ('abs', to_nl(e[1]))
    if k in ('max', 'min'):
        return (k, [to_nl(a) for a in e[1]])
    if k == 'ite':
        return ('if', to_nl(e[1]), to_nl(e[2]), to_nl(e[3]))
    if k == 'count':
        return ('count', [to_nl(a) for a in e[1]])
    if k in ('le', 'ge', 'lt', 'gt', 'eq'):
        return (k, to_nl(e[1]), to_nl(e[2]))
    if k in ('and', 'or'):          # the NL format needs >= 3 arguments for forall/exists: two arguments = the binary operator
        xs = [to_nl(a) for a in e[1]]
        return (k, xs[0], xs[1]) if len(xs) == 2 else ({'and': 'forall', 'or': 'exists'}[k], xs)
    if k == 'not':
        return ('not', to_nl(e[1]))
    raise ValueError(k)


# ------------------------------------------------------------------ generator of fragment models
class FragGen:
    def __init__(self, rng, tame=False):
        self.rng = rng
        self.tame = tame    # avoid the inputs the reference converter flags as preprocessing shortcuts (sign-determined abs argument,
        self.vars = []      #   comparison rhs outside the body's range, nested and/or, constant comparisons, binary var == const)

    def make_vars(self):
        rng = self.rng
        ncont = 0 if rng.chance(2, 3) else rng.rint(1, 2)
        nint = rng.rint(2, 4)
        for _ in range(ncont):         # continuous first: NL order = model order
            lo = F(rng.rint(-6, 4), rng.choice([1, 2]))
            self.vars.append((lo, lo + F(rng.rint(1, 8), rng.choice([1, 2])), False))
        for _ in range(nint):
            if rng.chance(1, 3 if not self.tame else 5):
                self.vars.append((F(0), F(1), True))
            elif self.tame:
                self.vars.append((F(-rng.rint(1, 3)), F(rng.rint(1, 3)), True))
            else:
                lo = rng.rint(-3, 2)
                self.vars.append((F(lo), F(lo + rng.rint(1, 4)), True))
        self.ints = [i for i, v in enumerate(self.vars) if v[2]]
        self.conts = [i for i, v in enumerate(self.vars) if not v[2]]

    def num(self, d, intonly):
        rng = self.rng
        if d <= 0 or rng.chance(1, 4):
            if rng.chance(1, 6):
                return ('c', F(rng.rint(-3, 4)))
            pool = self.ints if (intonly or not self.conts or rng.chance(2, 3)) else self.conts
            return ('v', rng.choice(pool))
        k = rng.below(9)
        if k == 0:
            return ('add', [self.num(d - 1, intonly) for _ in range(rng.rint(2, 3))])
        if k == 1:
            return ('neg', self.num(d - 1, intonly))
        if k == 2:
            c = F(rng.choice([2, -1, 3, -2])) if intonly or rng.chance(2, 3) else F(rng.choice([1, 3, -1]), 2)
            return ('mul', c, self.num(d - 1, intonly))
        if k == 3:
            return ('abs', self.num(d - 1, intonly))
        if k == 4:
            return ('max', [self.num(d - 1, intonly) for _ in range(rng.rint(2, 3))])
        if k == 5:
            return ('min', [self.num(d - 1, intonly) for _ in range(rng.rint(2, 3))])
        if k == 6:
            return ('ite', self.log(d - 1), self.num(d - 1, intonly), self.num(d - 1, intonly))
        if k == 7:
            return ('count', [self.log(d - 1) for _ in range(rng.rint(2, 3))])
        return ('add', [self.num(d - 1, intonly), ('c', F(rng.rint(-2, 3)))])

    def log(self, d, parent=None):
        rng = self.rng
        if d <= 0 or rng.chance(1, 2):
            rel = rng.choice(['le', 'ge', 'lt', 'gt', 'eq', 'le', 'ge'])
            if self.tame:
                wide = [i for i in self.ints if self.vars[i][1] - self.vars[i][0] >= 2] or self.ints
                a = rng.choice(wide)
                if len(wide) > 1 and rng.chance(1, 2):
                    b = rng.choice([i for i in wide if i != a])
                    lhs = ('v', a) if rng.chance(2, 3) else ('add', [('v', a), ('c', F(rng.rint(-1, 1)))])
                    return (rel, lhs, ('v', b))
                lo, hi = self.vars[a][0], self.vars[a][1]
                return (rel, ('v', a), ('c', F(rng.rint(int(lo), int(hi)))))
            return (rel, self.num(max(d - 1, 0), True), self.num(0, True) if rng.chance(1, 2) else ('c', F(rng.rint(-2, 4))))
        k = rng.below(3)
        if self.tame and ((k == 0 and parent == 'and') or (k == 1 and parent == 'or')):
            k = 2
        if k == 0:
            return ('and', [self.log(d - 1, 'and') for _ in range(rng.rint(2, 3))])
        if k == 1:
            return ('or', [self.log(d - 1, 'or') for _ in range(rng.rint(2, 3))])
        return ('not', self.log(d - 1, 'not'))

    def model(self, nolcons=False):
        """nolcons: logical expressions only inside if-then-else / count conditions (no logical rows)"""
        rng = self.rng
        self.make_vars()
        cons, lcons, obj = [], [], None
        for _ in range(rng.rint(1 if nolcons else 0, 2)):
            e = self.num(rng.rint(1, 2), False)
            if self.tame and rng.chance(2, 3):     # rows with two or more terms
                e = ('add', [e, ('v', rng.choice(self.ints + self.conts))] + ([('v', rng.choice(self.ints))] if rng.chance(1, 3) else []))
            c0 = F(rng.rint(-4, 8))
            pat = rng.below(4)
            lb, ub = [(None, c0), (c0, None), (c0, c0 + rng.rint(0, 3)), (c0, c0)][pat]
            cons.append((e, lb, ub))
        for _ in range(0 if nolcons else rng.rint(0, 2)):
            lcons.append(self.log(rng.rint(1, 2)))
        if not cons and not lcons:
            lcons.append(self.log(1))
        if rng.chance(1, 2) or nolcons:
            obj = (rng.choice(['min', 'max']), self.num(rng.rint(1, 2), False))
        return cons, lcons, obj


def build(frag, cons, lcons, obj):
    """nlgen Model + grids + the `convert` op line"""
    m = Model()
    grids = []
    for lb, ub, isint in frag.vars:
        m.var(lb, ub, isint)
        if isint:
            grids.append([F(v) for v in range(int(lb), int(ub) + 1)])
        else:
            g = sorted({lb, ub, (lb + ub) / 2, F(int(lb) + 1) if int(lb) + 1 < ub else ub})
            grids.append(g)
    for e, lb, ub in cons:
        m.con(lb, ub, nl=to_nl(e))
    for l in lcons:
        m.lcon(to_nl(l))
    if obj:
        m.obj(obj[0], nl=to_nl(obj[1]))
    B = ';'.join('%d:%s:%s:%d' % (i, q2s(lb), q2s(ub), int(isint)) for i, (lb, ub, isint) in enumerate(frag.vars))

    def bnd(x, lower):
        return ('-inf' if lower else 'inf') if x is None else q2s(x)
    line = 'convert n0=%d B=%s cons=%s lcons=%s' % (len(frag.vars), B, '|'.join('%s;%s;%s' % (to_line(e), bnd(lb, True), bnd(ub, False)) for e, lb, ub in cons),
                                                   '|'.join(to_line(l) for l in lcons))
    if obj:
        line += ' obj=%s;%s' % (obj[0], to_line(obj[1]))
    return m, grids, line


# ------------------------------------------------------------------ canonical form of the real converter's output
import c01_gadgets as G


def canon_terms(t):
    """'c*v,c*v' -> merged by variable, sorted by variable, zero terms dropped (what LinTerms::sort_terms may or may not have done)"""
    if t == '':
        return ''
    acc = {}
    for term in t.split(','):
        c, v = term.split('*')
        acc[int(v)] = acc.get(int(v), F(0)) + F(c)
    return ','.join('%s*%d' % (q2s(c), v) for v, c in sorted(acc.items()) if c != 0)


def canon_row(s):
    """canonical form of a conStr row: linear bodies merged/sorted"""
    t = s.split(' ')
    if t[0].startswith('LinCon') and len(t) >= 3:
        t[1] = canon_terms(t[1])
    elif t[0].startswith('IndicatorLinCon') and len(t) >= 5:
        t[3] = canon_terms(t[3])
    elif t[0] == 'F' and len(t) >= 5 and t[3] in ('Affine',) :
        t[4] = canon_terms(t[4])
    elif t[0] == 'F' and len(t) >= 5 and t[3].startswith('CondLin'):
        t[4] = canon_terms(t[4])
    return ' '.join(t)


def canon_def(d):
    """'res;ctx;Kind;fields…' with linear fields merged/sorted"""
    f = d.split(';')
    if len(f) >= 4 and f[2] == 'Affine':
        f[3] = canon_terms(f[3])
    if len(f) >= 4 and f[2].startswith('CondLin'):
        f[3] = canon_terms(f[3])
    return ';'.join(f)


def real_side(exe, stub, n0, acc, opts):
    """flat model (all-accepted run) and delivered model (run with the acceptance set `acc`) of the real converter, canonical"""
    ra = recsolver.run(exe, stub, options=opts, accept=FLAT)
    rd = recsolver.run(exe, stub, options=opts, accept=acc)
    out = {'okA': ra['rc'] == 0 and any(e.get('ev') == 'end' for e in ra['log']),
           'okD': rd['rc'] == 0 and any(e.get('ev') == 'end' for e in rd['log']), 'rd': rd, 'ra': ra}
    if not out['okA']:
        out['refusalA'] = G.refusal_seen(ra) or ((ra.get('sol') or '') + ra['err'])[-200:]
        return out
    vsA = G.vars_of(ra['log'])
    defs = []
    defined = set()
    for e in ra['log']:
        if e.get('ev') != 'con':
            continue
        d = e['data']
        if isinstance(d, dict) and d.get('res', -1) >= 0 and 'ctx' in d:
            cs = G.con_s(e)
            if cs.startswith('OTHER'):
                defs.append((d['res'], '%d;%s;OTHER;%s' % (d['res'], d['ctx'], e['type'])))
                continue
            t = cs.split(' ')
            kind, fields = t[3], t[4:]
            defs.append((int(t[1]), canon_def(';'.join([t[1], t[2], kind] + fields))))
            defined.add(int(t[1]))
    consts = {i: v[0] for i, v in enumerate(vsA) if i >= n0 and i not in defined and v[0] is not None and v[0] == v[1]}
    out['D'] = [t for _, t in sorted(defs)]
    out['consts'] = consts
    out['N'] = len(vsA)
    out['VA'] = ['%d:%s' % (i, G.vi_s(v)) for i, v in enumerate(vsA) if i >= n0]
    out['RA'] = sorted(canon_row(G.con_s(e)) for e in ra['log'] if e.get('ev') == 'con' and e['type'].startswith('LinCon'))
    if not out['okD']:
        out['refusalD'] = G.refusal_seen(rd) or ((rd.get('sol') or '') + rd['err'])[-200:]
        return out
    vsD = G.vars_of(rd['log'])
    out['M'] = len(vsD)
    out['V'] = ['%d:%s' % (i, G.vi_s(v)) for i, v in enumerate(vsD) if i >= n0]
    out['C'] = sorted(canon_row(G.con_s(e)) for e in rd['log'] if e.get('ev') == 'con')
    objs = [e for e in rd['log'] if e.get('ev') == 'obj']
    out['O'] = ''
    if objs:
        o = objs[0]
        out['O'] = '%s;%s' % (o['sense'], canon_terms(G.lin_s(o['lin'])))
        if o.get('kind') == 'quad' and o['quad']['c']:
            out['O'] += ';quad'
    return out


def parse_conv(ans):
    """answer of `drv_c01 convert` -> dict(kind, N, M, shortcut, V[], D[], R[], O, C[])"""
    if ans.startswith('refusal') or ans.startswith('outside') or ans == 'bad-op':
        return {'kind': ans.split(' ')[0], 'what': ans}
    if not ans.startswith('conv '):
        return {'kind': 'bad', 'what': ans[:200]}
    head, *_ = ans.split('|V|', 1)
    m = re.match(r'conv N=(\d+) M=(\d+) shortcut=(\d)(?: infragment=(\d))?(?: checks=(\d))?', head.strip())
    if not m:
        return {'kind': 'bad', 'what': ans[:200]}
    rest = ans[len(head):]
    sec = {}
    for key, nxt in (('|V|', '|D|'), ('|D|', '|R|'), ('|R|', '|O|'), ('|O|', '|C|'), ('|C|', None)):
        i = rest.index(key) + len(key)
        j = rest.index(nxt) if nxt else len(rest)
        sec[key] = rest[i:j].strip()
    return {'kind': 'conv', 'N': int(m.group(1)), 'M': int(m.group(2)), 'shortcut': m.group(3) == '1', 'infragment': m.group(4) != '0' and m.group(5) != '0',
            'V': [v for v in sec['|V|'].split(';') if v], 'D': [canon_def(d) for d in sec['|D|'].split('|') if d],
            'R': [r for r in sec['|R|'].split('|') if r], 'O': sec['|O|'],
            'C': sorted(canon_row(c.strip()) for c in sec['|C|'].split(' ; ') if c.strip())}


def merge_defs(r):
    """definitions of the real flat model in creation order (= result-variable order), constants as `res;Const;q` (variables carry
    no context in the log, so the context of a constant is not compared)"""
    d = {int(t.split(';')[0]): t for t in r['D']}
    for v, c in r['consts'].items():
        d[v] = '%d;Const;%s' % (v, q2s(c))
    return [d[k] for k in sorted(d)]


def strip_const_ctx(ds):
    out = []
    for t in ds:
        f = t.split(';')
        out.append('%s;Const;%s' % (f[0], f[3]) if len(f) >= 4 and f[2] == 'Const' else t)
    return out


# ------------------------------------------------------------------ the stream
EPS_Q = '1/8192'
EPS_OPT = 'cvt:cmp:eps=0.0001220703125'
SECTIONS = ('N', 'D', 'M', 'V', 'C', 'O')


def compare(c, r):
    """sections on which the reference converter's answer `c` and the real converter's canonical output `r` differ"""
    diffs = []
    if c['N'] != r['N']:
        diffs.append('N')
    if strip_const_ctx(c['D']) != merge_defs(r):
        diffs.append('D')
    if c['M'] != r['M']:
        diffs.append('M')
    if c['V'] != r['V']:
        diffs.append('V')
    if c['C'] != r['C']:
        diffs.append('C')
    if c['O'] != r['O']:
        diffs.append('O')
    return diffs


def diff_class(c, r, diffs):
    """coarse class of a disagreement (for the report): which definition kinds / row kinds differ"""
    if 'D' in diffs or 'N' in diffs:
        a, b = strip_const_ctx(c['D']), merge_defs(r)
        kinds = set()
        for x, y in zip(a, b):
            if x != y:
                fx, fy = x.split(';'), y.split(';')
                kx = fx[2] if len(fx) > 2 and fx[1] != 'Const' else 'Const'
                ky = fy[2] if len(fy) > 2 and fy[1] != 'Const' else 'Const'
                if kx == ky or (kx.startswith('CondLin') and ky.startswith('CondLin')):
                    what = 'ctx' if fx[2:] == fy[2:] else ('cmp-normalisation' if kx.startswith('CondLin') else 'fields')
                    kinds.add('%s:%s' % (kx[:7] if kx.startswith('CondLin') else kx, what))
                else:
                    kinds.add('kind:%s/%s' % (kx, ky))
                break
        if len(a) != len(b) and not kinds:
            kinds.add('def-count')
        return 'flat:' + ','.join(sorted(kinds))
    if 'V' in diffs or 'M' in diffs:
        return 'delivered:var-bounds-or-aux' + ('+rows' if 'C' in diffs else '')
    if 'C' in diffs:
        return 'delivered:rows'
    return 'delivered:objective'


def oracle_says(m, grids, rd, budget_s=8.0):
    """exact projection oracle of the end-to-end stage on the REAL delivered model: 'ok' | 'fail:<dir>' | 'na:<why>'"""
    import c01
    cl = c01.classify_run(rd)
    if cl[0] != 'delivered':
        return 'na:' + cl[0]
    D = cl[1]
    if D.unsupported or D.inexact:
        return 'na:unsupported'
    res = c01.check_equiv(m, grids, D, {'eps': EPS_Q, 'sos': 0}, budget_s=budget_s)
    if res['failures']:
        return 'fail:' + res['failures'][0]['dir']
    return 'ok'


def run_refconv(ck, drv, exe, n_models, seed_base, wd, log=None):
    """compare `convert` with the real converter on generated fragment models x {native, linear} until n_models comparisons that the
    reference converter does not flag as shortcut are done (at most 5 * n_models models drawn).
    -> stats dict; violations are reported through ck by the caller from stats['violations']"""
    import collections
    st = {'models': 0, 'drawn': 0, 'compared': 0, 'agree': 0, 'shortcut': 0, 'outside': 0, 'ref_refusal': 0, 'real_refusal': 0,
          'refusal_agree': 0, 'disagree': 0, 'classes': collections.Counter(), 'examples': {}, 'violations': [], 'drift': 0,
          'by_acc': {'native': [0, 0], 'linear': [0, 0]}, 'bad': 0, 'outside_fragment_predicate': 0, 'skipped_by_acc': {'native': 0, 'linear': 0}, 'flagged_agree': 0, 'def_kinds': {}, 'with_aux_vars': 0, 'rows_compared': 0,
          # strata: models without logical rows (logical expressions only under ite/count) / models with logical rows
          'by_stratum': {'no-logical-rows': [0, 0], 'logical-rows': [0, 0]}}
    stub = os.path.join(wd, 'rc')
    k = 0
    while st['compared'] + st['refusal_agree'] < n_models and st['drawn'] < 5 * n_models:
        rng = Rng(seed_base * 100003 + k)
        k += 1
        st['drawn'] += 1
        g = FragGen(rng, tame=(k % 4 != 0))
        cons, lcons, obj = g.model(nolcons=(k % 2 == 0))
        stratum = 'logical-rows' if lcons else 'no-logical-rows'
        m, grids, line = build(g, cons, lcons, obj)
        answers = {}
        skips = {}
        for accn in ('native', 'linear'):
            c = parse_conv(drv.ask('%s eps=%s acc=%s' % (line, EPS_Q, accn)))
            answers[accn] = c
            if c['kind'] == 'outside':
                skips[accn] = 'outside'
            elif c['kind'] in ('bad', 'bad-op'):
                skips[accn] = 'bad'
                st['violations'].append(('refconv-driver', 'drv_c01 convert answered %r on: %s acc=%s' % (c.get('what'), line, accn), {}))
            elif c['kind'] == 'conv' and not c['infragment']:
                skips[accn] = 'outside_fragment_predicate'
        for accn, why in skips.items():
            st[why] += 1
            st['skipped_by_acc'][accn] += 1
        if len(skips) == 2:
            continue
        st['models'] += 1
        m.write(stub, names=False)
        if m.perm != list(range(len(m.vars))):
            st['violations'].append(('refconv-harness', 'nlgen permuted the variables of a fragment model: ' + line, {}))
            continue
        for accn, acc in (('native', NATIVE), ('linear', LINEAR)):
            if accn in skips:
                continue
            c = answers[accn]
            flagged = c['kind'] == 'conv' and c['shortcut']     # the reference converter says: the real one takes a path I do not mirror
            if flagged:                                          # compared all the same, reported separately, never a violation
                st['shortcut'] += 1
                r = real_side(exe, stub, len(m.vars), acc, [EPS_OPT])
                okr = r['okA'] and r['okD']
                st['flagged_agree'] += bool(okr and not compare(c, r))
                continue
            r = real_side(exe, stub, len(m.vars), acc, [EPS_OPT])
            real_ref = (not r['okA']) or (not r['okD'])
            if c['kind'] == 'refusal' or real_ref:
                st['ref_refusal'] += c['kind'] == 'refusal'
                st['real_refusal'] += real_ref
                if c['kind'] == 'refusal' and real_ref:
                    st['refusal_agree'] += 1
                    continue
                cls = 'refusal:only-%s' % ('reference' if c['kind'] == 'refusal' else 'real')
                diffs = ['refusal']
            else:
                st['compared'] += 1
                for dd in c['D']:
                    kd = dd.split(';')[2]
                    st['def_kinds'][kd] = st['def_kinds'].get(kd, 0) + 1
                st['with_aux_vars'] += c['M'] > c['N']
                st['rows_compared'] += len(c['C'])
                st['by_acc'][accn][1] += 1
                st['by_stratum'][stratum][1] += 1
                diffs = compare(c, r)
                if not diffs:
                    st['agree'] += 1
                    st['by_acc'][accn][0] += 1
                    st['by_stratum'][stratum][0] += 1
                    continue
                cls = diff_class(c, r, diffs)
            st['disagree'] += 1
            verdict = oracle_says(m, grids, r['rd']) if r.get('okD') else 'na:real-refusal'
            key = '%s|%s|%s|oracle=%s' % (accn, stratum, cls, verdict.split(':')[0])
            st['classes'][key] += 1
            ex = {'line': '%s eps=%s acc=%s' % (line, EPS_Q, accn), 'diffs': diffs, 'oracle': verdict}
            for sct in diffs:
                if sct in ('D',):
                    ex['D_ref'], ex['D_real'] = strip_const_ctx(c['D']), merge_defs(r)
                elif sct in ('V', 'C', 'O', 'N', 'M'):
                    ex[sct + '_ref'], ex[sct + '_real'] = c.get(sct), r.get(sct)
            st['examples'].setdefault(key, ex)
            if verdict.startswith('fail'):
                # the real delivered model is wrong on this input: property failure (the end-to-end stage reports it with its own
                # minimisation; here it is recorded with the reference converter's expected rows)
                st['violations'].append(('refconv-property:' + cls, 'real delivered model fails the exact oracle (%s) and differs from the '
                                         'reference converter `convert` in %s: %s' % (verdict, '+'.join(diffs), ex['line']), ex))
            else:
                # the reference converter did not flag the input, the real converter is right by the oracle: the tie between the proved
                # reference converter and the code is broken on this input (model drift: the model has to be repaired)
                st['drift'] += 1
                st['violations'].append(('refconv-differs:' + cls, 'the reference converter `convert` (C01_convert_equiv_*) and the real converter '
                                         'disagree in %s on an input the reference does not flag as shortcut (oracle on the real delivered '
                                         'model: %s): %s' % ('+'.join(diffs), verdict, ex['line']), ex))
    st['classes'] = dict(st['classes'])
    return st

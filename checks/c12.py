"""C12 — the solver receives exactly the objective(s) the user selected.

Stages (see design_notes/C12.md):
  1. proof obligations: lean/MpVerif/C12/Props.lean (C12_* theorems) + axiom audit
  2. correspondence: generated NL files (text and binary, regular and irregular segment streams)
     x option combinations are run through the recording driver (harness/recsolver, built from
     $MP_REPO); the *file as written* is parsed by this check into the segment stream that the Lean
     model (drv_c12) reads; outcome class, number/sense/name of delivered objectives and the `objno`
     line of the .sol file are compared exactly, objective content by exact evaluation at random
     integer points (auxiliary variables resolved through the logged functional constraints)
  3. property oracle on the implementation, independent of the Lean model: expected selection
     computed from the options and the generator's own objects (nlgen exact evaluator); plus
     "reduced file" runs (the file with only objective k must yield the same event log as
     objno=k on the full file) and text-vs-binary log identity
"""
import os, sys, json, re, struct, subprocess, hashlib, shutil, glob
from fractions import Fraction as F
from concurrent.futures import ThreadPoolExecutor
from common import *
import recsolver
sys.path.insert(0, os.path.join(VERIF, 'gen'))
import nlgen
import c12_poly

SCALE = 1024          # coefficient tokens handed to the Lean model: coef * SCALE (exact for our dyadics)
SEG_LETTERS = set('CLOVFGJSbrkKxd')
INV_OPC = {v: k for k, v in nlgen.OPC.items()}
VARIADIC = ('sum', 'min', 'max')
N_THEOREMS = 47
# vptr excluded: mp's CRTP base constructors downcast `this` before the derived object exists (flat/converter.h:51),
# which UBSan's vptr check reports on every run; unrelated to this property
SAN_FLAGS = ('-O1', '-g', '-fsanitize=address,undefined', '-fno-sanitize=vptr', '-fno-sanitize-recover=all')


# ----------------------------------------------------------------------------- generator
def rcoef(rng, nz=True):
    while True:
        c = F(rng.rint(-32, 32), 8)
        if c != 0 or not nz:
            return c


def gen_affine(rng, nv):
    e = None
    for _ in range(rng.rint(1, 3)):
        t = ('v', rng.below(nv))
        c = rcoef(rng)
        if c != 1:
            t = ('*', ('n', c), t)
        e = t if e is None else ('+', e, t)
    if rng.chance(1, 2):
        e = ('+', e, ('n', rcoef(rng)))
    return e


def gen_nl(rng, nv, depth=0):
    """nonlinear part of an objective: polynomial degree <= 2 in variables and abs/max/min atoms,
    plus constants (everything flattens to linear/quadratic terms + functional constraints)."""
    def atom():
        r = rng.below(10)
        if r < 3:
            return ('v', rng.below(nv))
        if r < 5:
            return ('abs', gen_affine(rng, nv))
        if r < 6:
            return ('max', [gen_affine(rng, nv) for _ in range(rng.rint(2, 3))])
        if r < 7:
            return ('min', [gen_affine(rng, nv) for _ in range(rng.rint(2, 3))])
        if r < 8:
            return ('abs', ('*', ('v', rng.below(nv)), ('v', rng.below(nv))))
        return gen_affine(rng, nv)

    def term():
        r = rng.below(10)
        if r < 4:
            t = ('*', atom(), atom())
        elif r < 5:
            a = ('v', rng.below(nv))
            t = ('*', a, a)
        elif r < 6:
            t = ('neg', atom())
        else:
            t = atom()
        if rng.chance(1, 2):
            t = ('*', ('n', rcoef(rng)), t)
        return t
    kind = rng.below(10)
    if kind == 0:
        return ('n', rcoef(rng))                 # constant only
    parts = [term() for _ in range(rng.rint(1, 3))]
    if rng.chance(1, 2):
        parts.append(('n', rcoef(rng)))          # constant term
    if len(parts) >= 3 and rng.chance(1, 2):
        return ('sum', parts)
    e = parts[0]
    for p in parts[1:]:
        e = (rng.choice(['+', '-']), e, p)
    return e


stats_gen = {}


def gen_model(rng, maxobj):
    m = nlgen.Model()
    nv = rng.rint(2, 5)
    for j in range(nv):
        integer = rng.chance(1, 4)
        lb = rng.rint(-4, 0)
        m.var(lb, lb + rng.rint(1, 6), integer)
    nobj = rng.rint(0, maxobj)
    for i in range(nobj):
        sense = 'max' if rng.chance(1, 2) else 'min'
        lin = {}
        r = rng.below(10)
        if r >= 2:
            for j in range(nv):
                if rng.chance(1, 2):
                    lin[j] = rcoef(rng)
        nl = gen_nl(rng, nv) if rng.chance(3, 5) else None
        if rng.chance(1, 4):
            # least squares / bilinear plus linear cost: the expansion of the expression contributes linear terms on
            # variables that also have a G coefficient ((x-a)^2 + c*x,  c*x + (x+a)*(y+b))
            j, k2 = rng.below(nv), rng.below(nv)
            a, b = F(rng.rint(-4, 4) or 2), F(rng.rint(-4, 4) or 1)
            sq = ('*', ('-', ('v', j), ('n', a)), ('-', ('v', j), ('n', a)))
            bil = ('*', ('+', ('v', j), ('n', a)), ('+', ('v', k2), ('n', b)))
            nl = rng.choice([sq, bil, ('+', sq, bil), ('-', bil, ('*', ('n', rcoef(rng)), ('v', j)))])
            lin[j] = rcoef(rng)
            if rng.chance(1, 2):
                lin[k2] = rcoef(rng)
            stats_gen['expansion_overlaps_G'] = stats_gen.get('expansion_overlaps_G', 0) + 1
        m.obj(sense, lin, nl, name='ob%d_%s' % (i, rng.choice(['a', 'b', 'cost', 'z'])))
    for i in range(rng.rint(0, 3)):
        lin = {j: rcoef(rng) for j in range(nv) if rng.chance(2, 3)} or {0: F(1)}
        nl = ('*', ('v', rng.below(nv)), ('v', rng.below(nv))) if rng.chance(1, 5) else None
        r = rng.below(3)
        m.con(None if r == 0 else F(rng.rint(-8, 0)), None if r == 1 else F(rng.rint(1, 9)), lin, nl, name='con%d' % i)
    if rng.chance(1, 6):
        m.lcon(('or', ('le', ('v', 0), ('n', 1)), ('ge', ('v', 1), ('n', 0))), name='lc0')
    return m


# ----------------------------------------------------------------------------- NL text <-> segments
def split_nl(text):
    lines = [l for l in text.split('\n') if l != '']
    header, rest = lines[:10], lines[10:]
    segs = []
    for ln in rest:
        if ln[0] in SEG_LETTERS:
            segs.append([ln])
        else:
            segs[-1].append(ln)
    return header, segs


def join_nl(header, segs):
    return '\n'.join(header + [l for s in segs for l in s]) + '\n'


def header_counts(header):
    a = header[1].split()
    return {'nvars': int(a[0]), 'ncons': int(a[1]), 'nobjs': int(a[2]), 'nlcons': int(a[5])}


def parse_expr(lines, i=0, nvars=None, dv=None):
    """prefix NL expression text -> nlgen tuple tree; references to defined variables (index >= nvars)
    are replaced by their definitions"""
    tok = lines[i]
    if tok[0] == 'n':
        return ('n', F(tok[1:])), i + 1
    if tok[0] == 'v':
        j = int(tok[1:])
        if nvars is not None and j >= nvars:
            return dv[j], i + 1
        return ('v', j), i + 1
    if tok[0] != 'o':
        raise ValueError('bad expression token ' + tok)
    name = INV_OPC[int(tok[1:])]
    i += 1
    if name in VARIADIC:
        cnt = int(lines[i]); i += 1
        args = []
        for _ in range(cnt):
            a, i = parse_expr(lines, i, nvars, dv)
            args.append(a)
        return (name, args), i
    ar = 2 if name in nlgen.BIN_NUM else 1
    args = []
    for _ in range(ar):
        a, i = parse_expr(lines, i, nvars, dv)
        args.append(a)
    return (name,) + tuple(args), i


class FileView:
    """what this check reads off the NL text that was handed to the driver: the objective-relevant
    segment stream (for the Lean model) and the expression behind every token"""

    def __init__(self, text):
        self.header, self.segs = split_nl(text)
        hc = header_counts(self.header)
        self.n = hc['nobjs']
        self.num_cons = hc['ncons'] + hc['nlcons']
        self.nvars = hc['nvars']
        self.tokens = {}        # expression text -> token
        self.exprs = {0: None}  # token -> expression tree (NL variable positions)
        self.stream = []        # ('O', idx, ismax, tok) | ('G', idx, [(v, coefF)]) | ('X',)
        self.defvars = {}       # index -> expression tree (linear part + nonlinear part)
        self.objsuffix = {}     # suffix name -> {file objective index: value}
        for s in self.segs:
            h = s[0]
            if h[0] == 'V':
                a = h[1:].split()
                nlin = int(a[1])
                e, _ = parse_expr(s[1 + nlin:], 0, self.nvars, self.defvars)
                for ln in s[1:1 + nlin]:
                    q = ln.split()
                    e = ('+', e, ('*', ('n', F(q[1])), ('v', int(q[0]))))
                self.defvars[int(a[0])] = e
                self.stream.append(('X',))
            elif h[0] == 'O':
                a = h[1:].split()
                body = s[1:]
                e, _ = parse_expr(body, 0, self.nvars, self.defvars)
                if e[0] == 'n' and e[1] == 0:
                    tok = 0
                else:
                    key = '\n'.join(body)
                    if key not in self.tokens:
                        self.tokens[key] = len(self.tokens) + 1
                        self.exprs[self.tokens[key]] = e
                    tok = self.tokens[key]
                self.stream.append(('O', int(a[0]), int(a[1]) != 0, tok))
            elif h[0] == 'G':
                a = h[1:].split()
                terms = []
                for ln in s[1:]:
                    p = ln.split()
                    terms.append((int(p[0]), F(p[1])))
                self.stream.append(('G', int(a[0]), terms))
            else:
                self.stream.append(('X',))
                if h[0] == 'S':
                    a = h[1:].split()
                    if int(a[0]) & 3 == 2:
                        self.objsuffix[a[2]] = {int(ln.split()[0]): F(ln.split()[1]) for ln in s[1:]}
                if h[0] == 'b':
                    self.bounds = []
                    for ln in s[1:]:
                        q = ln.split()
                        lo = F(q[1]) if q[0] in '024' else None
                        hi = F(q[2]) if q[0] == '0' else F(q[1]) if q[0] in '14' else None
                        self.bounds.append((lo, hi))

    def model_line(self, optlist):
        t = ['R', str(self.n), str(self.num_cons), str(len(optlist))]
        for kind, v in optlist:
            t += [kind, str(v)]
        t.append(str(len(self.stream)))
        for s in self.stream:
            if s[0] == 'O':
                t += ['O', str(s[1]), '1' if s[2] else '0', str(s[3])]
            elif s[0] == 'G':
                t += ['G', str(s[1]), str(len(s[2]))]
                for v, c in s[2]:
                    cs = c * SCALE
                    assert cs.denominator == 1
                    t += [str(v), str(cs.numerator)]
            else:
                t.append('X')
        return ' '.join(t)

    # per-index reading of the file, written independently of the Lean `fileObj`
    def file_obj(self, i):
        ismax, tok, lin = False, 0, []
        for s in self.stream:
            if s[0] == 'O' and s[1] == i:
                ismax, tok = s[2], s[3]
            elif s[0] == 'G' and s[1] == i:
                lin += s[2]
        return ismax, tok, lin

    def has_o(self, i):
        return any(s[0] == 'O' and s[1] == i for s in self.stream)

    def bad_index(self):
        return any(s[0] in 'OG' and s[1] >= self.n for s in self.stream)

    def value(self, tok, lin, xnl):
        v = sum((c * xnl[j] for j, c in lin), F(0))
        if tok:
            v += nlgen.ev(self.exprs[tok], xnl)
        return v


def text_to_binary(text):
    """transcode the text NL produced here into the binary ('b') format read by mp's BinaryReader"""
    header, segs = split_nl(text)
    h = list(header)
    h[0] = 'b' + h[0][1:]
    a = h[5].split()          # nwv nfunc arith flags
    a[2] = '1'                # IEEE little endian
    h[5] = ' ' + ' '.join(a)
    out = bytearray(('\n'.join(h) + '\n').encode())
    I = lambda v: struct.pack('<i', int(v))
    D = lambda v: struct.pack('<d', float(F(v)))

    def expr_lines(lines):
        for ln in lines:
            c = ln[0]
            if c == 'o':
                out.extend(b'o' + I(ln[1:]))
            elif c == 'n':
                out.extend(b'n' + D(ln[1:]))
            elif c == 'v':
                out.extend(b'v' + I(ln[1:]))
            else:
                out.extend(I(ln))       # argument count of an iterated operator
    for s in segs:
        hd = s[0]
        c = hd[0]
        a = hd[1:].split()
        if c in 'CL':
            out.extend(c.encode() + I(a[0])); expr_lines(s[1:])
        elif c == 'O':
            out.extend(b'O' + I(a[0]) + I(a[1])); expr_lines(s[1:])
        elif c == 'V':
            out.extend(b'V' + I(a[0]) + I(a[1]) + I(a[2]))
            nlin = int(a[1])
            for ln in s[1:1 + nlin]:
                p = ln.split(); out.extend(I(p[0]) + D(p[1]))
            expr_lines(s[1 + nlin:])
        elif c in 'GJ':
            out.extend(c.encode() + I(a[0]) + I(a[1]))
            for ln in s[1:]:
                p = ln.split(); out.extend(I(p[0]) + D(p[1]))
        elif c in 'rb':
            out.extend(c.encode())
            for ln in s[1:]:
                p = ln.split()
                out.extend(p[0].encode())
                for v in p[1:]:
                    out.extend(D(v))
        elif c == 'k':
            out.extend(b'k' + I(a[0]))
            for ln in s[1:]:
                out.extend(I(ln))
        elif c in 'xd':
            out.extend(c.encode() + I(a[0]))
            for ln in s[1:]:
                p = ln.split(); out.extend(I(p[0]) + D(p[1]))
        elif c == 'S':
            out.extend(b'S' + I(a[0]) + I(a[1]) + I(len(a[2])) + a[2].encode())
            for ln in s[1:]:
                p = ln.split(); out.extend(I(p[0]) + (D(p[1]) if int(a[0]) & 4 else I(p[1])))
        else:
            raise ValueError('segment %s not supported by the transcoder' % c)
    return bytes(out)


# ----------------------------------------------------------------------------- stream mutations
def mutate(rng, text, kind):
    """returns (new text, description). Irregular but reader-accepted (or reader-rejected) variants of
    the objective segments; all other segments keep their relative order."""
    header, segs = split_nl(text)
    n = header_counts(header)['nobjs']
    oi = [i for i, s in enumerate(segs) if s[0][0] == 'O']
    gi = [i for i, s in enumerate(segs) if s[0][0] == 'G']
    if kind == 'defvar' and oi:
        nv = header_counts(header)['nvars']
        ndv = rng.rint(1, 2)
        vsegs = []
        for j in range(ndv):
            r = rng.below(4)
            e = gen_affine(rng, nv) if r == 0 else ('*', ('v', rng.below(nv)), ('v', rng.below(nv))) if r == 1 else \
                ('abs', gen_affine(rng, nv)) if r == 2 else ('+', ('*', ('n', rcoef(rng)), ('v', rng.below(nv))), ('n', rcoef(rng)))
            if j == 1 and rng.chance(1, 2):
                e = ('-', e, ('v', nv))          # second defined variable uses the first
            body = []
            nlgen.wexpr(e, body)
            lin = ['%d %s' % (rng.below(nv), nlgen.fnum(rcoef(rng)))] if rng.chance(1, 2) else []
            vsegs.append(['V%d %d 0' % (nv + j, len(lin))] + lin + body)
        new = [list(s) for s in segs]
        used = 0
        order = list(oi)
        while order:
            i = order.pop(rng.below(len(order)))
            if used and not rng.chance(1, 2):
                continue
            ref = 'v%d' % (nv + rng.below(ndv))
            sg = new[i]
            body = sg[1:]
            if len(body) == 1 and body[0][0] == 'n' and F(body[0][1:]) == 0:
                new[i] = [sg[0], ref]
            else:
                new[i] = [sg[0], rng.choice(['o0', 'o1'])] + body + [ref]
            used += 1
        h = list(header)
        h[9] = ' 0 0 %d 0 0' % ndv
        return join_nl(h, vsegs + new), '%d defined variable(s) used by %d objective(s)' % (ndv, used)
    if kind == 'shuffle':
        objsegs = [segs[i] for i in oi + gi]
        others = [s for i, s in enumerate(segs) if i not in oi + gi]
        for s in objsegs:                         # random insertion points
            others.insert(rng.below(len(others) + 1), s)
        return join_nl(header, others), 'O/G segments moved to random positions'
    if kind == 'dupO' and oi:
        i = rng.choice(oi)
        s = segs[i]
        idx = s[0][1:].split()[0]
        alt = ['O%s %d' % (idx, rng.below(2)), 'o2', 'n%s' % nlgen.fnum(rcoef(rng)), 'v%d' % rng.below(header_counts(header)['nvars'])]
        new = list(segs)
        if rng.chance(1, 2):
            new.insert(i, alt)       # overridden by the original
        else:
            new.insert(i + 1, alt)   # overrides the original
        return join_nl(header, new), 'objective %s has two O segments' % idx
    if kind == 'dupG' and gi:
        i = rng.choice(gi)
        s = segs[i]
        new = list(segs)
        new.insert(rng.choice([i, i + 1, len(segs)]), list(s))
        return join_nl(header, new), 'a G segment appears twice (terms accumulate)'
    if kind == 'dropO' and oi:
        i = rng.choice(oi)
        new = [s for j, s in enumerate(segs) if j != i]
        return join_nl(header, new), 'objective %s has no O segment' % segs[i][0][1:].split()[0]
    if kind == 'badidx' and (oi or gi):
        i = rng.choice(oi + gi)
        new = [list(s) for s in segs]
        a = new[i][0][1:].split()
        a[0] = str(n + rng.below(2))
        new[i][0] = new[i][0][0] + ' '.join(a)
        return join_nl(header, new), 'segment index out of range'
    return text, None


def reduce_to(text, f):
    """the same file with only objective f (renumbered 0)"""
    header, segs = split_nl(text)
    new = []
    nonlinear = False
    for s in segs:
        c = s[0][0]
        if c == 'S' and int(s[0][1:].split()[0]) & 3 == 2:
            continue                      # objective suffixes are indexed by file objective; not used in single mode
        if c in 'OG':
            a = s[0][1:].split()
            if int(a[0]) != f:
                continue
            a[0] = '0'
            s = [c + ' '.join(a)] + s[1:]
            if c == 'O' and not (len(s) == 2 and s[1][0] == 'n'):
                nonlinear = True
        new.append(s)
    h = list(header)
    a = h[1].split(); a[2] = '1'; h[1] = ' ' + ' '.join(a)
    a = h[2].split(); a[1] = '1' if nonlinear else '0'; h[2] = ' ' + ' '.join(a)
    return join_nl(h, new)


# ----------------------------------------------------------------------------- observation
def classify(r, ampl=True):
    """outcome class of a recsolver run: ('ok', ...) | ('err', kind)"""
    evs = [e.get('ev') for e in r['log']]
    sol = r['sol'] or ''
    # without -AMPL an error raised before `wantsol=1` is parsed leaves no .sol: the diagnosis is on stdout
    early = ampl is False and r['sol'] is None and 'begin' not in evs and r['rc'] == 0
    if (r['rc'] != 0 or r['sol'] is None) and not early:
        return ('crash', 'rc=%s sol=%s stderr=%s' % (r['rc'], r['sol'] is not None, r['err'][-300:]))
    if 'begin' in evs:
        if 'end' not in evs:
            return ('crash', 'model delivery not finished')
        return ('ok', None)
    msg = r['out'] if early else sol.split('\nOptions\n')[0]
    if re.search(r'Invalid value "?-?\d+"? for option "objno", expected value between', msg):
        return ('err', 'objnoOutOfRange')
    if re.search(r'Invalid value "?-?\d+"? for option "(obj:no|obj:multi)"', msg):
        return ('err', 'invalidOption')
    if re.search(r'\.nl:(\d+:\d+|offset \d+): ', msg):
        return ('err', 'readError')
    return ('err', 'other:' + msg[:200])


class Delivered:
    """delivered model, as logged by RecModelAPI, with an exact evaluator"""

    def __init__(self, log):
        self.lb, self.ub = [], []
        self.objs = []
        self.defs = []      # functional constraints
        self.unknown = []
        for e in log:
            if e['ev'] == 'vars':
                self.lb += [recsolver.num(t) for t in e['lb']]
                self.ub += [recsolver.num(t) for t in e['ub']]
            elif e['ev'] == 'obj':
                self.objs.append(e)
            elif e['ev'] == 'con' and isinstance(e['data'], dict) and 'res' in e['data'] and e['data']['res'] >= 0:
                self.defs.append(e)

    def full_point(self, xnl):
        """extend a point of the NL variables to all variables using fixed variables and the functional
        constraints; None if some auxiliary variable cannot be determined"""
        nn = len(self.lb)
        x = [None] * nn
        for j, v in enumerate(xnl):
            x[j] = v
        for j in range(len(xnl), nn):
            if self.lb[j] == self.ub[j] and isinstance(self.lb[j], F):
                x[j] = self.lb[j]
        pending = list(self.defs)
        progress = True
        while pending and progress:
            progress = False
            rest = []
            for e in pending:
                v = self.eval_def(e, x)
                if v is None:
                    rest.append(e)
                else:
                    res = e['data']['res']
                    if x[res] is None:
                        x[res] = v
                    progress = True
            pending = rest
        return x

    @staticmethod
    def lin(lt, x):
        s = F(0)
        for c, v in zip(lt['c'], lt['v']):
            if x[v] is None:
                return None
            s += recsolver.num(c) * x[v]
        return s

    @staticmethod
    def quad(qt, x):
        s = F(0)
        for c, a, b in zip(qt['c'], qt['v1'], qt['v2']):
            if x[a] is None or x[b] is None:
                return None
            s += recsolver.num(c) * x[a] * x[b]
        return s

    def eval_def(self, e, x):
        t, d = e['type'], e['data']
        if t == 'LinearFunctionalConstraint':
            s = self.lin(d['expr']['lin'], x)
            return None if s is None else s + recsolver.num(d['expr']['const'])
        if t == 'QuadraticFunctionalConstraint':
            s, q = self.lin(d['expr']['lin'], x), self.quad(d['expr']['quad'], x)
            return None if s is None or q is None else s + q + recsolver.num(d['expr']['const'])
        if t in ('AbsConstraint', 'MaxConstraint', 'MinConstraint', 'PowConstraint'):
            a = [x[j] for j in d['args']]
            if any(v is None for v in a):
                return None
            if t == 'AbsConstraint':
                return abs(a[0])
            if t == 'MaxConstraint':
                return max(a)
            if t == 'MinConstraint':
                return min(a)
            p = recsolver.num(d['params'][0])
            if p.denominator != 1 or p < 0:
                return None
            return a[0] ** int(p)
        if t not in self.unknown:
            self.unknown.append(t)
        return None

    def obj_value(self, e, xfull):
        s = self.lin(e['lin'], xfull)
        if s is None:
            return None
        if 'quad' in e:
            q = self.quad(e['quad'], xfull)
            if q is None:
                return None
            s += q
        return s


def sol_objno(sol):
    p = recsolver.parse_sol(sol) if sol else None
    return None if not p else p['objno']


# ----------------------------------------------------------------------------- a case
# per-case variations outside the option list the model sees:
#   names: value of cvt:names (None = not given);  files: which of .row/.col exist ('full', 'short' = .row ends after the
#   first objective name, 'norow' = .col only, 'nofiles');  nsol: alternative solutions reported (sol:stub files, each with an
#   objno line);  solcount: sol:count=1 (nsol suffixes in the final .sol);  optfile: (a, b) -> argv[a:b] go through tech:optionfile
DEFAULT_EXTRA = {'names': None, 'files': 'full', 'nsol': 0, 'solcount': False, 'optfile': None, 'nostub': False, 'solvec': False}


class Case:
    def __init__(self, cid, text, binary, row, col, optlist, envopts, argv, quadobj, note, mutation, model=None,
                 mpopts=None, ampl=True, extra=None):
        self.extra = dict(DEFAULT_EXTRA, **(extra or {}))
        self.cid, self.text, self.binary, self.row, self.col = cid, text, binary, row, col
        self.optlist, self.envopts, self.argv, self.quadobj = optlist, envopts, argv, quadobj
        self.note, self.mutation, self.model = note, mutation, model
        self.mpopts, self.ampl = mpopts, ampl     # mp_options env var (parsed first); -AMPL flag or wantsol=1

    def replay_obj(self):
        return {'nl_text': self.text, 'binary_format': self.binary, 'row': self.row, 'col': self.col,
                'options_in_order': self.optlist, 'env_mp_options': self.mpopts, 'env_recsolver_options': self.envopts,
                'argv_options': self.argv, 'ampl_flag': self.ampl, 'extra': self.extra,
                'RECSOLVER_QUADOBJ': self.quadobj, 'RECSOLVER_ACCEPT': 'ALL', 'stream': self.note,
                'how': './check C12 --replay <this file>   (writes the stub under build/c12/replay and runs harness/recsolver on it)'}


def row_as_written(row, files, num_cons):
    """the names the driver can read from the .row file in this file mode"""
    rowl = [l for l in row.split('\n') if l != '']
    if files == 'full':
        return rowl
    if files == 'short':
        return rowl[:num_cons + 1]
    return []


def write_stub(stub, text, binary, row, col, files='full', num_cons=0):
    if binary:
        open(stub + '.nl', 'wb').write(text_to_binary(text))
    else:
        open(stub + '.nl', 'w').write(text)
    for ext in ('.row', '.col'):
        if os.path.exists(stub + ext):
            os.remove(stub + ext)
    if files in ('full', 'short'):
        open(stub + '.row', 'w').write('\n'.join(row_as_written(row, files, num_cons)) + '\n')
    if files != 'nofiles':
        open(stub + '.col', 'w').write(col)


def run_case(exe, wdir, c, suffix=''):
    stub = os.path.join(wdir, 'c%s%s' % (c.cid, suffix))
    x = c.extra
    hc = header_counts(split_nl(c.text)[0])
    write_stub(stub, c.text, c.binary, c.row, c.col, x['files'], hc['ncons'] + hc['nlcons'])
    env = {'recsolver_options': c.envopts} if c.envopts is not None else {}
    env[os.path.basename(exe) + '_options'] = c.envopts or ''
    env['mp_options'] = c.mpopts or ''
    argv = list(c.argv)
    if x['optfile']:
        a, b = x['optfile']
        open(stub + '.opt', 'w').write('# option file written by checks/c12.py\n' + '\n'.join(argv[a:b]) + '\n\n')
        argv = argv[:a] + ['tech:optionfile=' + stub + '.opt'] + argv[b:]
    if x['names'] is not None:
        argv.append('%s=%d' % ('cvt:names' if c.cid % 2 else 'names', x['names']))
    if x['nsol']:
        env['RECSOLVER_NSOL'] = str(x['nsol'])
        if x['solvec']:
            env['RECSOLVER_NSOL_VECTORS'] = '1'
        if not x['nostub']:
            argv.append('sol:stub=' + stub + '_alt')
        if x['solcount'] or x['nostub']:
            argv.append('sol:count=1')       # nostub: solutions are counted but no files are written
    if not c.ampl:
        argv = ['wantsol=1'] + argv
    r = recsolver.run(exe, stub, argv, accept='ALL', quadobj=c.quadobj, env=env, timeout=120, ampl_flag=c.ampl)
    r['alt'] = []
    for k in range(1, x['nsol'] + 3):
        f = '%s_alt%d.sol' % (stub, k)
        if os.path.exists(f):
            r['alt'].append(sol_objno(open(f, errors='replace').read()))
            os.remove(f)
    for ext in ('.nl', '.row', '.col', '.sol', '.reclog', '.opt'):
        try:
            os.remove(stub + ext)
        except OSError:
            pass
    return r


def expected_from_options(optlist, n):
    """the property, read off its text: which file objectives (0-based) must be delivered, which echo,
    or which error.  Precedence rule used: an explicit objective number switches multi-objective mode
    off (documented: BasicSolver::multiobj() = multiobj_ && objno_<0; 'obj:no' help text)."""
    k_given, multi = None, False
    for kind, v in optlist:
        if kind == 'o':
            if v < 0:
                return ('err', 'invalidOption')
            k_given = v
        else:
            if v not in (0, 1):
                return ('err', 'invalidOption')
            multi = (v == 1)
    if k_given is not None and k_given > n:
        return ('err', 'objnoOutOfRange')
    if multi and k_given is None:
        return ('ok', list(range(n)), 0 if n > 0 else -1, True)
    k = 1 if k_given is None else k_given
    if 1 <= k <= n:
        return ('ok', [k - 1], k - 1, False)
    return ('ok', [], -1, False)


def points(rng, bounds, cnt):
    """random half-integer points inside the variable bounds (the delivered model may exploit bounds,
    e.g. |x*y| -> -(x*y) when x<=0<=y, so equality is only claimed on the box)"""
    pts = []
    for _ in range(cnt):
        x = []
        for lo, hi in bounds:
            lo = F(-5) if lo is None else lo
            hi = lo + 6 if hi is None else hi
            x.append(lo + F(rng.below(int((hi - lo) * 2) + 1), 2))
        pts.append(x)
    return pts


def judge(ck, c, r, mline, stats, rng):
    """compare implementation / Lean model / property oracle for one case; returns canonical impl line"""
    fv = FileView(c.text)
    cls = classify(r, c.ampl)
    exp = expected_from_options(c.optlist, fv.n)
    if exp[0] == 'ok' and fv.bad_index():
        exp = ('err', 'readError')
    rowl = row_as_written(c.row, c.extra['files'], fv.num_cons)
    nmode = 1 if c.extra['names'] is None else c.extra['names']
    have_names = nmode >= 2 or (nmode == 1 and c.extra['files'] != 'nofiles')

    def name_of_row_index(i):
        """name the driver must give to the objective whose .row position is i (cvt:names semantics: 0 none, 1 only if name
        files exist, 2 read or generate, 3 generate); generated names carry the objective's number in the file"""
        if nmode == 0 or not have_names:
            return ''
        if nmode != 3 and 0 <= i < len(rowl):
            return rowl[i]
        return '_sobj[%d]' % (i - fv.num_cons + 1)
    nviol0 = len(ck.violations) + len(ck.known_hits)
    okey = cls[0] + ':' + str(cls[1]).split(':')[0]
    stats['outcome'][okey] = stats['outcome'].get(okey, 0) + 1
    rep = c.replay_obj()
    rep['impl_outcome'] = list(cls)
    rep['model_line'] = mline
    if cls[0] == 'crash':
        sig = 'run:abnormal-termination'
        # the problem has no objective slot: file without objectives, or an option error raised before the header is processed
        if (fv.n == 0 or exp[0] == 'err') and (c.extra['nsol'] or c.extra['solcount']) and r['rc'] in (-11, 139):
            # HandleSolution writes element 0 of the (empty) objective suffix nsol/npool
            sig = 'run:crash-nsol-suffix-without-objective'
        ck.add_violation(sig, 'recsolver ended abnormally on a file with %d objectives, options %s, sol:stub/sol:count %s: %s' %
                         (fv.n, c.optlist, 'given' if (c.extra['nsol'] or c.extra['solcount']) else 'not given', cls[1]), rep)
        return 'crash'
    # ---- oracle: outcome class
    if cls[0] == 'err':
        impl_line = 'err ' + cls[1]
        if exp[0] == 'ok':
            sig = 'reject:spurious-%s' % cls[1].split(':')[0]
            ck.add_violation(sig, 'options %s on a file with %d objectives: run refused (%s) although the selection is valid' % (c.optlist, fv.n, cls[1]), rep)
        elif exp[1] != cls[1]:
            ck.add_violation('reject:wrong-error-class', 'expected error class %s, implementation reported %s' % (exp[1], cls[1]), rep)
        stats['cmp'] += 1
        if mline is not None and mline != impl_line:
            ck.add_violation('corr:outcome', 'Lean model says "%s", implementation "%s"' % (mline[:80], impl_line), dict(rep, correspondence='drv_c12 vs recsolver'), found_input=False)
        return impl_line
    d = Delivered(r['log'])
    echo = sol_objno(r['sol'])
    names_impl = [e['name'] for e in d.objs]
    # canonical implementation line (what can be compared textually with the model)
    mparts = mline.split(' | ') if mline is not None else []
    mhead = mparts[0].split(' ') if mparts else []
    impl_head = 'ok echo=%s' % echo
    if exp[0] == 'err':
        sig = 'reject:accepted' if exp[1] == 'objnoOutOfRange' else 'reject:invalid-option-accepted' if exp[1] == 'invalidOption' else 'read:bad-index-accepted'
        ck.add_violation(sig, 'options %s, %d objectives: expected %s, but a model with %d objective(s) was delivered' % (c.optlist, fv.n, exp[1], len(d.objs)), rep)
        return impl_head
    idxs, exp_echo = exp[1], exp[2]
    noO = [f for f in idxs if not fv.has_o(f)]
    suffix = 'selected-objective-without-O-segment' if noO else 'wrong'
    pts = points(rng, fv.bounds, 5)
    fulls = [d.full_point(p) for p in pts]
    # ---- oracle: count, order, sense, content, names, echo  (independent of the Lean model)
    positions = [e['i'] for e in d.objs]
    if positions != list(range(len(idxs))):
        ck.add_violation('select:count', 'options %s, %d objectives in the file: expected %d objective(s) at positions 0.., delivered positions %s' % (c.optlist, fv.n, len(idxs), positions), rep)
    else:
        for p, f in enumerate(idxs):
            e = d.objs[p]
            ismax, tok, lin = fv.file_obj(f)
            if (e['sense'] == 'max') != ismax:
                ck.add_violation('select:sense', 'delivered objective %d has sense %s, objective %d of the file is %s' % (p, e['sense'], f + 1, 'max' if ismax else 'min'), rep)
            # what the solver receives is a sparse vector applied per variable (obj[var] = coef): no variable, and no
            # unordered variable pair of the quadratic part, may occur twice - otherwise the last entry wins in the solver
            lv = list(e['lin']['v'])
            dupv = sorted({v for v in lv if lv.count(v) > 1})
            qp = [tuple(sorted(t)) for t in zip(e['quad']['v1'], e['quad']['v2'])] if 'quad' in e else []
            dupq = sorted({t for t in qp if qp.count(t) > 1})
            stats['content']['zero coefficients delivered'] = stats['content'].get('zero coefficients delivered', 0) + \
                sum(1 for t in e['lin']['c'] if recsolver.num(t) == 0)
            if dupv or dupq:
                held = {}
                for v, cf in zip(lv, e['lin']['c']):
                    held[v] = recsolver.num(cf)          # attribute assignment: last one wins
                summed = {}
                for v, cf in zip(lv, e['lin']['c']):
                    summed[v] = summed.get(v, F(0)) + recsolver.num(cf)
                ck.add_violation('select:delivered-terms-not-a-map',
                                 'delivered objective %d (objective %d of the file) lists variable(s) %s%s more than once: %s call with vars %s coefs %s; a solver API assigning obj[var]=coef holds %s for them instead of %s' %
                                 (p, f + 1, dupv, (' and pair(s) %s' % dupq) if dupq else '', 'SetQuadraticObjective' if 'quad' in e else 'SetLinearObjective', lv,
                                  [str(recsolver.num(t)) for t in e['lin']['c']], {v: str(held[v]) for v in dupv}, {v: str(summed[v]) for v in dupv}), rep)
            bad = None
            for x, xf in zip(pts, fulls):
                got = d.obj_value(e, xf)
                want = fv.value(tok, lin, x)
                if c.model is not None and c.mutation is None:
                    m = c.model
                    xm = [x[m.pos[j]] for j in range(len(m.vars))]
                    want2 = m.obj_value(m.objs[m.obj_order[f]], xm)
                    if want2 != want:
                        ck.add_violation('check:generator-vs-file', 'nlgen evaluator and file reading disagree', rep, found_input=False)
                if got is None:
                    ck.add_violation('check:cannot-evaluate', 'auxiliary variable values not determined', rep, found_input=False)
                    break
                if got != want:
                    bad = (x, got, want)
                    break
            # exact comparison of the content: both sides expanded to one canonical polynomial form (rational coefficients,
            # abs/max/min as atoms over canonical arguments); where the converter used variable bounds the forms differ
            # legitimately and the exact point evaluation above is what decides
            try:
                c12_poly.BOX['bounds'] = fv.bounds
                pf = c12_poly.file_poly(fv, tok, lin)
                pd = c12_poly.DeliveredPoly(d, fv.nvars, recsolver.num).objective(e)
                if pf == pd:
                    stats['content']['identical polynomial form'] = stats['content'].get('identical polynomial form', 0) + 1
                else:
                    atoms = any(a[0] != 'v' for pp in (pf, pd) for mm in pp for a in mm)
                    if not atoms and not bad:
                        ck.add_violation('select:content-coefficients', 'delivered objective %d and objective %d of the file are different polynomials although they agree at the sampled points: delivered %s, file %s' %
                                         (p, f + 1, pd.show()[:300], pf.show()[:300]), rep)
                    if os.environ.get('C12_DEBUG_POLY') and atoms:
                        print('POLYDIFF file:', pf.show()[:200], '| delivered:', pd.show()[:200], '| bounds', fv.bounds, '| expr', fv.exprs.get(tok))
                    key = 'forms differ (abs/max/min simplified with bounds), decided by evaluation' if atoms else 'forms differ, no atoms'
                    stats['content'][key] = stats['content'].get(key, 0) + 1
            except c12_poly.NotPolynomial as ex_:
                stats['content']['not expanded: %s' % ex_] = stats['content'].get('not expanded: %s' % ex_, 0) + 1
            if bad:
                ck.add_violation('select:content', 'delivered objective %d differs from objective %d of the file: at x=%s it evaluates to %s, the file objective to %s' % (p, f + 1, [str(v) for v in bad[0]], bad[1], bad[2]), rep)
            stats['objkind'][e['kind']] = stats['objkind'].get(e['kind'], 0) + 1
            want_name = name_of_row_index(fv.num_cons + f)
            if e['name'] != want_name:
                ck.add_violation('name:' + suffix, 'delivered objective %d is named "%s", objective %d of the file is "%s"' % (p, e['name'], f + 1, want_name), rep)
    if echo != exp_echo:
        ck.add_violation('echo:' + suffix, 'options %s, %d objectives%s: .sol says objno %s, the objective used is %s' % (c.optlist, fv.n, ' (objective %s has no O segment)' % [f + 1 for f in noO] if noO else '', echo, exp_echo), rep)
    # alternative-solution files (HandleFeasibleSolution): same echo in each of them
    if c.extra['nsol']:
        stats['altsol_files'] = stats.get('altsol_files', 0) + len(r['alt'])
        if len(r['alt']) != (0 if c.extra['nostub'] else c.extra['nsol']):
            ck.add_violation('altsol:count', '%d alternative solutions reported, %d solution files written' % (c.extra['nsol'], len(r['alt'])), rep, found_input=False)
        for a in r['alt']:
            if a != exp_echo:
                ck.add_violation('echo:alternative-solution-file', 'options %s, %d objectives: an alternative-solution .sol file says objno %s, the objective used is %s' % (c.optlist, fv.n, a, exp_echo), rep)
    # objective suffixes reach the backend only in multi-objective mode, one value per file objective in file order
    for sname, ev in (('objpriority', 'objpriorities'), ('objweight', 'objweights')):
        got = [e['v'] for e in r['log'] if e.get('ev') == ev]
        vals = fv.objsuffix.get(sname)
        if exp[3] and fv.n > 0 and vals:
            want = [vals.get(f, F(0)) for f in range(fv.n)]
            stats['objsuffix_checked'] = stats.get('objsuffix_checked', 0) + 1
            if len(got) != 1 or [recsolver.num(str(t)) if not isinstance(t, int) else F(t) for t in got[0]] != want:
                ck.add_violation('suffix:multiobj-%s' % sname, 'multi-objective mode: suffix %s of the file objectives is %s, the backend received %s' % (sname, [str(v) for v in want], got), rep)
        elif got and not exp[3]:
            ck.add_violation('suffix:single-mode-%s' % sname, 'single-objective mode but the backend received %s %s' % (ev, got), rep)
    for e in d.defs:
        stats['auxcon'][e['type']] = stats['auxcon'].get(e['type'], 0) + 1
    # ---- correspondence with the Lean model
    ok = True
    why = ''
    if mline is None:
        pass
    elif len(mhead) < 4 or mhead[0] != 'ok':
        ok, why = False, 'model outcome "%s" vs delivered model' % str(mline)[:60]
    else:
        m_echo = int(mhead[1].split('=')[1])
        m_names = [int(t) for t in mhead[2].split('=')[1].split(',') if t]
        m_n = int(mhead[3].split('=')[1])
        if m_echo != echo or any(a != m_echo for a in r.get('alt', [])):
            ok, why = False, 'echo: model %s, implementation %s %s' % (m_echo, echo, r.get('alt', []))
        elif m_n != len(d.objs):
            ok, why = False, 'number of objectives: model %d, implementation %d' % (m_n, len(d.objs))
        else:
            exp_names = [name_of_row_index(i) for i in m_names]
            if exp_names != names_impl:
                ok, why = False, 'names: model %s, implementation %s' % (exp_names, names_impl)
            for p, part in enumerate(mparts[1:]):
                if not ok:
                    break
                t = part.split(' ')
                sense, tok = t[0], int(t[1].split('=')[1])
                lin = []
                ls = t[2].split('=')[1] if len(t) > 2 else ''
                for it in ls.split(','):
                    if it:
                        v, cf = it.split(':')
                        lin.append((int(v), F(int(cf), SCALE)))
                e = d.objs[p]
                if e['sense'] != sense:
                    ok, why = False, 'sense of objective %d' % p
                    break
                for x, xf in zip(pts, fulls):
                    got = d.obj_value(e, xf)
                    if got is not None and got != fv.value(tok, lin, x):
                        ok, why = False, 'content of objective %d at x=%s' % (p, [str(v) for v in x])
                        break
    if not ok:
        ck.add_violation('corr:' + why.split(':')[0].split(' ')[0], 'Lean model and implementation disagree (%s) and the property oracle %s' %
                         (why, 'also fails' if len(ck.violations) + len(ck.known_hits) > nviol0 else 'is satisfied: model drift'),
                         dict(rep, correspondence='drv_c12 vs recsolver'), found_input=False)
    stats['cmp'] += 1
    return impl_head + ' nobj=%d' % len(d.objs)


# ----------------------------------------------------------------------------- plan
def gen_extra(rng, argv, stats):
    x = {}
    r = rng.below(100)
    if r < 30:
        x['names'] = rng.choice([0, 2, 3, 3, 2, 1])
    r = rng.below(100)
    if r < 28:
        x['files'] = rng.choice(['short', 'norow', 'nofiles', 'short'])
    if rng.chance(1, 7):
        x['nsol'] = rng.rint(1, 2)
        x['solcount'] = rng.chance(1, 2)
        x['nostub'] = rng.chance(1, 5)
        x['solvec'] = rng.chance(1, 2)
    if argv and rng.chance(1, 6):
        a = rng.below(len(argv))
        x['optfile'] = (a, a + 1 + rng.below(len(argv) - a))
    for k, v in x.items():
        key = '%s=%s' % (k, v if k != 'optfile' else 'yes')
        stats['extra'][key] = stats['extra'].get(key, 0) + 1
    return x


def option_plans(rng, n, tier):
    """list of (optlist in application order, env string or None, argv list)"""
    plans = []
    ks = [None] + list(range(0, n + 2))
    ms = [None, 0, 1]
    combos = [(k, m) for k in ks for m in ms]
    if tier == 'quick' and len(combos) > 12:
        must = [(None, None), (None, 1), (n + 1, None), (n + 1, 1), (0, None), (n, None), (1, 1)]
        rest = [c for c in combos if c not in must]
        while len(must) < 12 and rest:
            must.append(rest.pop(rng.below(len(rest))))
        combos = must
    for k, m in combos:
        items = []
        if k is not None:
            items.append(('o', k))
        if m is not None:
            items.append(('m', m))
        if len(items) == 2 and rng.chance(1, 2):
            items.reverse()
        plans.append(items)
    # repeated / invalid assignments
    extra = [[('o', rng.rint(0, n + 1)), ('o', rng.rint(0, n + 1))],
             [('m', 1), ('m', 0)], [('m', 0), ('m', 1)],
             [('o', rng.rint(0, n)), ('m', 1), ('o', rng.rint(0, n + 1))],
             [('o', -rng.rint(1, 3))], [('m', rng.choice([2, -1, 3]))],
             [('m', 1), ('o', -1)]]
    take = 2 if tier == 'quick' else len(extra)
    for _ in range(take):
        plans.append(extra.pop(rng.below(len(extra))))
    out = []
    for items in plans:
        strs = []
        for kind, v in items:
            name = rng.choice(['objno', 'obj:no']) if kind == 'o' else rng.choice(['multiobj', 'obj:multi'])
            strs.append('%s=%d' % (name, v))
        # channels in the order the driver applies them: mp_options, recsolver_options, command line
        a = b = 0
        if rng.chance(1, 3):
            b = rng.below(len(strs) + 1)
            a = rng.below(b + 1) if rng.chance(1, 2) else 0
        mp = ' '.join(strs[:a]) if a else None
        env = ' '.join(strs[a:b]) if b > a else None
        out.append((items, env, strs[b:], mp, not rng.chance(1, 6)))
    return out


def corpus_cases():
    """fixed cases run first (hand-written; includes the past finding)"""
    hdr = ['g3 1 1 0', ' 2 1 %d 0 0 0', ' 0 0', ' 0 0', ' 0 0 0', ' 0 0 0 1', ' 0 0 0 0 0', ' 2 2', ' 0 0', ' 0 0 0 0 0']
    tail = ['C0', 'n0', 'r', '1 4', 'b', '0 0 3', '0 0 3', 'k1', '1', 'J0 2', '0 1', '1 1']
    res = []

    def mk(nobj, body, opts, note, mutation=None):
        h = list(hdr); h[1] = h[1] % nobj
        text = '\n'.join(h + body + tail) + '\n'
        row = '\n'.join(['c0'] + ['f%d' % i for i in range(nobj)]) + '\n'
        res.append((text, row, 'x\ny\n', opts, note, mutation))
    two = ['O0 0', 'n0', 'O1 1', 'n2.5', 'G0 1', '0 1', 'G1 2', '0 1', '1 -1']
    mk(2, two, [], 'corpus: two objectives, defaults')
    mk(2, two, [('o', 2)], 'corpus: objno=2')
    mk(2, two, [('o', 3)], 'corpus: objno=3 of 2')
    mk(2, two, [('m', 1)], 'corpus: multiobj')
    mk(2, two, [('m', 1), ('o', 2)], 'corpus: multiobj and objno')
    mk(2, two, [('o', 0)], 'corpus: objno=0')
    mk(2, two[:6] + ['G2 1', '0 1'], [('o', 1)], 'corpus: G segment with an index beyond the objectives', 'badidx')
    mk(2, ['O0 0', 'n0', 'O2 1', 'n2.5', 'G0 1', '0 1'], [], 'corpus: O segment with an index beyond the objectives', 'badidx')
    mk(1, ['O0 0', 'o5', 'o1', 'v0', 'n2', 'n2', 'G0 2', '0 3', '1 1'], [], 'corpus: min 3*x0 + x1 + (x0-2)^2  (G coefficient and expansion term on x0)')
    mk(1, ['O0 1', 'o2', 'o0', 'v0', 'n1', 'o0', 'v1', 'n2', 'G0 1', '0 3'], [], 'corpus: max 3*x0 + (x0+1)*(x1+2)')
    mk(0, [], [], 'corpus: no objective')
    mk(0, [], [('o', 1)], 'corpus: objno=1 of 0')
    mk(1, ['G0 1', '0 1'], [], 'corpus: objective with G segment only (regression for fixed finding C12-echo-noO)', 'dropO')
    mk(2, ['G0 1', '0 1', 'O1 1', 'v1', 'G1 1', '0 2', 'O1 0', 'o2', 'v0', 'v1'], [('o', 2)], 'corpus: O segment given twice, G before O', 'dupO')
    return res


INT_MAX, INT_MIN = 2147483647, -2147483648
# which oracle signatures are failing inputs for the clause a generated-tie theorem is about
OBLIGATION_ORACLE = {
    'C12_gen_NeedObj': r'select:|run:abnormal', 'C12_gen_resulting_nobj': r'select:', 'C12_gen_resulting_obj_index': r'select:|run:abnormal',
    'C12_gen_OnHeader_check': r'reject:', 'C12_gen_skel_OnHeader': r'reject:|select:|echo:',
    'C12_gen_objno_specified': r'select:|reject:|echo:', 'C12_gen_is_objno_specified': r'reject:|select:', 'C12_gen_multiobj': r'select:',
    'C12_gen_objno_used': r'echo:|name:', 'C12_gen_SetObjNo': r'reject:|select:', 'C12_gen_notify': r'echo:|name:',
    'C12_gen_handler_overrides': r'select:|reject:|echo:', 'C12_gen_skel_builder_OnHeader': r'select:|echo:|name:',
    'C12_gen_skel_obj_events': r'select:|echo:|name:',
    'C12_gen_GetObjNo': r'select:|reject:|echo:', 'C12_gen_BoolOption_SetValue': r'reject:|select:', 'C12_gen_SkipExpr': r'select:|run:abnormal',
    'C12_gen_caseO_guard': r'select:|run:abnormal', 'C12_gen_segment_slots': r'select:|run:abnormal', 'C12_gen_SetObjNames': r'name:',
    'C12_gen_skel_caseO': r'select:|run:abnormal', 'C12_gen_skel_caseG': r'select:|run:abnormal', 'C12_gen_skel_delivery': r'select:|echo:',
    'C12_gen_skel_SetObjNames': r'name:',
    'C12_gen_skel_Convert_objective': r'select:',
    'C12_gen_skel_sort_terms': r'select:',
    'C12_gen_sort_terms': r'select:',
    'C12_gen_quad_sort_terms': r'select:',
}


def gen_crosscheck(ck, drv, trdir, cov=False):
    """every generated definition (MpVerif.Gen.ObjFilter, evaluated by drv_c12) against the compiled function
    (harness/h_objfilter.cc, same named inputs) on a grid including the int boundaries"""
    sig = json.load(open(os.path.join(trdir, 'objfilter_sig.json')))
    if cov:
        hobj = ck.objects([os.path.join(VERIF, 'harness', 'h_objfilter.cc')], flags=('-O0', '-g', '--coverage', '-fno-access-control'), tag='h')
        hexe = ck.link('h_objfilter_cov', hobj + ck.libmp_objects(flags=('-O0', '-g', '--coverage')), flags=['--coverage'])
    else:
        hobj = ck.objects([os.path.join(VERIF, 'harness', 'h_objfilter.cc')], flags=('-O1', '-g', '-fno-access-control'), tag='h')
        hexe = ck.link('h_objfilter', hobj + ck.libmp_objects(flags=('-O1', '-g')))
    K = [-INT_MAX, -5, -1, 0, 1, 2, 3, 4, 6, 8, INT_MAX]           # objno() values (INT_MIN excluded: objno()-1 is UB)
    IDX = [0, 1, 2, 3, 5, 7, INT_MAX]
    NH = [-1, 0, 1, 2, 3, 5, INT_MAX]
    RAW = [-INT_MAX, -7, -2, -1, 0, 1, 2, 5, INT_MAX]               # objno_ values (INT_MIN excluded: abs is UB)
    B = [0, 1]
    grids = {
        'NeedObj': [dict(p_obj_index=i, v_multiobj=m, v_objno=k) for i in IDX for m in B for k in K],
        'resulting_nobj': [dict(p_nobj_header=n, v_multiobj=m, v_objno=k) for n in NH for m in B for k in K + [INT_MIN]],
        'resulting_obj_index': [dict(p_index=i, v_multiobj=m, v_objno=(i + 1 if i < INT_MAX else 1)) for i in IDX for m in B],
        'objno_specified': [dict(f_objno_=r) for r in RAW],
        'is_objno_specified': [dict(f_objno_=r) for r in RAW + [INT_MIN]],
        'multiobj': [dict(f_multiobj_=m, f_objno_=r) for m in B for r in RAW + [INT_MIN]],
        'objno_used': [dict(f_opts_read_=a, f_obj_added_=b, f_objno_=r) for a in B for b in B for r in RAW],
        'SetObjNo': [dict(p_value=r) for r in RAW + [INT_MIN]],
        'notify_obj_added': [dict()], 'notify_start_opts': [dict()], 'notify_end_opts': [dict()],
        'handler_objno': [dict(f_objno_=r) for r in RAW],
        'handler_multiobj': [dict(f_multiobj_=m, f_objno_=r) for m in B for r in RAW + [INT_MIN]],
        'OnHeader_check': [dict(f_objno_=r, p_h_num_objs=n) for r in RAW for n in [0, 1, 2, 3, 6]],
        'GetObjNo': [dict(f_objno_=r) for r in RAW],
        'BoolOption_SetValue': [dict(p_value=v) for v in [-(2 ** 63), -INT_MAX, -2, -1, 0, 1, 2, 3, 256, 2 ** 32, 2 ** 32 + 1, 2 ** 63 - 1]],
    }
    # generated definitions without a direct call in the grid harness (private nested classes of NLReader, a method of the
    # model manager): they are compositions of the definitions above, proved so (C12_gen_SkipExpr, ..._slot, ..._guard,
    # C12_gen_SetObjNames) and exercised end to end by the driver stream
    NO_GRID = {'ObjHandler_SkipExpr', 'ObjHandler_OnLinearExpr_slot', 'caseO_guard', 'caseO_slot',
               'SetObjNames_guard', 'SetObjNames_first', 'SetObjNames_end'}
    hin, lin, meta = [], [], []
    for fn, params in sig.items():
        if fn in NO_GRID:
            continue
        if fn not in grids:
            ck.add_violation('gen:no-grid-for-%s' % fn, 'generated definition %s has no cross-check grid' % fn, {'function': fn, 'params': params}, found_input=False)
            continue
        for a in grids[fn]:
            missing = [p for p in params if p not in a]
            if missing:
                ck.add_violation('gen:unknown-parameter', 'generated definition %s now depends on %s: the code reads something the model does not know' % (fn, missing),
                                 {'function': fn, 'params': params}, found_input=False)
                break
            hin.append(fn + ' ' + ' '.join('%s=%d' % kv for kv in sorted(a.items())))
            lin.append('F %s %s' % (fn, ' '.join(str(a[p]) for p in params)))
            meta.append((fn, a))
    for fn in list(grids) + sorted(NO_GRID):
        if fn not in sig:
            ck.add_violation('gen:missing-%s' % fn, 'definition %s was not generated' % fn, {'function': fn}, found_input=False)
    ph = subprocess.run([hexe], input='\n'.join(hin) + '\n', capture_output=True, text=True)
    pl = subprocess.run([drv], input='\n'.join(lin) + '\n', capture_output=True, text=True)
    ho, lo = ph.stdout.split('\n'), pl.stdout.split('\n')
    if ph.returncode != 0 or len(ho) < len(hin) or len(lo) < len(lin):
        ck.add_violation('gen:harness-failed', 'h_objfilter rc=%s (%d/%d lines), drv_c12 %d/%d lines: %s' % (ph.returncode, len(ho), len(hin), len(lo), len(lin), ph.stderr[-300:]),
                         {'stderr': ph.stderr[-1000:]}, found_input=False)
        return
    bad = {}
    for (fn, a), h, l in zip(meta, ho, lo):
        if h != l:
            bad.setdefault(fn, []).append((a, h, l))
    for fn, lst in bad.items():
        a, h, l = lst[0]
        ck.add_violation('gen:%s-differs' % fn, 'generated Lean definition %s%s = "%s" but the compiled function gives "%s" (%d grid points differ): translator/CSem no longer describe the code' % (fn, a, l, h, len(lst)),
                         {'function': fn, 'inputs': a, 'compiled': h, 'generated': l, 'more': [str(t) for t in lst[1:5]], 'correspondence': 'drv_c12 F-lines vs harness/h_objfilter.cc'}, found_input=False)
    # the hand model of LinTerms::sort_terms (not translatable: std::map) against the compiled function on random term lists
    trng = nlgen.Rng(ck.seed * 7919 + 5)
    tl, th = [], []
    for _ in range(400):
        n = trng.below(9)
        nv = trng.rint(1, 5)
        terms = [(trng.below(nv), trng.choice([0, 0, 1, -1, 2, -2, 3, 5, -5, 7])) for _ in range(n)]
        tl.append('T %d %s' % (n, ' '.join('%d %d' % t for t in terms)))
        th.append('sort_terms ' + ' '.join('%d %d' % t for t in terms))
    pt_h = subprocess.run([hexe], input='\n'.join(th) + '\n', capture_output=True, text=True).stdout.split('\n')
    pt_l = subprocess.run([drv], input='\n'.join(tl) + '\n', capture_output=True, text=True).stdout.split('\n')
    pt_g = subprocess.run([drv], input='\n'.join('U' + x[1:] for x in tl) + '\n', capture_output=True, text=True).stdout.split('\n')
    nbad = 0
    for a, h, l, g in zip(th, pt_h, pt_l, pt_g):
        if h != g:
            nbad += 1
            ck.add_violation('gen:LinTerms_sort_terms-differs', 'generated LinTerms_sort_terms gives "%s", the compiled LinTerms::sort_terms gives "%s" for %s' % (g, h, a),
                             {'input': a, 'compiled': h, 'generated': g, 'correspondence': 'drv_c12 U-lines vs harness/h_objfilter.cc sort_terms'}, found_input=False)
        if h != l:
            nbad += 1
            ck.add_violation('corr:sort_terms', 'model sortTerms gives "%s", LinTerms::sort_terms gives "%s" for %s' % (l, h, a),
                             {'input': a, 'compiled': h, 'model': l, 'correspondence': 'drv_c12 T-lines vs harness/h_objfilter.cc sort_terms'}, found_input=False)
    # QuadTerms::sort_terms: generated definition and model (driver op Q prints both) against the compiled function
    qh, ql = [], []
    for _ in range(300):
        n = trng.below(8)
        nv = trng.rint(1, 4)
        ts = [(trng.choice([0, 1, -1, 2, -2, 3, -3, 5]), trng.below(nv), trng.below(nv)) for _ in range(n)]
        flat = ' '.join('%d %d %d' % t for t in ts)
        qh.append('quad_sort_terms ' + flat)
        ql.append('Q ' + flat)
    pq_h = subprocess.run([hexe], input='\n'.join(qh) + '\n', capture_output=True, text=True).stdout.split('\n')
    pq_l = subprocess.run([drv], input='\n'.join(ql) + '\n', capture_output=True, text=True).stdout.split('\n')
    qbad = 0
    for a, h, l in zip(qh, pq_h, pq_l):
        if l != h + ' | ' + h:
            qbad += 1
            ck.add_violation('gen:QuadTerms_sort_terms-differs', 'generated QuadTerms_sort_terms | model sortQuadTerms give "%s", the compiled QuadTerms::sort_terms gives "%s" for %s' % (l, h, a),
                             {'input': a, 'compiled': h, 'generated_and_model': l, 'correspondence': 'drv_c12 Q-lines vs harness/h_objfilter.cc quad_sort_terms'}, found_input=False)
    ck.cov['quad_sort_terms_lists_compared'] = len(qh)
    ck.log('generated QuadTerms_sort_terms and model sortQuadTerms compared with the compiled function on %d random term lists, %d differ' % (len(qh), qbad))
    ck.cov['sort_terms_lists_compared'] = len(th)
    ck.log('model sortTerms and generated LinTerms_sort_terms compared with the compiled LinTerms::sort_terms on %d random term lists, %d differ' % (len(th), nbad))
    ck.cov['generated_defs'] = len(sig)
    ck.cov['generated_defs_grid_points'] = len(meta)
    ck.log('%d generated definitions cross-checked with the compiled functions on %d grid points, %d differ' % (len(sig), len(meta), sum(len(v) for v in bad.values())))


# ----------------------------------------------------------------------------- main
COVERAGE = os.environ.get('VERIF_COVERAGE') == '1'


def refine_failing(ck, failing):
    """common.failing_decls blames the preceding declaration for errors Lean reports on a doc-comment line (failing
    `:= rfl`); recompute the failing C12_* theorems with checks/failing_spans.py (spans start at the doc comment)"""
    from failing_spans import failing_decls_spans
    tail = ck.cov.get('lake_output_tail', '')
    names = failing_decls_spans(tail, 'MpVerif/C12/Props.lean', LEAN)
    if not names:
        return failing
    keep = [f for f in failing if not re.match(r'^C12_\w+$', f.split(' ')[0]) and not f.startswith('MpVerif/C12/Props.lean:')]
    return names + keep


def model_arms(cases):
    """which `if`/`match` arms of the Lean model functions (Model.lean) the case stream exercises; computed from the
    case parameters with the same conditions as the model (setOpt, parseOpts, onHeader, resultingNObj, needObj,
    resultingObjIndex, onSeg, objnoUsed, objRowIdx)"""
    A = {}

    def hit(k):
        A[k] = A.get(k, 0) + 1
    for k in ['setOpt.objno.neg', 'setOpt.objno.ok', 'setOpt.multi.bad', 'setOpt.multi.ok', 'parseOpts.nil', 'parseOpts.error', 'parseOpts.cons-ok',
              'onHeader.parse-error', 'onHeader.out-of-range', 'onHeader.ok', 'resultingNObj.multi', 'resultingNObj.single k>0,n>0',
              'resultingNObj.single k>0,n=0', 'resultingNObj.single k=0,n>0', 'resultingNObj.single k=0,n=0',
              'needObj.multi', 'needObj.single.match', 'needObj.single.nomatch', 'resultingObjIndex.multi', 'resultingObjIndex.single',
              'onSeg.O.bad-index', 'onSeg.O.kept', 'onSeg.O.skipped', 'onSeg.G.bad-index', 'onSeg.G.kept', 'onSeg.G.skipped', 'onSeg.other',
              'readSegs.error', 'readSegs.nil', 'objnoUsed.optsRead.objAdded', 'objnoUsed.optsRead.not-added', 'objnoUsed.not-optsRead',
              'objRowIdx.empty', 'objRowIdx.multi', 'objRowIdx.single', 'onHeader.objAdded.set', 'onHeader.objAdded.unset']:
        A[k] = 0
    for c in cases:
        fv = FileView(c.text)
        raw, mf, err = -1, False, False
        hit('parseOpts.nil')
        for kind, v in c.optlist:
            if kind == 'o':
                if v < 0:
                    hit('setOpt.objno.neg'); err = True
                else:
                    hit('setOpt.objno.ok'); raw = v
            else:
                if v not in (0, 1):
                    hit('setOpt.multi.bad'); err = True
                else:
                    hit('setOpt.multi.ok'); mf = v == 1
            if err:
                hit('parseOpts.error')
                break
            hit('parseOpts.cons-ok')
        if err:
            hit('onHeader.parse-error')
            continue
        k, spec, multi, n = abs(raw), raw >= 0, mf and raw < 0, fv.n
        if k > n and spec:
            hit('onHeader.out-of-range')
            continue
        hit('onHeader.ok')
        if multi:
            hit('resultingNObj.multi'); nobj = n
        else:
            hit('resultingNObj.single k%s,n%s' % ('>0' if k > 0 else '=0', '>0' if n > 0 else '=0')); nobj = 1 if (k > 0 and n > 0) else 0
        hit('onHeader.objAdded.set' if nobj > 0 else 'onHeader.objAdded.unset')
        bad = False
        for sg in fv.stream:
            if sg[0] == 'X':
                hit('onSeg.other')
                continue
            if sg[1] >= n:
                hit('onSeg.%s.bad-index' % sg[0]); hit('readSegs.error'); bad = True
                break
            if multi:
                hit('needObj.multi'); need = True
            else:
                need = k - 1 == sg[1]
                hit('needObj.single.match' if need else 'needObj.single.nomatch')
            if need:
                hit('resultingObjIndex.multi' if multi else 'resultingObjIndex.single')
            hit('onSeg.%s.%s' % (sg[0], 'kept' if need else 'skipped'))
        if bad:
            continue
        hit('readSegs.nil')
        hit('objnoUsed.optsRead.objAdded' if nobj > 0 else 'objnoUsed.optsRead.not-added')
        hit('objRowIdx.empty' if nobj == 0 else 'objRowIdx.multi' if multi else 'objRowIdx.single')
    return A


def build_cov_driver(ck):
    flags = ('-O0', '-g', '--coverage')
    srcs = [os.path.join(recsolver.RDIR, f) for f in ['recmain.cc', 'recmodelmgr.cc', 'recmodelapi.cc', 'recbackend.cc']]
    objs = ck.objects(srcs, flags=flags, extra_inc=[recsolver.RDIR], tag='rec') + ck.libmp_objects(flags=flags)
    for f in glob.glob(os.path.join(BUILD, 'obj', '*.gcda')):
        os.remove(f)
    return ck.link('recsolver_cov', objs, flags=['--coverage'])


def run(ck):
    if COVERAGE and 'VERIF_BUILD' not in os.environ:
        # coverage mode works in its own build directory
        env = dict(os.environ, VERIF_BUILD=os.path.join(VERIF, 'build', 'cov_c12'))
        os.execve(sys.executable, [sys.executable, os.path.join(VERIF, 'check'), 'C12', '--tier', ck.tier], env)
    # 1. regenerate lean/MpVerif/Gen/ObjFilter.lean from the repository's source text (clang typed AST)
    gen = os.path.join(LEAN, 'MpVerif', 'Gen', 'ObjFilter.lean')
    trdir = os.path.join(BUILD, 'tr_c12')
    # the translation is a function of these files only; it is re-run whenever any of them (or the translator) changes
    h = hashlib.sha256()
    srcs = sorted(glob.glob(os.path.join(REPO, 'include', 'mp', '**', '*.h*'), recursive=True)) + [os.path.join(REPO, 'src', 'solver.cc')] + \
        sorted(glob.glob(os.path.join(VERIF, 'translators', '*.py')))
    for f in srcs:
        h.update(f.encode() + b'\0' + open(f, 'rb').read())
    key = h.hexdigest()
    keyf = os.path.join(trdir, 'inputs.sha256')
    cached = os.path.exists(keyf) and os.path.exists(gen) and os.path.exists(os.path.join(trdir, 'objfilter_sig.json')) and \
        open(keyf).read().split() == [key, hashlib.sha256(open(gen, 'rb').read()).hexdigest()]
    if cached:
        rc, out, err = 0, 'generated definitions up to date (same source text and translator as in the last run)', ''
    else:
        rc, out, err = sh([sys.executable, os.path.join(VERIF, 'translators', 'gen_objfilter.py'), REPO, gen, trdir], timeout=600)
        if rc == 0:
            open(keyf, 'w').write(key + ' ' + hashlib.sha256(open(gen, 'rb').read()).hexdigest())
        elif os.path.exists(keyf):
            os.remove(keyf)
    ck.log((out.strip() or err.strip())[-300:])
    translator_ok = rc == 0
    failing = []
    # 2. proof obligations (selection theorems about the hand model + generated = hand model) and axiom audit
    proof_ok, failing = ck.proof_stage('MpVerif.C12.Props', 'MpVerif/C12/Props.lean', 'C12_',
                                       ['MpVerif/C12/*.lean', 'MpVerif/Gen/ObjFilter.lean'], expect_min=N_THEOREMS)
    failing = refine_failing(ck, failing)
    if not translator_ok:
        failing = ['translator: ' + (out + err).strip()[-400:]] + failing
        proof_ok = False
    ck.log('proof stage: ok=%s failing=%s' % (proof_ok, failing[:8]))
    if ck.tier == 'thorough' and proof_ok:
        bad = ck.leanchecker(['MpVerif.C12.Props'])
        if bad:
            failing += ['leanchecker rejected %s' % m for m in bad]
            proof_ok = False
    exe = build_cov_driver(ck) if COVERAGE else recsolver.build(ck)
    try:
        drv = ck.driver('drv_c12')
    except Exception as e:          # e.g. the generated module no longer compiles
        drv = None
        failing.append('model driver does not build: %s' % str(e)[-300:])
        proof_ok = False
    ck.log('recsolver built, drv_c12 %s' % ('built' if drv else 'NOT built'))
    # 3a. generated definitions vs the compiled functions on a grid
    if drv and translator_ok:
        gen_crosscheck(ck, drv, trdir)
    wdir = os.path.join(BUILD, 'c12', 'work-%d' % os.getpid())
    shutil.rmtree(wdir, ignore_errors=True)
    os.makedirs(wdir, exist_ok=True)
    rng = nlgen.Rng(ck.seed * 1000003 + (17 if ck.tier == 'quick' else 29))
    nfiles = 80 if ck.tier == 'quick' else 800
    maxobj = 4 if ck.tier == 'quick' else 6
    stats = {'outcome': {}, 'objkind': {}, 'auxcon': {}, 'cmp': 0, 'nobj_hist': {}, 'mutation': {}, 'format': {'text': 0, 'binary': 0},
             'k_class': {}, 'multi': {}, 'channel': {}, 'extra': {}, 'content': {}, 'reduced_runs': 0, 'text_vs_binary_runs': 0, 'expr_ops': {}}
    cases = []
    cid = 0
    for text, row, col, opts, note, mutation in corpus_cases():
        strs = ['%s=%d' % ('objno' if k == 'o' else 'multiobj', v) for k, v in opts]
        for binary in (False, True):
            for q in (1, 0):
                cases.append(Case(cid, text, binary, row, col, opts, None, strs, q, note, mutation)); cid += 1
    extra_runs = []     # (kind, case index, aux case)
    for fno in range(nfiles):
        m = gen_model(rng, maxobj)
        stub = os.path.join(wdir, 'gen')
        m.write(stub)
        text = open(stub + '.nl').read()
        row, col = open(stub + '.row').read(), open(stub + '.col').read()
        for o in m.objs:
            count_ops(o['nl'], stats['expr_ops'])
        mutation, note = None, 'as written by gen/nlgen.py'
        r = rng.below(100)
        kind = 'shuffle' if r < 20 else 'dupO' if r < 27 else 'dupG' if r < 34 else 'dropO' if r < 42 else 'badidx' if r < 46 else 'defvar' if r < 62 else None
        if kind:
            t2, desc = mutate(rng, text, kind)
            if desc:
                text, mutation, note = t2, kind, desc
        stats['mutation'][mutation or 'none'] = stats['mutation'].get(mutation or 'none', 0) + 1
        n = len(m.objs)
        if n >= 1 and rng.chance(1, 3):
            # objective suffixes (used by the backend in multi-objective mode only), for a random subset of the objectives
            for sname, kind in (('objpriority', 2), ('objweight', 6)):
                if rng.chance(2, 3):
                    sub = [f for f in range(n) if rng.chance(2, 3)] or [rng.below(n)]
                    vals = ['%d %s' % (f, (str(rng.rint(1, 9)) if kind == 2 else nlgen.fnum(F(rng.rint(1, 40), 8)))) for f in sub]
                    text += 'S%d %d %s\n' % (kind, len(sub), sname) + '\n'.join(vals) + '\n'
                    stats['objsuffix_files'] = stats.get('objsuffix_files', 0) + 1
        stats['nobj_hist'][n] = stats['nobj_hist'].get(n, 0) + 1
        fmt = rng.below(10)
        formats = [False, True] if fmt < 2 else [True] if fmt < 5 else [False]
        quadobj = 0 if rng.chance(1, 4) else 1
        for items, env, argv, mp, ampl in option_plans(rng, n, ck.tier):
            first = None
            for binary in formats:
                if first is None:
                    xtra = gen_extra(rng, argv, stats)
                c = Case(cid, text, binary, row, col, items, env, argv, quadobj, note, mutation, model=m, mpopts=mp, ampl=ampl, extra=xtra); cid += 1
                cases.append(c)
                if first is None:
                    first = c
                else:
                    extra_runs.append(('fmt', first, c))
            # reduced-file oracle for explicit single selections on regular files
            ex = expected_from_options(items, n)
            plain_names = first.extra['names'] is None and first.extra['files'] == 'full'    # generated names carry the file index
            if mutation in (None, 'shuffle', 'defvar') and ex[0] == 'ok' and len(ex[1]) == 1 and n >= 2 and plain_names and rng.chance(1, 2):
                f = ex[1][0]
                rrow = '\n'.join(row.split('\n')[:FileView(text).num_cons] + [row.split('\n')[FileView(text).num_cons + f]]) + '\n'
                rc = Case(cid, reduce_to(text, f), first.binary, rrow, col, [], None, [], quadobj, 'reduced to objective %d' % (f + 1), mutation); cid += 1
                extra_runs.append(('reduced', first, rc))
    ck.log('%d cases planned (%d files), %d auxiliary runs' % (len(cases), nfiles, len(extra_runs)))

    # ---- run the implementation (parallel), the model (one process), judge
    def do(c):
        return run_case(exe, wdir, c)
    with ThreadPoolExecutor(max_workers=6) as ex:
        results = list(ex.map(do, cases))
        aux = list(ex.map(lambda t: run_case(exe, wdir, t[2], 'x') if t[0] == 'reduced' else None, extra_runs))
    ck.log('implementation runs done')
    mlines_in = [FileView(c.text).model_line(c.optlist) for c in cases]
    if drv:
        p = subprocess.run([drv], input='\n'.join(mlines_in) + '\n', capture_output=True, text=True)
        mout = p.stdout.split('\n')
        if p.returncode != 0 or len(mout) < len(cases):
            ck.add_violation('corr:driver-failed', 'drv_c12 failed: rc=%s %s' % (p.returncode, p.stderr[-300:]), {'stderr': p.stderr[-1000:]}, found_input=False)
            mout += ['bad-op'] * len(cases)
    else:
        mout = [None] * len(cases)
    by_id = {}
    impl_lines = []
    for c, r, ml in zip(cases, results, mout):
        by_id[c.cid] = r
        if ml == 'bad-op':
            ck.add_violation('corr:bad-op', 'the Lean driver cannot interpret the case line', c.replay_obj(), found_input=False)
        il = judge(ck, c, r, ml, stats, rng)
        impl_lines.append(il)
        stats['format']['binary' if c.binary else 'text'] += 1
        ch = ('mp_options+' if c.mpopts else '') + ('solver_options+' if c.envopts else '') + ('argv' if c.argv else '') + ('' if c.ampl else ' wantsol')
        stats['channel'][ch] = stats['channel'].get(ch, 0) + 1
        ex = expected_from_options(c.optlist, FileView(c.text).n)
        kc = 'invalid' if ex == ('err', 'invalidOption') else 'beyond' if ex[0] == 'err' else \
            ('default' if not any(k == 'o' for k, _ in c.optlist) else 'zero' if ex[1] == [] and any(k == 'o' and v == 0 for k, v in c.optlist) else 'given')
        stats['k_class'][kc] = stats['k_class'].get(kc, 0) + 1
        ms = [v for k, v in c.optlist if k == 'm']
        mk_ = 'unset' if not ms else str(ms[-1])
        stats['multi'][mk_] = stats['multi'].get(mk_, 0) + 1
        if c.cid % 97 == 0:
            ck.sample('%s | options %s | %s -> impl "%s" model "%s"' % (c.note, c.optlist, 'binary' if c.binary else 'text', il, ml[:100]))

    def strip(log):
        return [json.dumps(e, sort_keys=True) for e in log if e.get('ev') in ('vars', 'obj', 'con', 'begin', 'end')]
    for (kind, a, b), rb in zip(extra_runs, aux):
        if kind == 'fmt':
            stats['text_vs_binary_runs'] += 1
            ra, rb2 = by_id[a.cid], by_id[b.cid]
            if strip(ra['log']) != strip(rb2['log']) or sol_objno(ra['sol']) != sol_objno(rb2['sol']):
                ck.add_violation('format:text-binary-differ', 'the same model in text and binary NL form yields different delivered models', dict(b.replay_obj(), other=a.replay_obj()))
        else:
            stats['reduced_runs'] += 1
            ra = by_id[a.cid]
            if classify(ra, a.ampl)[0] != 'ok':
                continue
            if strip(ra['log']) != strip(rb['log']):
                la, lb = strip(ra['log']), strip(rb['log'])
                diff = next((i for i in range(min(len(la), len(lb))) if la[i] != lb[i]), min(len(la), len(lb)))
                ck.add_violation('select:differs-from-single-objective-file', 'objno selection on the full file delivers a different model than the file reduced to that objective (first differing event %d)' % diff,
                                 dict(a.replay_obj(), reduced=b.replay_obj(), full_event=la[diff] if diff < len(la) else None, reduced_event=lb[diff] if diff < len(lb) else None))
    if COVERAGE:
        import c12_cov
        merged = c12_cov.collect(os.path.join(BUILD, 'obj'))
        rep = c12_cov.report(merged, REPO)
        rep['stream'] = '%s tier, seed %d, %d cases + %d auxiliary runs' % (ck.tier, ck.seed, len(cases), len(extra_runs))
        os.makedirs(os.path.join(VERIF, 'design_notes', 'coverage'), exist_ok=True)
        json.dump(rep, open(os.path.join(VERIF, 'design_notes', 'coverage', 'C12_last.json'), 'w'), indent=1)
        rep['model_arms'] = model_arms(cases)
        md = c12_cov.markdown(rep, 'driver stream: ' + rep['stream'])
        # secondary measurement: the grid harness (generated definitions vs compiled functions) added on top
        if drv and translator_ok:
            gen_crosscheck(ck, drv, trdir, cov=True)
            rep2 = c12_cov.report(c12_cov.collect(os.path.join(BUILD, 'obj')), REPO)
            rep['with_grid_harness'] = {k: rep2[k] for k in ('anchor_line_cov', 'anchor_branch_cov', 'mechanism_line_cov', 'mechanism_branch_cov', 'mechanism_totals')}
            md += '\n' + c12_cov.markdown(rep2, 'driver stream + grid harness h_objfilter (498 points)')
        md += '\n### model arms exercised by the stream\n\n| arm | cases |\n|---|---|\n' + '\n'.join('| %s | %d |' % kv for kv in sorted(rep['model_arms'].items())) + '\n'
        json.dump(rep, open(os.path.join(VERIF, 'design_notes', 'coverage', 'C12_last.json'), 'w'), indent=1)
        open(os.path.join(BUILD, 'coverage_report.md'), 'w').write(md)
        ck.log('coverage: anchored files line %.1f%% branch %.1f%%; mechanism functions line %.1f%% branch %.1f%% -> design_notes/coverage/C12_last.json, %s' %
               (rep['anchor_line_cov'], rep['anchor_branch_cov'], rep['mechanism_line_cov'], rep['mechanism_branch_cov'], os.path.join(BUILD, 'coverage_report.md')))
    # ---- thorough: a sample of the cases again under ASan/UBSan (slot index of kept segments, C12_index_in_range)
    if ck.tier == 'thorough':
        exe_san = recsolver.build(ck, flags=SAN_FLAGS, name='recsolver_asan')
        step = max(1, len(cases) // 700)
        sample = cases[::step]
        with ThreadPoolExecutor(max_workers=6) as ex:
            sres = list(ex.map(lambda c: run_case(exe_san, wdir, c, 's'), sample))
        nsan = 0
        for c, r in zip(sample, sres):
            nsan += 1
            if r['rc'] != 0 or 'Sanitizer' in r['err'] or 'runtime error' in r['err']:
                ck.add_violation('memory:sanitizer-report', 'ASan/UBSan build of the driver reports an error or dies (rc=%s): %s' % (r['rc'], r['err'][-400:]),
                                 dict(c.replay_obj(), stderr=r['err'][-3000:], build=' '.join(SAN_FLAGS)))
            elif classify(r, c.ampl) != classify(by_id[c.cid], c.ampl):
                ck.add_violation('memory:sanitized-run-differs', 'sanitized and plain builds disagree on the outcome class', c.replay_obj(), found_input=False)
        ck.cov['sanitized_runs'] = nsan
        ck.log('%d cases re-run under ASan/UBSan' % nsan)
    # ---- proof obligations that no longer check: if the search above produced a failing input for the clause the
    #      theorem is about, the obligation is named in that violation; otherwise it is reported on its own
    if not proof_ok:
        for fdecl in failing:
            name = fdecl.split(' ')[0]
            pat = OBLIGATION_ORACLE.get(name)
            hit = None
            if pat:
                hit = next((v for v in ck.violations if v['found_input'] and re.match(pat, v['sig'])), None)
            if hit is not None:
                hit['replay'].setdefault('broken_obligations', []).append(name)
                if 'proof obligation' not in hit['what']:
                    hit['what'] += '  [proof obligation(s) that no longer check: see replay.broken_obligations]'
                continue
            ck.add_violation('obligation:%s' % name, 'proof obligation no longer checks: %s' % fdecl,
                             {'theorem': fdecl, 'module': 'MpVerif.C12.Props', 'searched': '%d implementation cases, none violates the clause this theorem is about' % len(cases)}, found_input=False)
    ck.cov['evaluations'] = len(cases) + len([1 for t in extra_runs if t[0] == 'reduced'])
    ck.cov['traces_validated_against_impl'] = stats['cmp']
    distinct = len({(hashlib.sha1(c.text.encode()).hexdigest(), c.binary, tuple(c.optlist)) for c in cases})
    ck.cov['distinct_nontrivial'] = distinct
    ck.cov['rule'] = 'distinct (NL file, format, option sequence) triples run through the real driver and compared with the Lean model and the oracle'
    ck.cov['exhaustive'] = False
    ck.cov['generator_histogram'] = {k: stats[k] for k in ('outcome', 'objkind', 'auxcon', 'nobj_hist', 'mutation', 'format', 'k_class', 'multi', 'channel', 'extra', 'expr_ops')}
    ck.cov['generator_histogram']['content_comparison'] = stats['content']
    ck.cov['generator_histogram']['objectives_with_expansion_term_on_G_variable'] = stats_gen.get('expansion_overlaps_G', 0)
    ck.cov['generator_histogram']['altsol_files_checked'] = stats.get('altsol_files', 0)
    ck.cov['generator_histogram']['objsuffix_cases_checked'] = stats.get('objsuffix_checked', 0)
    covf = os.path.join(VERIF, 'design_notes', 'coverage', 'C12_last.json')
    if os.path.exists(covf):       # measured in the last VERIF_COVERAGE=1 run (not recomputed here)
        cj = json.load(open(covf))
        ck.cov['anchor_line_cov'] = cj['anchor_line_cov']
        ck.cov['anchor_branch_cov'] = cj['anchor_branch_cov']
        ck.cov['mechanism_line_cov'] = cj['mechanism_line_cov']
        ck.cov['mechanism_branch_cov'] = cj['mechanism_branch_cov']
        ck.cov['coverage_measured_on'] = cj.get('stream')
    ck.cov['reduced_file_runs'] = stats['reduced_runs']
    ck.cov['text_vs_binary_pairs'] = stats['text_vs_binary_runs']
    ck.log('histogram: ' + json.dumps(ck.cov['generator_histogram'], sort_keys=True))
    ck.assumptions += [
        'objective content (expression trees, coefficients) is opaque to the Lean model; content fidelity is checked on the implementation by exact evaluation at 5 random integer points per delivered objective and by reduced-file runs, not proved',
        'an explicit objno switches multi-objective mode off (documented behaviour of BasicSolver::multiobj()) - taken as the meaning of "multi-objective mode on"',
        'option text -> (option, integer value) parsing is C11\'s subject; here values reach the setters as integers',
        'NL tokenisation (text/binary) is C02\'s subject; the model starts from the segment stream, which this check parses from the very file handed to the driver',
    ]
    ck.cov['trusted_base'] += ['harness/recsolver (recording ModelAPI) and checks/recsolver.py', 'gen/nlgen.py exact evaluator; the NL text parser and text->binary transcoder in checks/c12.py']
    shutil.rmtree(wdir, ignore_errors=True)


def count_ops(e, h):
    if e is None:
        h['(linear only)'] = h.get('(linear only)', 0) + 1
        return
    h[e[0]] = h.get(e[0], 0) + 1
    for a in e[1:]:
        if isinstance(a, tuple):
            count_ops(a, h)
        elif isinstance(a, list):
            for b in a:
                count_ops(b, h)


def replay(ck, path):
    obj = json.load(open(path))
    rp = obj['replay']
    exe = recsolver.build(ck)
    drv = ck.driver('drv_c12')
    wdir = os.path.join(BUILD, 'c12', 'replay')
    os.makedirs(wdir, exist_ok=True)
    c = Case(0, rp['nl_text'], rp['binary_format'], rp['row'], rp['col'], [tuple(t) for t in rp['options_in_order']],
             rp['env_recsolver_options'], rp['argv_options'], rp['RECSOLVER_QUADOBJ'], rp.get('stream', ''), 'replay',
             mpopts=rp.get('env_mp_options'), ampl=rp.get('ampl_flag', True), extra=rp.get('extra'))
    r = run_case(exe, wdir, c)
    ml = FileView(c.text).model_line(c.optlist)
    p = subprocess.run([drv], input=ml + '\n', capture_output=True, text=True)
    stats = {'outcome': {}, 'objkind': {}, 'auxcon': {}, 'cmp': 0, 'content': {}}
    il = judge(ck, c, r, p.stdout.strip(), stats, nlgen.Rng(ck.seed))
    print('options (in order):', c.optlist, '| mp_options:', c.mpopts, '| recsolver_options:', c.envopts, '| argv:', c.argv, '| -AMPL:', c.ampl, '| format:', 'binary' if c.binary else 'text')
    print('implementation :', il, '| outcome', classify(r, c.ampl))
    print('objective events:', [json.dumps(e) for e in r['log'] if e.get('ev') == 'obj'])
    print('.sol objno line :', sol_objno(r['sol']))
    print('Lean model      :', p.stdout.strip())
    print('expected (property):', expected_from_options(c.optlist, FileView(c.text).n))
    return ck.finish()

"""VERIF_COVERAGE=1 ./check C19 : gcov line/branch coverage of the anchored files under the quick-tier input stream.
Writes design_notes/coverage/C19.md and design_notes/coverage/C19.json (read by the normal runs for the evidence)."""
import os, json, glob, subprocess, re
from common import VERIF, REPO

ANCHORS = ['include/mp/valcvt-base.h', 'include/mp/valcvt-node.h', 'include/mp/valcvt-link.h', 'include/mp/valcvt.h',
           'include/mp/flat/converter.h', 'include/mp/flat/converter_model.h', 'include/mp/flat/constr_keeper.h',
           'include/mp/flat/redef/std/range_con.h', 'include/mp/model-mgr-with-pb.h', 'src/problem.cc', 'src/nl-reader.cc',
           'include/mp/problem.h']
# functions that implement the mechanisms named in anchors.mechanism (matched on the demangled name)
MECH = re.compile(r'VCString|MakeCountedName|PresolveNames|PostsolveNames|CopyNamesFromValueNodes|CopyNames2ValueNodes|TransferNames2Node|'
                  r'NameProvider|NameHandler|internal::ReadNames|NameReader|::ReadNames|SetObjNames|WantNames|item_name|'
                  r'SetVarNames|SetConNames|SetObjNames|AddVarNames|AddConNames|AddObjNames|CopyItemNames|var_name|con_name|obj_name|dvar_name|'
                  r'SetStr|GetStr|GetStrVec|CleanUpAndRealloc_Names|CleanUpNameNodes|Distr<mp::pre::VCString>|CopySrcDest<mp::pre::VCString>|'
                  r'Copy<mp::pre::VCString>|CopyRange<std::vector<mp::pre::VCString|SetVal<mp::pre::VCString>|GetVal<mp::pre::VCString>|'
                  r'CopyLink::AddEntry|Many2ManyLink::AddEntry|One2ManyLink::AddEntry|Many2OneLink::AddEntry|IsLastRegisteredEntry|AutoLinkScope|::AutoLink\(')


def clean(build):
    for f in glob.glob(os.path.join(build, 'obj', '*.gcda')):
        os.remove(f)


def collect(build):
    """aggregate gcov JSON over all TUs: file -> {line: count}, {(line, k): count}, functions"""
    lines, branches, funcs = {}, {}, {}
    odir = os.path.join(build, 'obj')
    for gcda in sorted(glob.glob(os.path.join(odir, '*.gcda'))):
        p = subprocess.run(['gcov-12', '-b', '-c', '-m', '-j', '-t', gcda], cwd=odir, capture_output=True, text=True, timeout=1200)
        if p.returncode != 0 or not p.stdout.strip():
            continue
        for doc in p.stdout.split('\n'):
            doc = doc.strip()
            if not doc.startswith('{'):
                continue
            try:
                j = json.loads(doc)
            except Exception:
                continue
            for f in j.get('files', []):
                path = os.path.realpath(f['file']) if os.path.isabs(f['file']) else f['file']
                rel = None
                for a in ANCHORS:
                    if path.endswith('/' + a):
                        rel = a
                if rel is None:
                    continue
                L = lines.setdefault(rel, {})
                B = branches.setdefault(rel, {})
                for ln in f.get('lines', []):
                    n = ln['line_number']
                    L[n] = L.get(n, 0) + ln['count']
                    for k, br in enumerate(ln.get('branches', [])):
                        if br.get('throw'):
                            continue          # exceptional edges of calls
                        B[(n, k)] = B.get((n, k), 0) + br['count']
                F = funcs.setdefault(rel, {})
                for fn in f.get('functions', []):
                    key = (fn['demangled_name'], fn['start_line'], fn['end_line'])
                    F[key] = F.get(key, 0) + fn['execution_count']
    return lines, branches, funcs


def short(name):
    name = re.sub(r'mp::FlatCvtImpl<[^()]*?> >', 'FlatCvt', name)
    name = re.sub(r'<mp::ProblemFltImpl<.*?> > >', '<…>', name)
    return name if len(name) < 170 else name[:80] + ' … ' + name[-80:]


def report(ck, build, hist):
    lines, branches, funcs = collect(build)
    out = ['# C19 — gcov coverage of the anchored files under the quick-tier input stream', '',
           'Produced by `VERIF_COVERAGE=1 ./check C19` (seed %d; recsolver + h_names built with `-O0 --coverage`; `gcov-12 -b -c`; '
           'branches = non-exceptional edges; header code counted over all instantiating TUs).' % ck.seed, '',
           '| file | lines hit / instrumented | line % | branches hit / total | branch % |', '|---|---|---|---|---|']
    tot = [0, 0, 0, 0]
    summary = {}
    for a in ANCHORS:
        L, B = lines.get(a, {}), branches.get(a, {})
        lh, lt = sum(1 for c in L.values() if c), len(L)
        bh, bt = sum(1 for c in B.values() if c), len(B)
        tot = [tot[0] + lh, tot[1] + lt, tot[2] + bh, tot[3] + bt]
        summary[a] = {'line': [lh, lt], 'branch': [bh, bt]}
        out.append('| %s | %d / %d | %.1f | %d / %d | %.1f |' % (a, lh, lt, 100.0 * lh / max(lt, 1), bh, bt, 100.0 * bh / max(bt, 1)))
    out.append('| **all anchored files** | %d / %d | %.1f | %d / %d | %.1f |' % (tot[0], tot[1], 100.0 * tot[0] / max(tot[1], 1), tot[2], tot[3], 100.0 * tot[2] / max(tot[3], 1)))
    # mechanism functions
    mlh = mlt = mbh = mbt = 0
    rows_unc_fn, rows_unc_br = [], []
    for a in ANCHORS:
        L, B = lines.get(a, {}), branches.get(a, {})
        seen = set()
        for (name, s, e), cnt in sorted(funcs.get(a, {}).items(), key=lambda kv: kv[0][1]):
            if not MECH.search(name):
                continue
            key = (s, e, re.sub(r'<.*', '', name))
            ls = [n for n in L if s <= n <= e]
            bs = [k for k in B if s <= k[0] <= e]
            if (s, e) not in seen:
                seen.add((s, e))
                mlt += len(ls); mlh += sum(1 for n in ls if L[n])
                mbt += len(bs); mbh += sum(1 for k in bs if B[k])
                if not any(L[n] for n in ls):
                    rows_unc_fn.append('| %s:%d | `%s` |' % (a, s, short(name)))
                else:
                    ul = sorted(n for n in ls if not L[n])
                    ub = sorted({k[0] for k in bs if not B[k]})
                    if ul or ub:
                        rows_unc_br.append('| %s:%d-%d | `%s` | %s | %s |' % (a, s, e, short(name), ' '.join(map(str, ul)) or '-', ' '.join(map(str, ub)) or '-'))
    out += ['', '## Functions implementing the anchored mechanisms', '',
            'lines %d / %d (%.1f %%), branches %d / %d (%.1f %%)' % (mlh, mlt, 100.0 * mlh / max(mlt, 1), mbh, mbt, 100.0 * mbh / max(mbt, 1)), '',
            '### never executed', '', '| where | function |', '|---|---|'] + (rows_unc_fn or ['| - | - |'])
    out += ['', '### executed, with uncovered lines / branch edges', '', '| where | function | uncovered lines | lines with an untaken branch edge |', '|---|---|---|---|'] + (rows_unc_br or ['| - | - | - | - |'])
    os.makedirs(os.path.join(VERIF, 'design_notes', 'coverage'), exist_ok=True)
    open(os.path.join(VERIF, 'design_notes', 'coverage', 'C19.generated.md'), 'w').write('\n'.join(out) + '\n')
    js = {'seed': ck.seed, 'anchor_line_cov': round(100.0 * tot[0] / max(tot[1], 1), 1), 'anchor_branch_cov': round(100.0 * tot[2] / max(tot[3], 1), 1),
          'mechanism_line_cov': round(100.0 * mlh / max(mlt, 1), 1), 'mechanism_branch_cov': round(100.0 * mbh / max(mbt, 1), 1),
          'per_file': summary, 'model_arms': {k: v for k, v in hist.items() if k.startswith('arm:')}}
    json.dump(js, open(os.path.join(VERIF, 'design_notes', 'coverage', 'C19.json'), 'w'), indent=1)
    ck.log('coverage: anchored files line %.1f%% branch %.1f%%; mechanism functions line %.1f%% branch %.1f%%' %
           (js['anchor_line_cov'], js['anchor_branch_cov'], js['mechanism_line_cov'], js['mechanism_branch_cov']))
